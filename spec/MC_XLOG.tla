------------------------------- MODULE MC_XLOG -------------------------------
(* Bounded design model for XLOG.  Two specifications over module Logging:                 *)
(*   SpecReq  (MC_XLOG.cfg)      logger configuration x sequences of requests              *)
(*            = 3 log methods (syslog with several priority/facility pairs) x front ends x  *)
(*            request kinds (served / missing / handler raises OSError / handler raises    *)
(*            ValueError / every client write fails) x injected bytes (none, LF, CR, CRLF,  *)
(*            a byte that is not UTF-8, NUL, a very long run, a complete forged record) in   *)
(*            the selector path or in the search request; plus PAIRS of requests from two   *)
(*            client addresses over a smaller alphabet (order, logging survives failures).  *)
(*   SpecAdm  (MC_XLOG_adm.cfg)  initialize(): method x detach x pidfile x mimetypes found  *)
(*            x chroot x setuid/setgid x side of the fork followed x failing pidfile open.  *)
(* One TLC action per stage of the code.  Every initial state is also one replay case for   *)
(* the real code (harness/xlog.py reads them from the state dump: variables step/lg/reqs    *)
(* and step/a/role/fault; injected bytes are carried by NAME, see MC_XLOG_consts).          *)
EXTENDS Logging, MC_XLOG_consts, TLC

VARIABLES step,                 \* number of stages executed (0 = initial state = replay case)
          lg, reqs, st,         \* request side
          a, role, fault, ad    \* administrative side

rvars == <<step, lg, reqs, st>>
avars == <<step, a, role, fault, ad>>

Case(f, k, j, w, addr) == [frame |-> f, kind |-> k, inj |-> j, where |-> w, addr |-> addr]
Valid(c) == /\ (c.kind # "missing" => Creatable(c))
            /\ (c.where = "query" => (c.frame \in QueryFrames /\ c.inj # "none"))
Singles == {<<c>> : c \in {x \in {Case(f, k, j, w, K_Addr1) : f \in K_Frames, k \in K_Kinds, j \in K_Injs, w \in {"path", "query"}} : Valid(x)}}
Small(fs, addr) == {x \in {Case(f, k, j, "path", addr) : f \in fs, k \in K_Kinds, j \in K_PairInjs} : Valid(x)}
Pairs == {<<c1, c2>> : c1 \in Small(K_PairFrames1, K_Addr1), c2 \in Small(K_PairFrames2, K_Addr2)}

InitReq == /\ step = 0
           /\ \/ lg \in K_LgConfigs /\ reqs \in Singles
              \/ lg \in K_PairLg /\ reqs \in Pairs
           /\ st = St0(lg)
           /\ a = 0 /\ role = "" /\ fault = "" /\ ad = 0

Adv == step' = step + 1 /\ st' = Stage(lg, reqs, st) /\ UNCHANGED <<lg, reqs, a, role, fault, ad>>
DoAccept      == st.pc = "accept" /\ Adv
DoGetHandler  == st.pc = "gethandler" /\ Adv
DoAccessLog   == st.pc = "accesslog" /\ Adv
DoServe       == st.pc = "serve" /\ Adv
DoProtoCatch  == st.pc = "protocatch" /\ Adv
DoReplyError  == st.pc = "replyerror" /\ Adv
DoServerCatch == st.pc = "servercatch" /\ Adv
DoEscaped     == st.pc = "escaped" /\ Adv
DoDone        == st.pc = "done" /\ Adv
NextReq == DoAccept \/ DoGetHandler \/ DoAccessLog \/ DoServe \/ DoProtoCatch \/ DoReplyError \/ DoServerCatch \/ DoEscaped \/ DoDone
SpecReq == InitReq /\ [][NextReq]_<<rvars, a, role, fault, ad>>

\* ---- invariants of the request side: every clause, judged when a request is finished ----
AtDone == st.pc = "done"
C == reqs[st.i]
CallsNow == CallsOf(st, st.i)
OpsNow == OpsOf(st, st.i)
RecsNow == Records(lg, OpsNow)
Holds(clause, ok) == AtDone => (ok \/ Excused(lg, C, clause))
I_NoneIsSilent == Holds("NoneIsSilent", NoneIsSilent(lg, OpsNow))
I_RightSink == Holds("RightSink", RightSink(lg, OpsNow))
I_RecordFlushed == Holds("RecordFlushed", RecordFlushed(lg, OpsNow))
I_SyslogPriority == Holds("SyslogPriority", SyslogPriority(lg, OpsNow))
I_SyslogTextEncodable == Holds("SyslogTextEncodable", SyslogTextEncodable(lg, OpsNow))
I_LoggingContained == Holds("LoggingContained", LoggingContained(st.esc))
I_OneRecordOneLine == Holds("OneRecordOneLine", OneRecordOneLine(lg, CallsNow, OpsNow))
I_SyslogOnePerCall == Holds("SyslogOnePerCall", SyslogOnePerCall(lg, CallsNow, OpsNow))
I_AccessRecordOnce == Holds("AccessRecordOnce", AccessRecordOnce(lg, C, RecsNow) \/ Excused(lg, C, "OneRecordOneLine"))
I_AccessRecordNamesRequest == Holds("AccessRecordNamesRequest", AccessRecordNamesRequest(lg, C, RecsNow) \/ Excused(lg, C, "OneRecordOneLine"))
I_FailureRecorded == Holds("FailureRecorded", FailureRecorded(lg, C, RecsNow))
I_NoSpuriousException == Holds("NoSpuriousException", NoSpuriousException(lg, C, RecsNow))
I_AccessBeforeException == Holds("AccessBeforeException", AccessBeforeException(lg, C, RecsNow) \/ Excused(lg, C, "OneRecordOneLine"))
\* openlog with the configured facility, once, first
I_SyslogOpened == SyslogOpened(lg, [k \in 1..Len(st.sink) |-> st.sink[k].o])
\* every connection handler terminates within the stage budget (Run's fuel is enough)
I_Terminates == step <= 12 * Len(reqs) + 2
\* a recorded defect must be visible in the model (otherwise the entry is stale)
SplitBites == ~(AtDone /\ lg.method = "file" /\ ~OneRecordOneLine(lg, CallsNow, OpsNow))     \* expected VIOLATED iff "split" recorded

\* ---- administrative side ----
AdmConfigs == {[method |-> l.method, pri |-> l.pri, fac |-> l.fac, detach |-> d, pidfile |-> p, mime |-> m, drop |-> pv.drop, chroot |-> pv.chroot] :
               l \in K_AdmLg, d \in BOOLEAN, p \in BOOLEAN, m \in BOOLEAN, pv \in K_AdmPriv}
InitAdm == /\ step = 0 /\ a \in AdmConfigs /\ role \in AdmRoles /\ fault \in AdmFaults /\ ad = Ad0
           /\ (role = "parent" => a.detach) /\ (fault = "pidopen" => a.pidfile)
           /\ lg = 0 /\ reqs = 0 /\ st = 0
AAdv == step' = step + 1 /\ ad' = AdmStage(a, role, fault, ad) /\ UNCHANGED <<a, role, fault, lg, reqs, st>>
DoInitLogger == ad.pc = "logger" /\ AAdv
DoInitMime == ad.pc = "mime" /\ AAdv
DoGetServer == ad.pc = "bind" /\ AAdv
DoDetach == ad.pc = "detach" /\ AAdv
DoInitPidfile == ad.pc = "pidfile" /\ AAdv
DoInitPgrp == ad.pc = "pgrp" /\ AAdv
DoInitSecurity == ad.pc = "drop" /\ AAdv
DoRunning == ad.pc = "running" /\ AAdv
NextAdm == DoInitLogger \/ DoInitMime \/ DoGetServer \/ DoDetach \/ DoInitPidfile \/ DoInitPgrp \/ DoInitSecurity \/ DoRunning
SpecAdm == InitAdm /\ [][NextAdm]_<<avars, lg, reqs, st>>

AFinal == ad.pc \in AdmFinal
Ob == ObOf(ad)
A_NoneIsSilent == NoneIsSilent(a, ad.sink)
A_RightSink == RightSink(a, ad.sink)
A_SyslogOpened == ad.pc # "logger" => SyslogOpened(a, ad.sink)
A_RecordFlushed == RecordFlushed(a, ad.sink)
A_SyslogPriority == SyslogPriority(a, ad.sink)
A_OneRecordOneLine == OneRecordOneLine(a, ad.calls, ad.sink)
A_SyslogOnePerCall == SyslogOnePerCall(a, ad.calls, ad.sink)
A_MimeFailureAborts == AFinal => MimeFailureAborts(a, Ob)
A_DetachForksOnce == AFinal => DetachForksOnce(a, Ob)
A_ParentExitsZero == AFinal => ParentExitsZero(a, role, Ob)
A_DaemonServes == AFinal => DaemonServes(a, role, fault, Ob)
A_FaultAborts == AFinal => FaultAborts(a, role, fault, Ob)
A_PidfileHoldsServingPid == AFinal => PidfileHoldsServingPid(a, Ob)
A_PidfileBeforeDrop == PidfileBeforeDrop(a, Ob)
A_Verdict == AFinal => AdmVerdict(a, role, fault, Ob) = "ok"
A_RunAgrees == AFinal => ad = AdmRun(a, role, fault)      \* the functional run used by the trace spec = the stepwise one
R_RunAgrees == (st.pc = "end") => st = Run(lg, reqs)
=============================================================================
