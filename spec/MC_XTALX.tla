------------------------------- MODULE MC_XTALX -------------------------------
(* Bounded design model of the XML-template path (growth check XTALX), after MC_C17: Init picks   *)
(* a case of the XML grammar below, Load compiles it with TALXml!XCompile, every further step is    *)
(* ONE OPCODE of TALVM.  Invariants: WellFormed, Terminates, Completes, Refines (TALVM's output,     *)
(* singletons included, = the document TALSem prescribes up to <a/> = <a></a>).  The POSTCONDITION  *)
(* writes exactly the explored cases; the harness renders each as XML text under its prefix           *)
(* binding `ns`, compiles it with the real compileXMLTemplate and expands it with the real            *)
(* XMLTemplate.expand under (enc, sup, dt) (binding B2).                                              *)
(* case = [fam, tree, ctx, py, ns, enc, sup, dt]                                                      *)
(*   ns  0 = tal:/metal: without declaration, 1 = declared on the root, 2 = prefixes t:/m: declared    *)
(*       on the root, 3 = prefixes t:/m: declared on the parent of the element that uses them and      *)
(*       (re-binding) tal:/metal: declared on the root as well, 4 = t:/m: declared on the root and used  *)
(*       everywhere, while the wrapper element also declares u:/v: for the same namespaces              *)
(* family tt: one element whose (tag, attributes) are handed to simpleTALUtils.tagAsText                 *)
EXTENDS TALXml, Json, IOUtils, SequencesExt

CONSTANTS Thorough, MaxSteps

VARIABLES desc, case, phase, nsteps
mcvars == <<st, prog, sym, macros, desc, case, phase, nsteps>>

Sem == INSTANCE TALSem
P(p) == Path(p)

CtxX == << Ent("s", Str("txt")), Ent("lt", Str("a<b\"&")), Ent("uni", Str("~E~")), Ent("nul", None),
           Ent("lst", SeqV(<<Str("a"), Str("b<")>>)), Ent("el", SeqV(<<>>)), Ent("st", Str("<b>k</b>")) >>

TalSets == {<<>>}
   \cup {<<CContent(P(p), FALSE)>> : p \in {"s", "lt", "nul", "default", "uni"}}
   \cup {<<CReplace(P(p), FALSE)>> : p \in {"lt", "nul", "default"}}
   \cup {<<CContent(P("st"), TRUE)>>, <<CReplace(P("st"), TRUE)>>}
   \cup {<<CCondition(P(p))>> : p \in {"s", "nul"}}
   \cup {<<CRepeat("x", P("lst")), CContent(P("x"), FALSE)>>, <<CRepeat("x", P("lst"))>>, <<CRepeat("x", P("el"))>>,
         <<CRepeat("x", P("lst")), CAttributes(<<Item(FALSE, "n", P("repeat/x/number"))>>)>>}
   \cup {<<CAttributes(<<Item(FALSE, "id", P(p))>>)>> : p \in {"lt", "nul", "uni"}}
   \cup {<<COmit(NoE)>>, <<COmit(P("nul"))>>, <<COmit(P("s")), CContent(P("lt"), FALSE)>>}
   \cup {<<CDefine(<<Item(FALSE, "v", P("lt"))>>), CContent(P("v"), FALSE)>>,
         <<CCondition(P("s")), CAttributes(<<Item(FALSE, "k", P("s"))>>), CContent(Alt(<<P("zz"), P("lt")>>), FALSE)>>}
KidSets == {<<>>, <<TextN("k&")>>} \cup (IF Thorough THEN {<<El("i", <<>>, <<>>, <<>>)>>, <<TextN("k"), El("i", <<At("z", "1")>>, <<CContent(P("s"), FALSE)>>, <<>>)>>} ELSE {})
AttSets == {<<>>, <<At("id", "i\""), At("c", "d")>>}
Child(tal, kids, atts) == El("e", atts, tal, kids)
Doc1(ch) == <<El("r", <<At("a", "1")>>, <<>>, <<TextN("t<"), El("w", <<>>, <<>>, <<ch>>), RawN("<?pi d?>"), El("q", <<At("y", "z")>>, <<>>, <<>>)>>)>>

\* METAL in XML: a macro with a slot and a singleton inside, used with and without a filler
MacroEl(sg) == El("d", <<>>, <<CDefMacro("m")>>, <<TextN("M"), El("b", <<>>, <<CDefSlot("sl")>>, <<TextN("S")>>),
                                                 El("br", <<>>, <<CCondition(P("s"))>>, IF sg THEN <<>> ELSE <<TextN("z")>>)>>)
UseEl(fill) == El("p", <<At("id", "u")>>, <<CUseMacro(P("macros/m"))>>,
                  IF fill THEN <<TextN("X"), El("i", <<>>, <<CFillSlot("sl"), CContent(P("lt"), FALSE)>>, <<TextN("F")>>)>> ELSE <<TextN("X")>>)
DocM(fill, before, sg) == <<El("r", <<>>, <<>>, IF before THEN <<El("w", <<>>, <<>>, <<MacroEl(sg)>>), UseEl(fill)>> ELSE <<UseEl(fill), El("w", <<>>, <<>>, <<MacroEl(sg)>>)>>)>>

Pre0 == [enc |-> "utf-8", sup |-> FALSE, dt |-> ""]
Pres == {[enc |-> e, sup |-> s, dt |-> d] : e \in {"utf-8", "UTF-8", "iso-8859-1", "ASCII"}, s \in BOOLEAN,
                                            d \in {"", "<!DOCTYPE r SYSTEM \"r.dtd\">"}}
NsSet == 0..4
Mk(fam, tree, ns, pre) == [fam |-> fam, tree |-> tree, ctx |-> [id |-> "none", ents |-> CtxX], py |-> FALSE,
                           ns |-> ns, enc |-> pre.enc, sup |-> pre.sup, dt |-> pre.dt]
PreTrees == {Doc1(Child(<<CContent(P("uni"), FALSE)>>, <<>>, <<>>)), Doc1(Child(<<>>, <<>>, <<>>))}
Cases == {Mk("xml", Doc1(Child(t, k, a)), ns, Pre0) : t \in TalSets, k \in KidSets, a \in AttSets, ns \in NsSet}
    \cup {Mk("pre", tr, 1, pre) : tr \in PreTrees, pre \in Pres}
    \cup {Mk("tt", <<El("a", <<At("x", v), At("y", "1")>>, <<>>, <<>>)>>, 0, Pre0) : v \in {"a", "a<b", "x&amp;y", "a&b>", "q\"t", "p& q;"}}
    \cup {Mk("metal", DocM(f, b, g), ns, Pre0) : f \in BOOLEAN, b \in BOOLEAN, g \in BOOLEAN, ns \in NsSet}
NoCase == Mk("", <<>>, 0, Pre0)

G0(c) == Sem!GlobalsOf(c.ctx.ents, c.tree)

Init == /\ desc \in Cases /\ case = NoCase /\ phase = "init" /\ nsteps = 0
        /\ st = VMInit(EmptyF, FALSE, 0) /\ prog = <<>> /\ sym = [x \in {} |-> 0] /\ macros = <<>>
Load == /\ phase = "init" /\ phase' = "run"
        /\ LET c == XCompile(desc.tree)
           IN /\ case' = desc
              /\ prog' = c.cmds /\ sym' = c.sym /\ macros' = c.macros
              /\ st' = VMInit(G0(desc), FALSE, Len(c.cmds))
        /\ UNCHANGED <<desc, nsteps>>
Run == /\ phase = "run" /\ nsteps <= MaxSteps /\ VMNext /\ nsteps' = nsteps + 1 /\ UNCHANGED <<desc, case, phase>>
Next == Load \/ Run
Spec == Init /\ [][Next]_mcvars

Done == phase = "run" /\ Halted(st)
Ref == Sem!Expand(case.tree, G0(case), FALSE)

WellFormed == (phase = "run" /\ nsteps = 0) => WellFormedProg(prog, sym, macros)
Terminates == nsteps <= MaxSteps
Completes  == Done => st.err = ""
Refines    == (Done /\ st.err = "") => (Canon(st.out) = Canon(Sem!Doc(Ref.t)) /\ st.g = Ref.g)
\* the prefix binding and the preamble parameters do not reach the program: same tree => same model run (by construction);
\* the preamble is a function of (enc, sup, dt) only
PreambleShape == \A pre \in Pres : LET p == Preamble(pre.enc, pre.sup, pre.dt) IN
                    /\ (pre.sup => ~TX!Contains(p, "<?xml")) /\ (~pre.sup => TX!StartsWith(p, "<?xml version=\"1.0\""))
                    /\ (TX!Contains(p, "encoding=") <=> (~pre.sup /\ LowerEnc(pre.enc) # "utf-8"))
WriteCases == LET ds == SetToSeq(Cases) IN JsonSerialize(IOEnv.CASES_FILE, [cases |-> ds])
=============================================================================
