"""C16 - ZIP archives are transparent.

Design model: spec/Zip.tla via MC_C16 (populate_cache as a state machine, VFSZip look-ups with
their memo tables, the reference tree, real-file-only handler guards, the walk-up split).
B2: every final state of MC_C16 (= one member list in one order) becomes a REAL archive ZQ.zip,
a REAL twin directory ZQ/ (links the reference cannot resolve among members left out) and a
faithfully extracted tree FQ/ (all links as stored); every selector of the model is requested as
/ZQ.zip/<s> and /ZQ/<s> through the full handler list, and /ZQ/<s> through the list without the
real-file-only handlers, per protocol, once building the index and once from the saved index.
B3: alpha (prefix/timestamp removal, lexers, digests, audit events) -> TraceC16, which judges.
No judgement happens in this file."""
from __future__ import annotations

import hashlib
import json
import os
import re
import shutil
import stat
import sys
import urllib.parse
import zipfile

from harness import core, tlc
from harness.tlaparse import iter_dump_states

KNOWN_IDS = {"C16-stale-negative-memo": "negmemo", "C16-mbox-member-as-folder": "mboxguard",
             "C16-lexical-dotdot": "lexdotdot", "C16-cp437-link-dirname": "cp437link"}

MC_CFG = """SPECIFICATION Spec
CONSTANTS
  StaleNegativeMemo = %(negmemo)s
  GuardIsInstance = %(guard)s
  RawNames = {%(raw)s}
  LinkDirnameUntranscoded = %(untrans)s
  MetaLen = %(meta_len)d
  FullLen = %(full_len)d
  CoreLen = %(core_len)d
  UnivFull <- %(univ_full)s
  UnivCore <- %(univ_core)s
  Known = {%(known)s}
INVARIANT SameFresh
INVARIANT SameCached
INVARIANT Inside
INVARIANT RealOnlyInv
INVARIANT StepwiseEqualsFunction
INVARIANT PassBound
CHECK_DEADLOCK FALSE
"""
TR_CFG = """SPECIFICATION TSpec
CONSTANTS
  StaleNegativeMemo = %(negmemo)s
  GuardIsInstance = %(guard)s
  RawNames = {}
  LinkDirnameUntranscoded = FALSE
CONSTRAINT Record
POSTCONDITION Post
CHECK_DEADLOCK FALSE
"""
ALL_PROTOS = ["G", "GI", "GP", "GD", "H", "W", "GEM", "SP"]
TIERS = {
    "quick": dict(meta_len=2, full_len=2, core_len=3, univ_full="UFullQ", univ_core="UCoreQ", fixed=["G", "GI"],
                  rotate=["GP", "GD", "H", "W", "GEM", "SP"], stride=1, extra_mc=None,
                  raw_mc=dict(full_len=2, core_len=1, univ_full="UFullQ", univ_core="UCoreQ", raw='"a", "d"'),
                  names=["ascii", "utf8", "cp437"], name_stride=0),
    "thorough": dict(meta_len=3, full_len=3, core_len=4, univ_full="UFullQ", univ_core="UCoreT", fixed=["G", "GI"],
                     rotate=["GP", "GD", "H", "W", "GEM", "SP"], stride=4,
                     extra_mc=dict(full_len=1, core_len=5, univ_full="UFullQ", univ_core="UCoreT5"),
                     raw_mc=dict(full_len=1, core_len=3, univ_full="UFullQ", univ_core="UCoreT", raw='"a", "d"'),
                     names=["ascii", "utf8", "cp437"], name_stride=7),
}
PLAIN_HANDLERS = """[url.HTMLURLHandler, gophermap.BuckGophermapHandler,
            UMN.UMNDirHandler, tal.TALFileHandler, html.HTMLFileTitleHandler,
            ZIP.ZIPHandler, file.CompressedFileHandler, file.FileHandler, url.URLTypeRewriter]"""
CANARY = b"CANARY-OUTSIDE-THE-ARCHIVE"
MBOX = (b"From nobody@example.com Mon Jan  1 00:00:00 2001\nSubject: hello from the mailbox\n\nbody text\n\n"
        b"From nobody@example.com Mon Jan  1 00:00:01 2001\nSubject: second\n\nmore\n\n")
PYG_SRC = b"""from pygopherd.handlers.pyg import PYGBase
from pygopherd.gopherentry import GopherEntry


class PYGMain(PYGBase):
    def canhandlerequest(self):
        return True

    def getentry(self):
        e = GopherEntry(self.selector, self.config)
        e.name = "pyg entry"
        e.type = "0"
        e.mimetype = "text/plain"
        return e

    def isdir(self):
        return False

    def write(self, wfile):
        wfile.write(b"OUTPUT-OF-PYG %s\\n")
"""


# text metadata members as LINES; gamma joins them by the line-end class of the member (Zip!LineEndClasses)
TEXT_LINES = {
    "abstract": [b"Abstract text for a caf\xe9 (not UTF-8)", b"second line ", b"third line"],
    "links": [b"Name=Linked a", b"Path=./a", b"Type=0", b"Abstract=from the link file", b"", b"Name=Far away", b"Path=/far",
              b"Host=example.org", b"Port=70", b"Type=1"],
    "cap": [b"Name=Cap name for a", b"Numb=3", b"Abstract=said the cap file"],
    "gophermap": [b"iInfo line", b"0A file\ta", b"1A directory\td", b"0Gone\tnope", b"1Elsewhere\t/else\texample.org\t70"],
}
INNER_SEPS = [b"\x0c", b"\x0b", b"\xc2\x85", b"\xe2\x80\xa8"]


def text_content(tag, md):
    lines = TEXT_LINES[tag]
    if md == "le_seps":          # a separator-like character inside every line that has a blank to put it at
        lines = [ln.replace(b" ", b" " + INNER_SEPS[i % len(INNER_SEPS)], 1) for i, ln in enumerate(lines)]
    ends = {"le_crlf": [b"\r\n"], "le_cr": [b"\r"], "le_mixed": [b"\n", b"\r\n", b"\r"]}.get(md, [b"\n"])
    out = b"".join(ln + ends[i % len(ends)] for i, ln in enumerate(lines))
    return out[:-1] if md == "le_nofinal" else out


def content_of(member, decoy=False):
    tag = member["tag"]
    if member.get("md") == "empty":
        return b""
    if tag in TEXT_LINES:
        return text_content(tag, member.get("md", "std"))
    mark = CANARY if decoy else b"member"
    if tag == "exec":
        return b"#!/bin/sh\necho OUTPUT-OF-SCRIPT %s\n" % mark
    if tag == "mbox":
        return MBOX.replace(b"hello", mark) if decoy else MBOX
    if tag == "pyg":
        return PYG_SRC % mark
    if tag == "abstract":
        return b"Abstract text for a caf\xe9 (not UTF-8)\nsecond line \n"
    if tag == "gophermap":
        return b"iInfo line\n0A file\ta\n1A directory\td\n0Gone\tnope\n1Elsewhere\t/else\texample.org\t70\n"
    if tag == "links":
        return b"Name=Linked a\nPath=./a\nType=0\nAbstract=from the link file\n\nName=Far away\nPath=/far\nHost=example.org\nPort=70\nType=1\n"
    return ("content of %s\n" % "/".join(member["p"])).encode() * 40          # compressible: stored size != size


# ---- gamma: names ----------------------------------------------------------------------------
NAME_MAPS = {
    "ascii": {},
    "utf8": {"a": "ä", "d": "dé"},                    # stored with the UTF-8 flag
    "cp437": {"a": "\udce4", "d": "d\udce9"},                   # raw bytes E4 / E9, no flag (not UTF-8)
}


def real_comp(c, names):
    return NAME_MAPS[names].get(c, c)


def real_path(p, names):
    return "/".join(real_comp(c, names) for c in p)


class _RawInfo(zipfile.ZipInfo):
    """A member whose name bytes are written as given, without the UTF-8 flag (what zip(1) does)."""
    __slots__ = ("rawname",)

    def _encodeFilenameFlags(self):
        return self.rawname, self.flag_bits & ~0x800


# gamma for the header-field classes of spec/Zip.tla (MetaClasses): stored DOS date/time per class
META_DATE = {"dt0": (1980, 0, 0, 0, 0, 0), "dtoor": (2001, 15, 31, 31, 63, 62), "dt2107": (2107, 12, 31, 23, 59, 58)}


def _zipinfo(name, names, md="std"):
    raw = name.encode("utf-8", "surrogateescape")
    dt = META_DATE.get(md, (2020, 1, 1, 0, 0, 0))
    if names == "cp437" and any(b >= 0x80 for b in raw):
        zi = _RawInfo(raw.decode("cp437"), date_time=dt)
        zi.rawname = raw
    else:
        zi = zipfile.ZipInfo(name, date_time=dt)
    zi.create_system = 0 if md == "dos" else 3
    return zi


def dest_text(member, names, translate_abs):
    d = member["dest"]
    comps = [real_comp(c, names) for c in d["c"]]
    if d["abs"]:
        if translate_abs:           # AbsIsArchiveRoot: on disk the archive root is the twin directory
            return "/".join([".."] * (len(member["p"]) - 1) + comps) or "."
        return "/" + "/".join(comps)
    return "/".join(comps)


class Site:
    """One worker's real world: <scratch>/r is the document root (two configurations share it),
    <scratch>/x and <scratch>/r/a... are canaries outside the archive, <scratch>/cwd holds decoys."""

    def __init__(self):
        from harness import world
        self.world = world
        import tempfile
        self.scratch = tempfile.mkdtemp(prefix="w-", dir=_BASE) if _BASE else tlc.new_scratch("c16")
        root = os.path.join(self.scratch, "r")
        os.makedirs(root)
        ov = {("handlers.dir.DirHandler", "cachetime"): "0"}
        self.full = world.World(root=root, handlers="full", overrides=ov)
        ov2 = dict(ov)
        ov2[("handlers.ZIP.ZIPHandler", "enabled")] = "true"
        self.plain = world.World(root=root, handlers=PLAIN_HANDLERS, overrides=ov2)
        self.current = None
        self.root = root
        with open(os.path.join(self.scratch, "x"), "wb") as fp:
            fp.write(CANARY + b" x\n")
        cwd = os.path.join(self.scratch, "cwd")
        os.makedirs(cwd)
        for tag, nm in (("exec", "exec.sh"), ("mbox", "m.mbox"), ("pyg", "x.pyg")):
            p = os.path.join(cwd, nm)
            with open(p, "wb") as fp:
                fp.write(content_of({"tag": tag, "p": [nm]}, decoy=True))
            os.chmod(p, 0o755)
        with open(os.path.join(cwd, "a"), "wb") as fp:
            fp.write(CANARY + b" cwd a\n")
        os.chdir(cwd)
        self.cwd = cwd
        self.audit = {"on": False, "spawn": 0, "imp": 0, "relopen": 0, "relother": 0, "seen": [], "realonly_paths": set()}
        sys.addaudithook(self._hook)
        self.hook_calls = 0

    def _hook(self, event, args):
        a = self.audit
        if not a["on"]:
            return
        self.hook_calls += 1
        if event in ("subprocess.Popen", "os.posix_spawn", "os.fork", "os.forkpty", "os.exec", "os.system", "os.spawn"):
            a["spawn"] += 1
            a["seen"].append(event)
        elif event == "exec":
            fn = getattr(args[0], "co_filename", "")
            if isinstance(fn, str) and (fn.startswith(self.scratch) or not fn.startswith(("/", "<"))):
                a["imp"] += 1
                a["seen"].append("exec " + fn)
        elif event == "import":
            fn = args[1] if len(args) > 1 else None
            if isinstance(fn, str) and fn.startswith(self.scratch):
                a["imp"] += 1
                a["seen"].append("import " + fn)
        elif event == "open":
            p = args[0]
            if isinstance(p, bytes):
                p = os.fsdecode(p)
            if isinstance(p, str) and p and not p.startswith("/"):
                # a real file looked for under the name of a mailbox/script/PYG member -> relopen; any other
                # relative path (ZIPHandler's is_zipfile() probe of a member called *.zip) -> relother (design level)
                a["relopen" if p in a["realonly_paths"] else "relother"] += 1
                a["seen"].append("open " + p)

    def use(self, w):
        if self.current is not w:
            self.world.reset_lazies()
            self.current = w

    # ---- gamma: one member list -> archive, twin, faithful extraction --------------------------
    def build(self, ms, prune, names, loc=""):
        self.full.clear()
        self.loc = loc
        os.makedirs(os.path.join(self.root, loc), exist_ok=True)
        for rel in ("a", "../x"):                                       # what ZQ/l -> ../a, ../../x reach on disk
            with open(os.path.normpath(os.path.join(self.root, loc, rel)), "wb") as fp:
                fp.write(CANARY + b" outside\n")
        prune = {tuple(p) for p in prune}
        zp = os.path.join(self.root, loc, "ZQ.zip")
        for d in ("ZQ", "FQ"):
            os.makedirs(os.path.join(self.root, loc, d))
        with zipfile.ZipFile(zp, "w", compression=zipfile.ZIP_DEFLATED) as zf:
            for m in ms:
                rel = real_path(m["p"], names)
                md = m.get("md", "std")
                zi = _zipinfo(rel + ("/" if m["k"] == "d" else ""), names, md)
                if m["k"] == "d":
                    zi.external_attr = 0x10 if md == "dos" else ((stat.S_IFDIR | 0o755) << 16) | 0x10
                    zf.writestr(zi, b"")
                elif m["k"] == "l":
                    zi.external_attr = (stat.S_IFLNK | 0o777) << 16
                    zf.writestr(zi, dest_text(m, names, False).encode("utf-8", "surrogateescape"))
                else:
                    mode = 0o755 if m["tag"] in ("exec", "pyg") else 0o644
                    zi.external_attr = 0 if md == "dos" else (stat.S_IFREG | (0 if md == "mode0" else mode)) << 16
                    zi.compress_type = zipfile.ZIP_STORED if md == "stored" else zipfile.ZIP_DEFLATED
                    zf.writestr(zi, content_of(m))
                for top in ("ZQ", "FQ"):
                    path = os.fsencode(os.path.join(self.root, loc, top, rel))
                    if m["k"] == "d":
                        os.makedirs(path, exist_ok=True)
                        continue
                    os.makedirs(os.path.dirname(path), exist_ok=True)
                    if m["k"] == "l":
                        if top == "ZQ" and tuple(m["p"]) in prune:
                            continue
                        os.symlink(os.fsencode(dest_text(m, names, True)), path)
                    else:
                        with open(path, "wb") as fp:
                            fp.write(content_of(m))
                        os.chmod(path, 0o755 if m["tag"] in ("exec", "pyg") else 0o644)

    def extract_event(self, ms, names):
        """alpha for the faithfully extracted tree: how the KERNEL resolves every link member."""
        base = os.path.realpath(os.path.join(self.root, self.loc, "FQ"))
        inv = {v: k for k, v in NAME_MAPS[names].items()}
        links = []
        for m in ms:
            if m["k"] != "l":
                continue
            p = os.path.join(base, real_path(m["p"], names))
            rp = os.path.realpath(os.fsencode(p)).decode("utf-8", "surrogateescape")
            inside = rp == base or rp.startswith(base + "/")
            if not (os.path.exists(os.fsencode(p)) and inside):
                links.append({"p": m["p"], "kind": "none", "target": []})
                continue
            rel = [] if rp == base else [inv.get(c, c) for c in rp[len(base) + 1:].split("/")]
            links.append({"p": m["p"], "kind": "d" if os.path.isdir(os.fsencode(rp)) else "f", "target": rel})
        return {"ev": "extract", "links": links}

    def drop_index_cache(self):
        d = os.path.join(self.root, self.loc)
        for n in os.listdir(d):
            if n.startswith(".cache.pygopherd.zip"):
                os.unlink(os.path.join(d, n))

    def have_index_cache(self):
        return any(n.startswith(".cache.pygopherd.zip") for n in os.listdir(os.path.join(self.root, self.loc)))

    # ---- one request + alpha ---------------------------------------------------------------
    def ask(self, w, top, sel, proto, names, audit=False):
        self.use(w)
        s = ("/" + self.loc if self.loc else "") + "/" + top + ("/" + real_path(sel, names) if sel else "")
        data, tls = wire(proto, s)
        a = self.audit
        a.update(spawn=0, imp=0, relopen=0, relother=0, seen=[])
        a["on"] = audit
        try:
            r = w.request(data, tls=tls)
        finally:
            a["on"] = False
        return alpha(proto, r, names), {"raw": r.out[:200].decode("latin-1"), "log": r.log[-2:], "escaped": r.escaped,
                                        "audit": list(a["seen"])}

    def close(self):
        os.chdir("/")
        shutil.rmtree(self.scratch, ignore_errors=True)


def wire(proto, s):
    b = s.encode("utf-8", "surrogateescape")
    q = urllib.parse.quote(b).encode()
    if proto == "G":
        return b + b"\r\n", False
    if proto == "GI":
        return b + b"\t!\r\n", False
    if proto == "GP":
        return b + b"\t+\r\n", False
    if proto == "GD":
        return b + b"\t$\r\n", False
    if proto == "H":
        return b"GET " + q + b" HTTP/1.0\r\n\r\n", False
    if proto == "W":
        return b"GET /wap" + q + b" HTTP/1.0\r\n\r\n", False
    if proto == "GEM":
        return b"gemini://localhost" + q + b"\r\n", True
    if proto == "SP":
        return b"localhost " + q + b" 0\r\n", False
    raise ValueError(proto)


# ---- alpha -------------------------------------------------------------------------------------
_TS = [re.compile(rb"Last-Modified: [^\r\n]*\r\n"), re.compile(rb" Mod-Date: [^\r\n]*\r\n")]
_MENU = re.compile(r"^(.)([^\t]*)\t([^\t]*)\t([^\t]*)\t(\d+)(\t\+)?$")


def alpha(proto, r, names):
    """Response -> the abstract record TraceC16 compares: prefix and timestamps removed, status class,
    advertised type and length, menu items, digest.  No comparison happens here."""
    out = r.out
    canary = CANARY in out
    b = out
    for real, tok in ((v, k) for k, v in NAME_MAPS[names].items()):
        rb = real.encode("utf-8", "surrogateescape")
        b = b.replace(rb, tok.encode()).replace(urllib.parse.quote(rb).encode(), tok.encode())
        b = b.replace(rb.decode("utf-8", "backslashreplace").encode(), tok.encode())      # gemini descriptions
    b = b.replace(b"/y.zip/ZQ", b"/ZQ").replace(b"ZQ.zip", b"ZQ")
    for rx in _TS:
        b = rx.sub(b"", b)
    rec = {"st": "ok", "kind": "", "mime": "", "len": -1, "blen": 0, "h": "", "items": [], "msg": "", "canary": canary}
    text = b.decode("utf-8", "surrogateescape")
    body = b
    crashed = r.escaped is not None or any("EXCEPTION" in ln and "FileNotFound" not in ln for ln in r.log)
    if not out and crashed:
        rec["st"] = "none"                 # no reply at all
    elif not out:
        rec["kind"] = "menu"               # an empty listing is an empty Gopher response
    elif proto in ("G",):
        if text.startswith("3") and text.endswith("\t\terror.host\t1\r\n") and text.count("\r\n") == 1:
            rec["st"], rec["msg"] = "notfound", text[1:text.index("\t")]
    elif proto in ("GI", "GP", "GD"):
        head, _, rest = text.partition("\r\n")
        if head.startswith("--"):
            rec["st"], rec["msg"] = "notfound", rest.split("\r\n", 1)[-1].strip()
        elif re.match(r"^\+-?\d+$", head):
            rec["len"] = int(head[1:])
            body = b.partition(b"\r\n")[2]
        else:
            rec["st"] = "other"
    elif proto in ("H", "W"):
        head, sep, rest = b.partition(b"\r\n\r\n")
        lines = head.decode("latin-1").split("\r\n")
        m = re.match(r"HTTP/1\.0 (\d+) ", lines[0])
        if not m or not sep:
            rec["st"] = "other"
        else:
            body = rest
            for ln in lines[1:]:
                if ln.lower().startswith("content-type:"):
                    rec["mime"] = ln.split(":", 1)[1].strip()
            if m.group(1) == "404" or (proto == "W" and b'title="404 Error"' in rest):
                rec["st"] = "notfound"
                mm = re.search(rb"<TT>(.*?)</TT>|<p>\n(.*?)\n</p>", rest, re.S)
                rec["msg"] = (mm.group(1) or mm.group(2) or b"").decode("latin-1") if mm else ""
            elif m.group(1) != "200":
                rec["st"] = "other"
    elif proto in ("GEM", "SP"):
        head, sep, rest = b.partition(b"\r\n")
        m = re.match(rb"(\d+) (.*)$", head)
        ok, nf = (b"20", b"51") if proto == "GEM" else (b"2", b"4")
        if not m or not sep:
            rec["st"] = "other"
        elif m.group(1) == ok:
            rec["mime"] = m.group(2).decode("latin-1")
            body = rest
        elif m.group(1) == nf or (proto == "SP" and m.group(1) == b"5"):
            # Spartan answers 4 (FileNotFound) or 5 (IOError while opening): both are the error answer; the
            # digit is kept in the message text (compared at design level only)
            rec["st"], rec["msg"] = "notfound", (m.group(1) + b" " + m.group(2)).decode("latin-1") if proto == "SP" else m.group(2).decode("latin-1")
        else:
            rec["st"] = "other"
    if rec["st"] == "ok" and out:
        bt = body.decode("utf-8", "surrogateescape")
        if proto in ("G", "GP", "GD", "GI"):
            lines = bt.split("\r\n")
            items = []
            if proto in ("G", "GP") and bt.endswith("\r\n") and all(_MENU.match(x) for x in lines[:-1]) and lines[:-1]:
                for x in lines[:-1]:
                    mm = _MENU.match(x)
                    items.append([mm.group(1), mm.group(2), mm.group(3), mm.group(4), "+" if mm.group(6) else ""])
                rec["kind"] = "menu"
            elif proto in ("GD", "GI"):
                for x in lines:
                    if x.startswith("+INFO: "):
                        mm = _MENU.match(x[7:])
                        if mm:
                            items.append([mm.group(1), mm.group(2), mm.group(3), mm.group(4), "+" if mm.group(6) else ""])
                    elif x.startswith(" ") and ":" in x and "/" in x.split(":")[0] and not rec["mime"]:
                        rec["mime"] = x.split(":")[0].strip()
                rec["kind"] = "info"
            else:
                rec["kind"] = "doc"
            rec["items"] = items
        else:
            mime = rec["mime"]
            rec["kind"] = "menu" if (mime in ("text/gemini",) or (proto == "H" and b"<H1>Gopher" in body)
                                     or (proto == "W" and b'<card id="index" title=' in body and b"Text File" not in body)) else "doc"
        rec["blen"] = len(body)
        rec["h"] = hashlib.sha1(b).hexdigest()[:16]
    return rec


# ---- worker ------------------------------------------------------------------------------------
_SITE = None
_BASE = None          # scratch directory of this run (created and removed by the parent process)


def _init_worker():
    global _SITE
    _SITE = Site()
    import atexit
    atexit.register(_SITE.close)


def _run_case(job):
    """job = (case_id, ms, selrecs, prune, protos, names).  Returns list of traces (dicts)."""
    cid, ms, selrecs, prune, protos, names, loc = job
    site = _SITE
    hook0 = site.hook_calls
    site.build(ms, prune, names, loc)
    site.audit["realonly_paths"] = {real_path(m["p"], names) for m in ms if m["tag"] in ("mbox", "exec", "pyg")}
    traces = [{"id": "%s#extract" % cid, "init": {"members": ms}, "events": [site.extract_event(ms, names)],
               "case": {"members": [mname(m) for m in ms], "ms": ms, "names": names, "loc": loc, "sel": "#extract", "prune": prune},
               "extras": []}]
    # archive requests first (they need the full world), grouped to limit configuration switches
    zres = {}
    for sr in selrecs:
        for p in protos:
            for mode in ("fresh", "cached"):
                if mode == "fresh":
                    site.drop_index_cache()
                elif not site.have_index_cache():
                    site.ask(site.full, "ZQ.zip", [], "G", names)       # any request saves the index
                zres[(tuple(sr["s"]), p, mode)] = site.ask(site.full, "ZQ.zip", sr["s"], p, names, audit=True) + (
                    dict(site.audit),)
    tf = {(tuple(sr["s"]), p): site.ask(site.full, "ZQ", sr["s"], p, names) for sr in selrecs for p in protos}
    tp = {(tuple(sr["s"]), p): site.ask(site.plain, "ZQ", sr["s"], p, names) for sr in selrecs for p in protos}
    for sr in selrecs:
        s = tuple(sr["s"])
        events, extras = [], []
        for p in protos:
            for mode in ("fresh", "cached"):
                z, zx, aud = zres[(s, p, mode)]
                events.append({"ev": "req", "sel": list(s), "args": sr["args"], "p": p, "mode": mode,
                               "pk": sr["zf"] if mode == "fresh" else sr["zc"],
                               "z": z, "tf": tf[(s, p)][0], "tp": tp[(s, p)][0],
                               "spawn": aud["spawn"], "imp": aud["imp"], "relopen": aud["relopen"],
                               "relother": aud["relother"]})
                extras.append({"zip": zx, "twin_full": tf[(s, p)][1], "twin_plain": tp[(s, p)][1]})
        traces.append({"id": "%s#%s" % (cid, "/".join(s)), "init": {"members": ms}, "events": events,
                       "case": {"members": [mname(m) for m in ms], "ms": ms, "names": names, "loc": loc, "sel": "/" + "/".join(s),
                                "selrec": sr, "prune": prune, "fw": sr["fw"], "dd": sr["dd"], "ro": sr["ro"],
                                "mbox": sr["mb"], "le_seps": any(m.get("md") == "le_seps" for m in ms),
                                "cp437_dirlink": names == "cp437" and any(
                                    m["k"] == "l" and not m["dest"]["abs"] and any(c in NAME_MAPS["cp437"] for c in m["p"][:-1])
                                    for m in ms)},
                       "extras": extras})
    return traces, site.hook_calls - hook0


def mname(m):
    n = "/".join(m["p"]) + ("" if m.get("md", "std") == "std" else "{%s}" % m["md"])
    if m["k"] == "d":
        return n + "/"
    if m["k"] == "l":
        return n + "->" + ("/" if m["dest"]["abs"] else "") + "/".join(m["dest"]["c"])
    return n


def _plain(v):
    """tlaparse value -> JSON-able (frozensets sorted)."""
    if isinstance(v, (frozenset, set)):
        return sorted((_plain(x) for x in v), key=lambda x: json.dumps(x, sort_keys=True))
    if isinstance(v, (list, tuple)):
        return [_plain(x) for x in v]
    if isinstance(v, dict):
        return {k: _plain(x) for k, x in v.items()}
    return v


def model_constants(chk):
    known = sorted(KNOWN_IDS[f.get("id")] for f in chk.known if f.get("id") in KNOWN_IDS)
    return dict(negmemo="TRUE" if "negmemo" in known else "FALSE", guard="TRUE" if "mboxguard" in known else "FALSE",
                untrans="TRUE" if "cp437link" in known else "FALSE",
                known=", ".join('"%s"' % k for k in known)), known


def cases_from_model(t, consts, timeout):
    cfg = MC_CFG % dict(consts, meta_len=t.get("meta_len", 0), full_len=t["full_len"], core_len=t["core_len"], univ_full=t["univ_full"], univ_core=t["univ_core"],
                        raw=t.get("raw", ""))
    res = tlc.check_model("MC_C16", "MC_C16_run.cfg", extra_files={"MC_C16_run.cfg": cfg}, dump=True, coverage=True,
                          timeout=timeout)
    cases = []
    try:
        for st in iter_dump_states(res["dump"], wanted={"phase", "ms", "out"}):
            if st["phase"] != "done":
                continue
            ms = _plain(st["ms"])
            out = _plain(st["out"])
            cases.append((ms, out["sels"], out["prune"], out["passes"]))
    finally:
        tlc.cleanup(res)
    cases.sort(key=lambda c: json.dumps(c[0], sort_keys=True))
    return res, cases


def main(chk, replay=None):
    from harness import cachelib
    t = TIERS[chk.tier]
    consts, known = model_constants(chk)
    # 1. design model, exhaustive within bounds; every final state is a replay case
    res, cases = cases_from_model(t, consts, 3000)
    if res["inv_violations"]:
        chk.model_violation("MC_C16", sorted(set(res["inv_violations"])), res["out"][-3000:])
    states, generated = res["distinct"], res["generated"]
    extra_cmd = ""
    if t["extra_mc"] and not replay:          # larger order-sensitive lists: model-checked, a sample replayed
        res2, cases2 = cases_from_model(t["extra_mc"], consts, 3000)
        if res2["inv_violations"]:
            chk.model_violation("MC_C16(extra)", sorted(set(res2["inv_violations"])), res2["out"][-3000:])
        states += res2["distinct"]
        generated += res2["generated"]
        extra_cmd = " ; " + res2["cmd"]
        have = {json.dumps(c[0], sort_keys=True) for c in cases}
        cases2 = [c for c in cases2 if json.dumps(c[0], sort_keys=True) not in have]
        cases += cases2[chk.seed % 11::11]
    if t["raw_mc"] and not replay:            # the same model with raw non-ASCII names for a and d (cp437 reading)
        res3, _c3 = cases_from_model(t["raw_mc"], consts, 3000)
        if res3["inv_violations"]:
            chk.model_violation("MC_C16(raw names)", sorted(set(res3["inv_violations"])), res3["out"][-3000:])
        states += res3["distinct"]
        generated += res3["generated"]
        extra_cmd += " ; " + res3["cmd"]
    jobs = []
    if replay:
        with open(replay) as fp:
            rp = json.load(fp)
        c = rp["case"]
        sr = [c["selrec"]] if "selrec" in c else []
        jobs.append(("replay", c["ms"], sr, c.get("prune", []), [c["proto"]] if "proto" in c else t["fixed"],
                     c.get("names", "ascii"), c.get("loc", "")))
    else:
        for n, (ms, sels, prune, _passes) in enumerate(cases):
            if len(ms) >= 3 and n % t["stride"] != chk.seed % t["stride"]:
                continue                     # model-checked; replayed only as a sample in this tier
            protos = t["fixed"] + ([t["rotate"][n % len(t["rotate"])]] if t["rotate"] else [])
            jobs.append(("c%05d" % n, ms, sels, prune, protos, "ascii", "y.zip" if n % 5 == 2 else ""))
            for k, nm in enumerate(t["names"][1:]):     # the same archive with non-ASCII member names
                if not any(c_ in NAME_MAPS[nm] for m_ in ms for c_ in m_["p"] + m_["dest"]["c"]):
                    continue                     # no component that this variant spells differently: identical to the ASCII archive
                if len(ms) <= 2 or (t["name_stride"] and n % t["name_stride"] == k):
                    jobs.append(("c%05d-%s" % (n, nm), ms, sels, prune, t["fixed"][:2], nm, ""))
    # 2./3. replay into the real server, record traces
    global _BASE
    _BASE = tlc.new_scratch("c16")
    try:
        results = cachelib.pool_map(_run_case, jobs, _init_worker)
    finally:
        shutil.rmtree(_BASE, ignore_errors=True)
        _BASE = None
    traces = [tr for trs, _h in results for tr in trs]
    hook_calls = sum(h for _trs, h in results)
    if hook_calls == 0:
        raise core.MachineryError("C16: the audit hook never fired during archive requests")
    # 4. TLC judges
    trcfg = TR_CFG % consts
    tv = tlc.validate_traces("TraceC16", "TraceC16_run.cfg",
                             [{"id": tr["id"], "init": tr["init"], "events": tr["events"]} for tr in traces],
                             extra_files={"TraceC16_run.cfg": trcfg}, timeout=3000)
    for rj in tv["rejected"]:
        tr = traces[rj["index"]]
        if rj["clause"] in ("RefIsKernel", "unmatched", "stuck"):
            raise core.MachineryError("C16: reference model / trace machinery disagrees with the kernel: %s %s"
                                      % (tr["id"], json.dumps(tr["events"][rj["at"] - 2])[:600]))
        e = tr["events"][rj["at"] - 2]
        case = dict(tr["case"], proto=e["p"], mode=e["mode"])
        key = "%s|%s|%s|%s|%s|%s%s" % (rj["clause"], ",".join(case["members"]), case["sel"], e["p"], e["mode"], case["names"],
                                       "|in " + case["loc"] if case.get("loc") else "")
        chk.violation(key, rj["clause"], case, {"event": e, "extras": tr["extras"][rj["at"] - 2]})
    chk.note_drift(tv["drift"])
    reqs = [e for tr in traces for e in tr["events"] if e["ev"] == "req"]
    nontrivial = len({(tr["id"]) for tr in traces for e in tr["events"]
                      if e["ev"] == "req" and (e["tf"]["st"] == "ok" or e["tp"]["st"] == "ok")})
    if not replay and nontrivial == 0:
        raise core.MachineryError("C16: no selector was answered by the twin: nothing was compared")
    sample = [tr for tr in traces if tr["events"][0]["ev"] == "req"][:2]
    cov = {
        "states": states, "transitions": generated, "exhaustive": True,
        "traces_validated_against_impl": tv["accepted"], "traces_rejected": len(tv["rejected"]),
        "evaluations": len(reqs), "distinct_nontrivial": nontrivial,
        "rule": "cases = every final state of MC_C16 (member lists in every order: length <= %d over the full universe, <= %d "
                "over the order-sensitive core%s%s); one trace per (archive, selector of the model) with one event per protocol x "
                "{index built by the request, saved index}; non-trivial = (archive, selector) pairs for which the twin on disk "
                "answered with a document or a listing" % (t["full_len"], t["core_len"],
                                                           "; plus a 1/11 sample of the separately model-checked longer lists" if t["extra_mc"] else "",
                                                           "; lists of 3 and more members replayed as a 1/%d sample" % t["stride"] if t["stride"] > 1 else ""),
        "samples": [{"members": tr["case"]["members"], "sel": tr["case"]["sel"], "events": tr["events"][:1]} for tr in sample],
        "checker_cmd": res["cmd"] + extra_cmd + " ; " + tv["cmd"],
        "archives": len(jobs), "requests_to_real_server": 3 * len(reqs), "audit_hook_calls": hook_calls,
        "model_constants": consts, "trace_states": tv["states"],
        "drift_kinds": {w: sum(1 for d_ in tv["drift"] if d_["what"] == w) for w in sorted({d_["what"] for d_ in tv["drift"]})},
        "model_coverage_zero": sorted(k for k, v in res.get("coverage", {}).items() if v[0] == 0)[:20],
        "bindings": ["B2 every final state of MC_C16 built as a real archive + twin", "B3 TraceC16",
                     "reference bound to the kernel (extract events, clause RefIsKernel)"],
    }
    return chk.finish(cov, [
        "the twin contains only links the reference resolves among members; absolute link targets are read relative to the "
        "archive root on both sides (AbsIsArchiveRoot); the faithfully extracted tree FQ/ is only used to check the "
        "reference against the kernel",
        "directory cache lifetime set to 0 (the twin's .cache.pygopherd.dir is C10's subject); the ZIP index cache is "
        "removed before every 'fresh' request and present for every 'cached' one",
        "real-file-only oracle = the twin served by the handler list without mbox/PYG/script handlers",
        "alpha: harness/c16.py alpha() (status class, type, length, menu items, digest after removing 'ZQ.zip'->'ZQ', "
        "Last-Modified and Mod-Date); audit hook counts spawns, imports/exec of files under the scratch tree, opens of relative paths",
    ])


def selftest():
    """Binding demonstration: a recorded trace is accepted; with one field corrupted / one observation
    swapped it is rejected and the clause is named."""
    _init_worker()
    ms = [{"p": ["a"], "k": "f", "dest": {"abs": False, "c": []}, "tag": "plain", "md": "std"},
          {"p": ["l"], "k": "l", "dest": {"abs": False, "c": ["a"]}, "tag": "link", "md": "std"}]
    sr = [{"s": ["l"], "args": False, "zf": "f", "zc": "f", "tk": "f", "ro": False, "mb": False, "fw": False, "dd": False}]
    trs, _ = _run_case(("self", ms, sr, [], ["G", "H"], "ascii", ""))
    good = [{"id": x["id"], "init": x["init"], "events": x["events"]} for x in trs]
    bad1 = json.loads(json.dumps(good[1]))
    bad1["id"] = "corrupt-digest"
    bad1["events"][0]["z"]["h"] = "0" * 16
    bad2 = json.loads(json.dumps(good[1]))
    bad2["id"] = "status-swapped"
    bad2["events"][1]["z"]["st"] = "notfound"
    bad3 = json.loads(json.dumps(good[0]))
    bad3["id"] = "kernel-disagrees"
    bad3["events"][0]["links"][0]["kind"] = "none"
    bad4 = json.loads(json.dumps(good[1]))
    bad4["id"] = "spawned"
    bad4["events"][0]["spawn"] = 1
    for tr_ in good:
        for e_ in tr_["events"]:
            e_.setdefault("relother", 0)
    tv = tlc.validate_traces("TraceC16", "TraceC16.cfg", good + [bad1, bad2, bad3, bad4])
    got = {r["trace"]["id"]: r["clause"] for r in tv["rejected"]}
    print("accepted", tv["accepted"], "rejected", got)
    assert tv["accepted"] == len(good), tv
    assert got == {"corrupt-digest": "SameBytes", "status-swapped": "SameStatus", "kernel-disagrees": "RefIsKernel",
                   "spawned": "RealOnly"}, got
    return 0
