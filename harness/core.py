"""Check context: verdicts, known findings, replays, evidence.  No property logic."""
from __future__ import annotations

import hashlib
import json
import os
import sys
import time

VERIF = os.path.dirname(os.path.dirname(os.path.abspath(__file__)))
REPO = os.path.abspath(os.environ.get("VERIF_REPO", "/repo"))
KNOWN_FILE = os.path.join(VERIF, "known_findings.json")
REPLAY_DIR = os.path.join(VERIF, "replays")
EVIDENCE_DIR = os.environ.get("VERIF_EVIDENCE_DIR") or os.path.join(VERIF, "evidence")   # mutant runs write elsewhere


class MachineryError(Exception):
    """Anything that prevents a verdict: exit 2, never a VIOLATION."""


def assert_repo_bound():
    """The code under test must come from VERIF_REPO (default /repo), nothing else."""
    import pygopherd
    got = os.path.dirname(os.path.dirname(os.path.abspath(pygopherd.__file__)))
    if os.path.realpath(got) != os.path.realpath(REPO):
        raise MachineryError("pygopherd imported from %s, expected %s" % (got, REPO))


def load_known():
    k = {"findings": [], "fixed": []}
    if os.path.exists(KNOWN_FILE):
        with open(KNOWN_FILE) as fp:
            k = json.load(fp)
    extra = os.environ.get("VERIF_KNOWN_EXTRA")      # development only: proposed entries not yet merged
    if extra and os.path.exists(extra):
        with open(extra) as fp:
            k["findings"] = list(k.get("findings", [])) + list(json.load(fp).get("findings", []))
    return k


def _matches(finding: dict, key: str, case: dict) -> bool:
    if "key" in finding and finding["key"] == key:
        return True
    m = finding.get("match")
    if m:
        return all(case.get(k) == v for k, v in m.items())
    return False


class Check:
    def __init__(self, pid: str, tier: str, seed: int):
        self.pid, self.tier, self.seed = pid, tier, seed
        self.t0 = time.time()
        self.known = [f for f in load_known().get("findings", []) if f.get("property") == pid]
        self.known_seen = {}      # finding id -> count
        self.violations = []      # (key, clause, replay path)
        self.notes = []
        self.drift = []
        self.lines = []

    # -- verdicts ---------------------------------------------------------------------------
    def violation(self, key: str, clause: str, case: dict, detail: dict | None = None):
        """Report one property-level rejection.  `key` identifies the specific failing
        input/history/call site; `case` is the abstract case (used by known-finding matchers)."""
        c = dict(case)
        c.setdefault("clause", clause)
        for f in self.known:
            if _matches(f, key, c):
                fid = f.get("id", f.get("key", "?"))
                self.known_seen[fid] = self.known_seen.get(fid, 0) + 1
                return False
        if len(self.violations) >= 100:       # enough replays on disk; keep counting
            self.violations.append((key, clause, self.violations[-1][2]))
            return True
        os.makedirs(REPLAY_DIR, exist_ok=True)
        h = hashlib.sha1(key.encode("utf-8", "surrogateescape")).hexdigest()[:12]
        path = os.path.join(REPLAY_DIR, "%s-%s.json" % (self.pid, h))
        with open(path, "w") as fp:
            json.dump({"property": self.pid, "key": key, "clause": clause, "case": case, "detail": detail or {}},
                      fp, indent=1, default=repr)
        self.violations.append((key, clause, path))
        return True

    def model_violation(self, module: str, names: list, out_tail: str):
        """The design model itself violates an invariant (e.g. constants imported from the tree)."""
        for nm in names:
            self.violation("model:%s:%s" % (module, nm), nm, {"model": module, "invariant": nm}, {"tlc": out_tail})

    def note_drift(self, items):
        self.drift.extend(items)

    # -- evidence ---------------------------------------------------------------------------
    def finish(self, coverage: dict, assumptions: list, level: str = "model_checking") -> int:
        os.makedirs(EVIDENCE_DIR, exist_ok=True)
        for f in self.known:
            fid = f.get("id", f.get("key", "?"))
            if self.known_seen.get(fid):
                print("KNOWN-FINDING: property=%s %s (re-observed %d times; id=%s)"
                      % (self.pid, f.get("what", ""), self.known_seen[fid], fid))
        seen = set()
        for key, clause, path in self.violations:
            if (clause, path) in seen:
                continue
            seen.add((clause, path))
            if len(seen) <= 25:
                print("VIOLATION property=%s replay=%s clause=%s key=%s" % (self.pid, path, clause, key[:200].encode("ascii", "backslashreplace").decode()))
        if len(seen) > 25:
            print("... %d further violations not printed (all replays written)" % (len(seen) - 25))
        if self.drift:
            print("DRIFT property=%s design-level differences=%d (exit code unaffected) e.g. %s"
                  % (self.pid, len(self.drift), json.dumps(self.drift[:3], default=repr)[:400]))
        cov = dict(coverage)
        cov.setdefault("model_drift", len(self.drift))
        cov.setdefault("known_findings_reobserved", dict(self.known_seen))
        ev = {"property_id": self.pid, "tier": self.tier, "seed": self.seed, "level": level,
              "coverage": cov, "assumptions": assumptions, "wall_s": round(time.time() - self.t0, 2),
              "violations": len(self.violations)}
        with open(os.path.join(EVIDENCE_DIR, "%s.json" % self.pid), "w") as fp:
            json.dump(ev, fp, indent=1, default=repr)
        rc = 1 if self.violations else 0
        print("%s %s tier=%s seed=%d wall=%.1fs states=%s traces=%s violations=%d known=%d drift=%d"
              % ("FAIL" if rc else "PASS", self.pid, self.tier, self.seed, time.time() - self.t0,
                 cov.get("states"), cov.get("traces_validated_against_impl"), len(self.violations),
                 sum(self.known_seen.values()), len(self.drift)))
        sys.stdout.flush()
        return rc
