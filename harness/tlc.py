"""Running TLC: bounded model checking of the design models and batched trace validation.

Trusted base: this file only launches TLC and parses its counters / the verdict file that the
trace specification itself writes.  No property logic lives here.
"""
from __future__ import annotations

import json
import os
import re
import shutil
import subprocess
import tempfile
import time

VERIF = os.path.dirname(os.path.dirname(os.path.abspath(__file__)))
SPEC_DIR = os.path.join(VERIF, "spec")
JAR = "/opt/veriftools/tla/tla2tools.jar"
DEPS = "/opt/veriftools/tla/CommunityModules-deps.jar"


class TLCError(Exception):
    """Machinery failure (exit 2 territory): TLC crashed, parse error, timeout."""


def scratch_root() -> str:
    if os.environ.get("VERIF_SCRATCH") and os.path.isdir(os.environ["VERIF_SCRATCH"]):
        return os.environ["VERIF_SCRATCH"]
    base = "/dev/shm" if os.path.isdir("/dev/shm") and os.access("/dev/shm", os.W_OK) else tempfile.gettempdir()
    return base


def new_scratch(prefix: str) -> str:
    return tempfile.mkdtemp(prefix="verif-%s-" % prefix, dir=scratch_root())


def _stage_specs(dst: str) -> None:
    """Copy every .tla/.cfg of /verif/spec (flattened) into the scratch directory."""
    for root, _dirs, files in os.walk(SPEC_DIR):
        for f in files:
            if f.endswith(".tla") or f.endswith(".cfg"):
                shutil.copy(os.path.join(root, f), os.path.join(dst, f))


_FINAL = re.compile(r"(\d+) states generated, (\d+) distinct states found, (\d+) states left on queue")
_DEPTH = re.compile(r"The depth of the complete state graph search is (\d+)")
_INVVIOL = re.compile(r"Error: Invariant (\S+) is violated")
_ACTVIOL = re.compile(r"Error: Action property (\S+) is violated")
_COV = re.compile(r"^<(\w+) line (\d+), col (\d+) to line (\d+), col (\d+) of module (\w+)>: (\d+):(\d+)", re.M)


def run_tlc(module: str, cfg: str, *, workers: int | str = "auto", extra_files: dict | None = None,
            env: dict | None = None, dump: bool = False, coverage: bool = False, timeout: int = 3600,
            simulate: str | None = None, depth: int | None = None, seed: int | None = None,
            deadlock: bool | None = None, keep: bool = False, java_opts: list | None = None,
            continue_: bool = False) -> dict:
    """Run TLC on spec/<module>.tla with spec/<cfg>.  extra_files: name -> text written next to
    the specs (generated constant modules, cfg files).  Returns a dict with counters, raw output,
    invariant violations, and (if dump) the path of the dump file inside result['scratch'] (the
    caller must call cleanup(result))."""
    sd = new_scratch(module)
    _stage_specs(sd)
    for name, text in (extra_files or {}).items():
        with open(os.path.join(sd, name), "w") as fp:
            fp.write(text)
    meta = os.path.join(sd, "meta")
    if workers == "auto" and os.environ.get("VERIF_TLC_WORKERS"):
        workers = os.environ["VERIF_TLC_WORKERS"]
    cmd = ["java", "-XX:+UseParallelGC", "-Xss" + os.environ.get("VERIF_TLC_XSS", "64m"), "-Xmx" + os.environ.get("VERIF_TLC_XMX", "10g")] + (java_opts or []) + [
        "-cp", JAR + ":" + DEPS, "tlc2.TLC", "-workers", str(workers), "-metadir", meta,
        "-noGenerateSpecTE", "-config", cfg]
    if dump:
        cmd += ["-dump", os.path.join(sd, "dump")]
    if coverage:
        cmd += ["-coverage", "1"]
    if simulate:
        cmd += ["-simulate", simulate]
    if depth is not None:
        cmd += ["-depth", str(depth)]
    if seed is not None:
        cmd += ["-seed", str(seed)]
    if deadlock is False:
        cmd += ["-deadlock"]
    if continue_:
        cmd += ["-continue"]
    cmd += [module]
    e = dict(os.environ)
    e.update(env or {})
    t0 = time.time()
    try:
        pr = subprocess.run(cmd, cwd=sd, env=e, stdout=subprocess.PIPE, stderr=subprocess.STDOUT,
                            timeout=timeout, text=True, errors="replace")
    except subprocess.TimeoutExpired as ex:
        subprocess.run(["pkill", "-f", "metadir " + meta], check=False)
        shutil.rmtree(sd, ignore_errors=True)
        raise TLCError("TLC timeout after %ss on %s" % (timeout, module)) from ex
    out = pr.stdout
    res = {"module": module, "cfg": cfg, "cmd": " ".join(cmd[cmd.index("tlc2.TLC"):]), "rc": pr.returncode,
           "out": out, "scratch": sd, "wall_s": round(time.time() - t0, 2),
           "dump": os.path.join(sd, "dump.dump") if dump else None}
    m = None
    for m in _FINAL.finditer(out):
        pass
    if m:
        res["generated"], res["distinct"], res["queue"] = int(m.group(1)), int(m.group(2)), int(m.group(3))
    d = _DEPTH.search(out)
    if d:
        res["depth"] = int(d.group(1))
    res["inv_violations"] = _INVVIOL.findall(out) + _ACTVIOL.findall(out)
    res["finished"] = "Model checking completed" in out or "Finished in" in out
    res["parse_error"] = ("Parsing or semantic analysis failed" in out) or ("Semantic errors" in out)
    res["tlc_error"] = None
    if res["parse_error"] or (pr.returncode not in (0, 12, 13) and not res["inv_violations"]):
        # 12 = safety violation, 13 = liveness violation
        res["tlc_error"] = out[-3000:]
    if coverage:
        cov = {}
        for mm in _COV.finditer(out):
            cov["%s@%s:%s" % (mm.group(1), mm.group(6), mm.group(2))] = (int(mm.group(7)), int(mm.group(8)))
        res["coverage"] = cov
    if not keep and not dump:
        cleanup(res)
    return res


def cleanup(res: dict) -> None:
    sd = res.get("scratch")
    if sd and os.path.isdir(sd):
        shutil.rmtree(sd, ignore_errors=True)


def check_model(module: str, cfg: str, **kw) -> dict:
    """Model-check and insist that TLC itself worked (raises TLCError otherwise)."""
    res = run_tlc(module, cfg, **kw)
    if res["tlc_error"] or "distinct" not in res:
        cleanup(res)
        raise TLCError("TLC failed on %s/%s:\n%s" % (module, cfg, (res["tlc_error"] or res["out"])[-3000:]))
    return res


def validate_traces(module: str, cfg: str, traces: list, *, timeout: int = 3600, extra_files: dict | None = None,
                    chunk: int = 4000) -> dict:
    """Batched trace validation (binding B3).  `traces` is a list of JSON-able records
    {id, init, events}.  The trace spec (spec/trace/<module>.tla, extending TraceBase) writes a
    verdict file: {"ok": n, "bad": [[tid, l, clause], ...]}.  Returns
    {accepted, rejected: [{trace, at, clause}], states, generated}."""
    accepted = 0
    rejected = []
    drift = []
    states = 0
    generated = 0
    wall = 0.0
    cmdline = ""
    for off in range(0, len(traces), chunk):
        part = traces[off:off + chunk]
        sd = new_scratch("tr")
        tf = os.path.join(sd, "traces.json")
        vf = os.path.join(sd, "verdict.json")
        with open(tf, "w") as fp:
            json.dump(part, fp)
        try:
            res = run_tlc(module, cfg, workers=1, env={"TRACE_FILE": tf, "VERDICT_FILE": vf}, timeout=timeout,
                          extra_files=extra_files, deadlock=False)
            cmdline = res["cmd"]
            wall += res["wall_s"]
            if res["tlc_error"] or not os.path.exists(vf):
                raise TLCError("trace validation machinery failed (%s):\n%s" % (module, res["out"][-3000:]))
            with open(vf) as fp:
                v = json.load(fp)
            states += res.get("distinct", 0)
            generated += res.get("generated", 0)
            accepted += int(v["ok"])
            seen = {}
            for tid, l, clause in v["bad"]:
                if tid in seen:          # several failing branches of one trace: keep the furthest
                    if l > seen[tid]["at"]:
                        seen[tid].update(at=l, clause=clause)
                    continue
                seen[tid] = {"trace": part[tid - 1], "index": off + tid - 1, "at": l, "clause": clause}
                rejected.append(seen[tid])
            for tid, l, what in v.get("drift", []):
                drift.append({"index": off + tid - 1, "at": l, "what": what, "id": part[tid - 1].get("id")})
            if int(v["ok"]) + len(seen) != len(part):
                raise TLCError("trace validation lost traces: %d ok + %d bad != %d\n%s"
                               % (v["ok"], len(seen), len(part), res["out"][-2000:]))
        finally:
            shutil.rmtree(sd, ignore_errors=True)
    return {"accepted": accepted, "rejected": rejected, "states": states, "generated": generated,
            "wall_s": round(wall, 2), "cmd": cmdline, "drift": drift}
