"""C10 - the directory cache is transparent and never older than its lifetime.

Design model: spec/Cache.tla via MC_C10 (exhaustive within bounds).  B2: behaviours produced by
TLC (every behaviour up to a length from the state dump with the history variable h, plus random
longer ones from -simulate) are replayed on a real directory through the real server under a
virtual clock.  B3: every replayed history is validated by TLC against spec/trace/TraceC10.tla."""
from __future__ import annotations

import glob
import json
import os
import random
import shutil

from harness import core, tlc
from harness.tlaparse import iter_dump_states, last_sim_state

MC_CFG = """SPECIFICATION MSpec
CONSTANTS
  Names = {"a", "b"}
  Workers = {1}
  Full = 2
  Lifetimes = {0, 4}
  MaxClock = %(maxclock)d
  MaxHist = %(maxhist)d
  MaxLen = %(maxlen)d
%(view)s
CONSTRAINT %(constraint)s
%(props)s
CHECK_DEADLOCK FALSE
"""
PROPS = """INVARIANT NeverStale
INVARIANT NoLeak
INVARIANT ZeroMeansLive
INVARIANT OnlyCompleteLoads
PROPERTY NoRefresh"""

TIERS = {
    "quick": dict(mc=dict(maxclock=6, maxhist=2), exh_len=3, sim_num=600, sim_depth=45, handlers=["default"]),
    "thorough": dict(mc=dict(maxclock=9, maxhist=3), exh_len=4, sim_num=12000, sim_depth=70,
                     handlers=["default", "dir"]),
}
DIR_HANDLERS = "[url.HTMLURLHandler, dir.DirHandler, file.FileHandler]"

_CW = None
_HANDLERS = "default"


def _init_worker():
    global _CW
    from harness.cachelib import CacheWorld
    _CW = CacheWorld(handlers=_HANDLERS if _HANDLERS == "default" else DIR_HANDLERS)


def _replay(job):
    init, actions = job
    cw = _CW
    cw.reset(init)
    events, extras = [], []
    for a in actions:
        if a["a"] == "request":
            ev, ex = cw.request(a["p"])
            events.append(ev)
            extras.append(ex)
        else:
            cw.apply(a)
            e = {"ev": a["a"]}
            e.update({k: v for k, v in a.items() if k != "a"})
            events.append(e)
            extras.append(None)
    return events, extras


def behaviours(tier, seed):
    """(init, actions) pairs from TLC: exhaustive up to a length, plus simulated longer ones."""
    t = TIERS[tier]
    out = {}
    cfg = MC_CFG % dict(maxclock=14, maxhist=6, maxlen=t["exh_len"], view="", constraint="GenBound", props="")
    res = tlc.check_model("MC_C10", "Gen_C10_run.cfg", extra_files={"Gen_C10_run.cfg": cfg}, dump=True, timeout=1500)
    try:
        for st in iter_dump_states(res["dump"], wanted={"h", "pc", "i0"}):
            if st["pc"] == ["idle"] and st["h"] and st["h"][-1]["a"] == "request":
                key = json.dumps([st["i0"], st["h"]], sort_keys=True)
                out[key] = (st["i0"], st["h"])
    finally:
        tlc.cleanup(res)
    n_exh = len(out)
    gen_states = res["distinct"]
    simdir = tlc.new_scratch("sim")
    try:
        cfg = MC_CFG % dict(maxclock=40, maxhist=8, maxlen=t["sim_depth"], view="", constraint="GenBound", props="")
        res2 = tlc.run_tlc("MC_C10", "Sim_C10_run.cfg", extra_files={"Sim_C10_run.cfg": cfg},
                           simulate="file=%s/tr,num=%d" % (simdir, t["sim_num"] // 8), depth=t["sim_depth"],
                           workers=8, seed=seed + 1, timeout=1500)
        if res2["tlc_error"]:
            raise tlc.TLCError("simulation failed:\n" + res2["out"][-2000:])
        for f in glob.glob(simdir + "/tr_*"):
            st = last_sim_state(f, wanted={"h", "i0"})
            if not st or not st.get("h"):
                continue
            h = st["h"]
            while h and h[-1]["a"] != "request":
                h = h[:-1]
            if h:
                out[json.dumps([st["i0"], h], sort_keys=True)] = (st["i0"], h)
    finally:
        shutil.rmtree(simdir, ignore_errors=True)
    jobs = [({"T": i0["T"], "dir": dict(i0["d"])}, [dict(a) for a in h]) for i0, h in out.values()]
    return jobs, n_exh, gen_states


def main(chk, replay=None):
    global _HANDLERS
    from harness import cachelib
    t = TIERS[chk.tier]
    # 1. design model, exhaustive within bounds
    cfg = MC_CFG % dict(maxlen=0, view="VIEW NoH", constraint="Bound", props=PROPS, **t["mc"])
    res = tlc.check_model("MC_C10", "MC_C10_run.cfg", extra_files={"MC_C10_run.cfg": cfg}, timeout=3000)
    if res["inv_violations"]:
        chk.model_violation("MC_C10", res["inv_violations"], res["out"][-3000:])
    # 2. behaviours from TLC
    if replay:
        with open(replay) as fp:
            rp = json.load(fp)
        jobs, n_exh, gen_states = [(rp["case"]["init"], rp["case"]["actions"])], 0, 0
    else:
        jobs, n_exh, gen_states = behaviours(chk.tier, chk.seed)
    random.Random(chk.seed).shuffle(jobs)
    # 3. replay into the real server, 4. validate with TLC
    traces = []
    for hl in t["handlers"]:
        _HANDLERS = hl
        results = cachelib.pool_map(_replay, jobs, _init_worker)
        for (init, actions), (events, extras) in zip(jobs, results):
            traces.append({"id": "%s:%d" % (hl, len(traces)), "init": init, "events": events,
                           "case": {"init": init, "actions": actions, "handlers": hl}, "extras": extras})
    reads = sum(ex["clock_reads"] for tr in traces for ex in tr["extras"] if ex)
    if reads == 0:
        raise core.MachineryError("C10: the virtual clock was never read: substitution not effective")
    tv = tlc.validate_traces("TraceC10", "TraceC10.cfg",
                             [{"id": tr["id"], "init": tr["init"], "events": tr["events"]} for tr in traces])
    for rj in tv["rejected"]:
        tr = traces[rj["index"]]
        upto = tr["case"]["actions"][:rj["at"] - 1]
        key = "%s|T=%d|%s|%s" % (rj["clause"], tr["init"]["T"], json.dumps(tr["init"]["dir"], sort_keys=True),
                                 json.dumps(upto, sort_keys=True))
        chk.violation(key, rj["clause"], dict(tr["case"], failing_prefix=upto),
                      {"events": tr["events"][:rj["at"]], "extras": tr["extras"][:rj["at"]]})
    chk.note_drift(tv["drift"])
    hits = sum(1 for tr in traces for e in tr["events"] if e["ev"] == "request" and not e["listed"])
    nontrivial = len({json.dumps(tr["events"], sort_keys=True) for tr in traces
                      if any(e["ev"] == "request" and not e["listed"] for e in tr["events"])})
    cov = {
        "states": res["distinct"], "transitions": res["generated"], "exhaustive": True,
        "traces_validated_against_impl": tv["accepted"], "traces_rejected": len(tv["rejected"]),
        "evaluations": len(traces), "distinct_nontrivial": nontrivial,
        "rule": "behaviours = every TLC behaviour of MC_C10 with at most %d environment/request actions ending in a "
                "request (from the state dump with history variable h: %d) plus %d-state random behaviours from "
                "tlc -simulate, each replayed per handler list %s; non-trivial = distinct recorded history in which at "
                "least one request was served from the cache" % (t["exh_len"], n_exh, t["sim_depth"], t["handlers"]),
        "samples": [{"init": tr["init"], "events": tr["events"]} for tr in traces[:2]],
        "checker_cmd": res["cmd"] + " ; " + tv["cmd"],
        "requests_served_from_cache": hits, "virtual_clock_reads": reads,
        "generation_states": gen_states, "trace_states": tv["states"],
        "model_bounds": t["mc"], "bindings": ["B2 TLC behaviours replayed", "B3 TraceC10"],
    }
    return chk.finish(cov, [
        "time.time and os.listdir substituted process-wide before pygopherd is imported; after a rewrite the cache "
        "file's mtime is set to the virtual clock",
        "alpha = listing lexers in harness/cachelib.py (Gopher menu, Gopher+ '+' form, HTTP table rows)",
        "content universe: files a, b (present with abstract v1/v2 or absent) plus a fixed sub-directory",
    ])
