"""C12 - one unservable entry never takes down its directory.

Design model: spec/Dir.tla via MC_C12 (the entry loop child by child; singles and pairs of faulty
children at every position; fault kinds: dangling link, FIFO, socket, child deleted before / after the
multiplexer's stat, stat / open failing with EACCES, names the selector filter rejects, dot-named
special files on UMN's link-processing path, a directory whose own name poisons every child).
B1: ignore pattern and handler list read from the tree (spec/MC_C07_data.tla regenerated).
B2: every initial state of MC_C12 (GenSpec dump) is built as a REAL tree (real dangling links, FIFOs,
sockets, odd names; stat/open faults through the substituted os.stat / open) and listed through the real
server in every protocol form.  B3: each recorded trace is judged by TLC against TraceC12 (Robust).
No property logic in this file."""
from __future__ import annotations

import json

from harness import core, tlc
from harness import c12_dirlib as dl
from harness.tlaparse import iter_dump_states

MC_CFG = """SPECIFICATION %(spec)s
CONSTANTS
  IgnorePatterns <- DataIgnorePatterns
  EaExts <- DataEaExts
  SkipUnservable = %(skip)s
  SortedLinks = TRUE
  DotRuleAll = TRUE
  Scopes <- %(scopes)s
  OrderModes = {%(orders)s}
  Protos = {%(protos)s}
  DotFaults = TRUE
%(props)s
CHECK_DEADLOCK FALSE
"""
PROPS = "INVARIANT ModelRobust\nINVARIANT StepsAreFolds\nINVARIANT WellFormed"
TIERS = {
    "quick": dict(scopes="ScopesQuick", orders=["sorted"], protos=dl.PROTOS),
    "thorough": dict(scopes="ScopesThorough", orders=["sorted", "reversed"], protos=dl.PROTOS),
}
ASSUMPTIONS = [
    "os.listdir / os.stat / os.lstat / open substituted process-wide before pygopherd is imported; a child is "
    "'deleted' by really unlinking it at its k-th inspection; EACCES is injected by the substitutes; opening a FIFO "
    "without a writer (blocks for ever) is made observable as HangForever by the substituted open()",
    "directory cache switched off (cachetime 0, cache file removed before every request)",
    "requests go through the real GopherRequestHandler in memory (harness/world.py); Gemini through the TLS mock",
    "the security filter of handlers/base.py is pinned in the model as the five forbidden substrings, but 'healthy' is finally "
    "judged on the implementation itself: a child the model calls healthy that the listing omits is fetched by exact selector "
    "through the same protocol form; served -> Robust.HealthyListed, refused -> unservable under the code's own rules (DRIFT only)",
]

_DW = None
_PATTERN = None


def _cfg(t, spec="Spec", skip="TRUE", props=PROPS, scopes=None, protos=None):
    return MC_CFG % dict(spec=spec, skip=skip, props=props, scopes=scopes or t["scopes"],
                         orders=", ".join('"%s"' % o for o in t["orders"]),
                         protos=", ".join('"%s"' % p for p in (protos or t["protos"])))


def _world(lst):
    global _DW
    if _DW is None or _DW.lst != lst:
        if _DW is not None:
            _DW.close()
        _DW = dl.DirWorld(lst, _PATTERN)
    return _DW


def _init_worker():
    global _DW
    _DW = None


def _order(case, mode):
    names = sorted(k["name"] for k in case["kids"])
    return names[::-1] if mode == "reversed" else names


def _job(job):
    case, mode, protos = job
    dw = _world(case["list"])
    out = []
    dw.build(case)
    for pr in protos:
        events, extra = dw.listing(pr, _order(case, mode))
        resp = events[-1]
        if resp["status"] == "ok":
            fev, fex = dw.probe_omitted(pr, resp["listing"])
            events += fev
            extra["fetches"] = fex
        events.append({"ev": "end"})
        out.append((pr, events, extra))
    return out


def cases_from_tlc(t, data_text, lists):
    """Every initial state of MC_C12 = one replay case (binding B2)."""
    res = tlc.check_model("MC_C12", "Gen_C12_run.cfg", dump=True, timeout=1500,
                          extra_files={"Gen_C12_run.cfg": _cfg(t, spec="GenSpec", props=""), "MC_C07_data.tla": data_text})
    cases = []
    try:
        for st in iter_dump_states(res["dump"], wanted={"d", "ord", "pc"}):
            if st["pc"] != "start":
                continue
            c = dl.thaw_dir(st["d"])
            c["list"] = next(k for k in ("default", "dir") if (lists[k]["handler"], lists[k]["mbox"], lists[k]["html"])
                             == (c["handler"], c["sniff"]["mbox"], c["sniff"]["html"]))
            cases.append((c, st["ord"]))
    finally:
        tlc.cleanup(res)
    cases.sort(key=lambda x: (x[0]["list"], x[0]["sb"], dl.kids_compact(x[0]), x[1]))
    return cases, res["distinct"]


def selftest(traces):
    """Binding demonstration: corrupt a recorded field / drop an event of accepted traces; TraceC12 must reject."""
    def ri(t):
        return next(i for i, e in enumerate(t["events"]) if e["ev"] == "response")
    good = [t for t in traces if t["events"][-1]["ev"] == "end" and t["events"][ri(t)]["status"] == "ok"
            and len(t["events"][ri(t)]["listing"]) >= 2 and not any(e["ev"] == "fetch" for e in t["events"])][:3]
    if not good:
        return {"ran": False}
    bad = []
    for t in good:
        i = ri(t)
        first = t["events"][i]["listing"][0]["sel"].rsplit("/", 1)[1]
        a = json.loads(json.dumps({"id": t["id"] + "#dropped-unprobed", "init": t["init"], "events": t["events"]}))
        a["events"][i]["listing"] = a["events"][i]["listing"][1:]                  # a healthy child disappears, nobody asked for it
        a2 = json.loads(json.dumps({"id": t["id"] + "#dropped-but-served", "init": t["init"], "events": a["events"][:-1]}))
        a2["events"] += [{"ev": "fetch", "name": first, "got": "served"}, {"ev": "end"}]   # ... and the server does serve it
        b = json.loads(json.dumps({"id": t["id"] + "#no-response", "init": t["init"], "events": t["events"][:i]}))
        b["events"] += [{"ev": "response", "status": "notfound", "listing": [], "culprit": "", "dirrefused": False}, {"ev": "end"}]
        c = json.loads(json.dumps({"id": t["id"] + "#dup-enum", "init": t["init"], "events": [t["events"][0]] + t["events"]}))
        bad += [a, a2, b, c]
    tv = dl.validate_parallel("TraceC12", "TraceC12.cfg", bad)
    clauses = sorted({r["clause"] for r in tv["rejected"]})
    if tv["accepted"] != 0:
        raise core.MachineryError("C12 selftest: TraceC12 accepted %d corrupted traces" % tv["accepted"])
    return {"ran": True, "corrupted": len(bad), "rejected": len(tv["rejected"]), "clauses": clauses}


def main(chk, replay=None):
    global _PATTERN
    t = TIERS[chk.tier]
    conf = dl.read_conf()
    _PATTERN = conf["shipped"]
    data_text, _pats, _lists = dl.data_module(conf)
    extra = {"MC_C07_data.tla": data_text}
    # 1. design model (repaired code), exhaustive within the bounds; and the pinned-code witness
    res = tlc.check_model("MC_C12", "MC_C12_run.cfg", coverage=True, timeout=3000,
                          extra_files=dict(extra, **{"MC_C12_run.cfg": _cfg(t)}))
    if res["inv_violations"]:
        chk.model_violation("MC_C12", res["inv_violations"], res["out"][-3000:])
    wit = tlc.run_tlc("MC_C12", "MC_C12_wit.cfg", timeout=1500, extra_files=dict(extra, **{
        "MC_C12_wit.cfg": _cfg(t, skip="FALSE", props="INVARIANT ModelRobust", scopes="ScopesQuick", protos=["G"])}))
    wit2 = tlc.run_tlc("MC_C12", "MC_C12_wit2.cfg", timeout=1500, extra_files=dict(extra, **{
        "MC_C12_wit2.cfg": _cfg(t, props="INVARIANT W_NeverOmits", scopes="ScopesQuick", protos=["G"])}))
    if "ModelRobust" not in wit["inv_violations"] or "W_NeverOmits" not in wit2["inv_violations"]:
        raise core.MachineryError("C12: vacuity witnesses not reached (pinned-code model must violate Robust, the "
                                  "repaired model must omit an entry somewhere):\n%s" % (wit["out"][-1500:] + wit2["out"][-1500:]))
    # 2. cases from TLC
    if replay:
        with open(replay) as fp:
            rp = json.load(fp)
        c = rp["case"]
        cases, gen_states = [(c["d"], c["ord"])], 0
        protos = [c["proto"]]
    else:
        cases, gen_states = cases_from_tlc(t, data_text, _lists)
        protos = t["protos"]
    # 3. the real server on real trees
    jobs = [(c, mode, protos) for c, mode in cases]
    dl.new_root_base()
    try:
        results = dl.pool_map(_job, jobs, _init_worker)
    finally:
        dl.drop_root_base()
    traces = []
    for (c, mode, _), outs in zip(jobs, results):
        comp = dl.kids_compact(c)
        for pr, events, ex in outs:
            d = {k: c[k] for k in ("sb", "handler", "ign", "sniff", "kids")}
            traces.append({"id": "%s|%s|%s|ord=%s|%s" % (c["sb"] or "/", c["list"], pr, mode, comp),
                           "init": {"d": d}, "events": events, "extra": ex,
                           "case": {"d": c, "ord": mode, "proto": pr, "list": c["list"], "sel": c["sb"] or "/"}})
    enums = sum(1 for tr in traces for e in tr["events"] if e["ev"] == "enum")
    demanded = sorted({k["fault"] for tr in traces for k in tr["case"]["d"]["kids"] if k["fault"] != "none"})
    fired = {}
    for tr in traces:
        for n, what, c_ in tr["extra"]["fired"]:
            fired[what] = fired.get(what, 0) + 1
    # 4. TLC judges every trace
    tv = dl.validate_parallel("TraceC12", "TraceC12.cfg",
                             [{"id": tr["id"], "init": tr["init"], "events": tr["events"]} for tr in traces], extra_files=extra)
    # the vacuity guards only gate a PASS: a run that a property clause rejects is a verdict, not a machinery failure
    if not replay and not tv["rejected"]:
        if enums == 0:
            raise core.MachineryError("C12: the substituted os.listdir was never exercised")
        missing = [w for w in demanded if not fired.get(w)]
        if missing:
            raise core.MachineryError("C12: demanded faults never fired: %s" % missing)
    for rj in tv["rejected"]:
        tr = traces[rj["index"]]
        ex = tr["extra"]
        label = ex["culprit_label"] or "-"
        key = "%s|%s|culprit=%s|cause=%s" % (rj["clause"], tr["id"], label, ex["cause"] or "-")
        chk.violation(key, rj["clause"], dict(tr["case"], culprit=label, cause=ex["cause"] or "-"),
                      {"events": tr["events"], "rejected_at_event": rj["at"], "raw": ex["raw"], "log": ex["log"],
                       "escaped": ex["escaped"], "touches": ex["touches"]})
    chk.note_drift(tv["drift"])
    classes = {}
    for rj in tv["rejected"]:
        ex = traces[rj["index"]]["extra"]
        kcl = "%s|%s|%s" % (rj["clause"], ex["culprit_label"] or "-", ex["cause"] or "-")
        classes[kcl] = classes.get(kcl, 0) + 1
    st = selftest(traces) if not replay else {"ran": False}
    fetches = {}
    for tr in traces:
        for e in tr["events"]:
            if e["ev"] == "fetch":
                fetches[e["got"]] = fetches.get(e["got"], 0) + 1
    faulty = [tr for tr in traces if any(dl.kid_label(tr["case"]["d"], k["name"]).split(":")[0] not in ("healthy", "dot-healthy")
                                         for k in tr["case"]["d"]["kids"])]
    nontrivial = len({json.dumps([tr["init"], tr["events"]], sort_keys=True) for tr in faulty if tr["extra"]["fired"] or
                      any(k["kind"] not in ("file", "dir") or not _plain(k["name"], tr["case"]["d"]["sb"]) for k in tr["case"]["d"]["kids"])})
    answered = sum(1 for tr in faulty for e in tr["events"] if e["ev"] == "response" and e["status"] == "ok")
    if not replay and (nontrivial == 0 or answered == 0):
        raise core.MachineryError("C12: no non-trivial case was exercised / no directory with an unservable child was answered at all "
                                  "(nontrivial=%d, answered=%d)" % (nontrivial, answered))
    cov = {
        "states": res["distinct"], "transitions": res["generated"], "exhaustive": True,
        "traces_validated_against_impl": tv["accepted"], "traces_rejected": len(tv["rejected"]),
        "evaluations": len(traces), "distinct_nontrivial": nontrivial,
        "rule": "cases = every initial state of MC_C12 (directories of 1..N children, no / one / two unservable children "
                "at every position x every fault kind x 5 rotations of healthy shapes x enumeration orders %s, scopes %s) "
                "x protocol forms %s; non-trivial = distinct recorded trace of a directory with at least one unservable "
                "child in which a fault fired or a special file / rejected name was present"
                % (t["orders"], t["scopes"], protos),
        "samples": [{"id": tr["id"], "events": tr["events"]} for tr in (faulty[:2] + faulty[-1:])],
        "checker_cmd": res["cmd"] + " ; " + tv["cmd"],
        "cases_from_tlc": len(cases), "generation_states": gen_states, "trace_states": tv["states"],
        "faults_fired": fired, "rejection_classes": classes, "listings_answered_with_unservable_child": answered, "omitted_children_fetched": fetches, "listdir_substitute_calls": enums,
        "witness_pinned_model_violates": wit["inv_violations"], "selftest": st,
        "model_coverage_zero": sorted(k for k, v in res.get("coverage", {}).items() if v[0] == 0)[:20],
        "bindings": ["B1 ignore pattern + handler list from conf", "B2 every TLC initial state built and listed", "B3 TraceC12"],
    }
    return chk.finish(cov, ASSUMPTIONS)


def _plain(name, sb):
    return not any(sub in sb + "/" + name for sub, _ in dl.BAD)
