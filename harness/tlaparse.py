"""Parser for TLA+ values as printed by TLC (dumps, simulation traces, PrintT).

Supported: integers, strings, booleans, model values (bare identifiers), sequences <<..>>,
sets {..}, records [a |-> v, ...], functions (k :> v @@ k :> v), intervals a..b.
Returns python objects: int, str, bool, ModelValue(str), list (sequence), frozenset (set),
dict (record / function).  Trusted base: contains no property logic.
"""
from __future__ import annotations


class ModelValue(str):
    def __repr__(self):
        return "MV(%s)" % str.__repr__(self)


class ParseError(Exception):
    pass


class _P:
    def __init__(self, s: str):
        self.s = s
        self.i = 0
        self.n = len(s)

    def ws(self):
        s, n = self.s, self.n
        while self.i < n and s[self.i] in " \t\r\n":
            self.i += 1

    def peek(self, k=1):
        return self.s[self.i:self.i + k]

    def expect(self, tok):
        self.ws()
        if not self.s.startswith(tok, self.i):
            raise ParseError("expected %r at %d: %r" % (tok, self.i, self.s[self.i:self.i + 40]))
        self.i += len(tok)

    def value(self):
        self.ws()
        if self.i >= self.n:
            raise ParseError("unexpected end")
        c = self.s[self.i]
        if c == '"':
            return self.string()
        if c == "<" and self.peek(2) == "<<":
            self.i += 2
            out = []
            self.ws()
            if self.peek(2) == ">>":
                self.i += 2
                return out
            while True:
                out.append(self.value())
                self.ws()
                if self.peek(2) == ">>":
                    self.i += 2
                    return out
                self.expect(",")
        if c == "{":
            self.i += 1
            out = []
            self.ws()
            if self.peek() == "}":
                self.i += 1
                return frozenset()
            while True:
                out.append(_freeze(self.value()))
                self.ws()
                if self.peek() == "}":
                    self.i += 1
                    return frozenset(out)
                self.expect(",")
        if c == "[":
            self.i += 1
            out = {}
            self.ws()
            if self.peek() == "]":
                self.i += 1
                return out
            while True:
                self.ws()
                j = self.i
                while self.i < self.n and (self.s[self.i].isalnum() or self.s[self.i] == "_"):
                    self.i += 1
                key = self.s[j:self.i]
                self.expect("|->")
                out[key] = self.value()
                self.ws()
                if self.peek() == "]":
                    self.i += 1
                    return out
                self.expect(",")
        if c == "(":
            self.i += 1
            out = {}
            while True:
                k = self.value()
                self.expect(":>")
                v = self.value()
                out[_freeze(k)] = v
                self.ws()
                if self.peek() == ")":
                    self.i += 1
                    return out
                self.expect("@@")
        if c == "-" or c.isdigit():
            j = self.i
            self.i += 1
            while self.i < self.n and self.s[self.i].isdigit():
                self.i += 1
            v = int(self.s[j:self.i])
            if self.peek(2) == "..":
                self.i += 2
                hi = self.value()
                return frozenset(range(v, hi + 1))
            return v
        if c.isalpha() or c == "_":
            j = self.i
            while self.i < self.n and (self.s[self.i].isalnum() or self.s[self.i] == "_"):
                self.i += 1
            w = self.s[j:self.i]
            if w == "TRUE":
                return True
            if w == "FALSE":
                return False
            return ModelValue(w)
        raise ParseError("unexpected %r at %d" % (c, self.i))

    def string(self):
        assert self.s[self.i] == '"'
        self.i += 1
        out = []
        s = self.s
        while True:
            c = s[self.i]
            if c == "\\":
                d = s[self.i + 1]
                out.append({"n": "\n", "t": "\t", "r": "\r", "f": "\f", '"': '"', "\\": "\\"}.get(d, d))
                self.i += 2
            elif c == '"':
                self.i += 1
                return "".join(out)
            else:
                out.append(c)
                self.i += 1


def _freeze(v):
    if isinstance(v, list):
        return tuple(_freeze(x) for x in v)
    if isinstance(v, dict):
        return tuple(sorted((k, _freeze(x)) for k, x in v.items()))
    return v


def parse_value(s: str):
    p = _P(s)
    v = p.value()
    p.ws()
    if p.i != p.n:
        raise ParseError("trailing text at %d: %r" % (p.i, s[p.i:p.i + 40]))
    return v


def iter_dump_states(path: str, wanted=None):
    """Stream states of a `tlc -dump` file: yields dict var -> python value.

    Line-oriented: a variable starts at a line '/\\ name = ...'; continuation lines are
    appended until the next such line or a blank line.  `wanted`: optional set of variable
    names to parse (others skipped: parsing is the slow part)."""
    cur = None          # (name, [chunks])
    state = {}

    def flush():
        nonlocal cur
        if cur is not None:
            name, chunks = cur
            if wanted is None or name in wanted:
                state[name] = parse_value("\n".join(chunks))
            cur = None

    with open(path, "r", encoding="utf-8", errors="surrogateescape") as fp:
        for line in fp:
            line = line.rstrip("\n")
            if line.startswith("State "):
                flush()
                if state:
                    yield state
                state = {}
                continue
            if line.startswith("/\\ ") and " = " in line:
                flush()
                head, _, rest = line[3:].partition(" = ")
                if head.replace("_", "").isalnum():
                    cur = (head, [rest])
                    continue
            if not line.strip():
                flush()
                continue
            if cur is not None:
                cur[1].append(line)
            elif " = " in line and not state and line.split(" = ")[0].replace("_", "").isalnum():
                # single-variable specs print 'x = v' without the bullet
                head, _, rest = line.partition(" = ")
                cur = (head, [rest])
    flush()
    if state:
        yield state


def last_sim_state(path: str, wanted=None):
    """Last state of a `tlc -simulate file=...` behaviour file (STATE_n == /\\ v = ... blocks)."""
    with open(path, "r", encoding="utf-8", errors="surrogateescape") as fp:
        text = fp.read()
    i = text.rfind("STATE_")
    if i < 0:
        return None
    block = text[i:]
    block = block[block.index("==") + 2:]
    state = {}
    cur = None
    for line in block.split("\n"):
        if line.startswith("/\\ ") and " = " in line:
            head, _, rest = line[3:].partition(" = ")
            if head.replace("_", "").isalnum():
                if cur and (wanted is None or cur[0] in wanted):
                    state[cur[0]] = parse_value("\n".join(cur[1]))
                cur = (head, [rest])
                continue
        if line.startswith("====") or not line.strip():
            if cur and (wanted is None or cur[0] in wanted):
                state[cur[0]] = parse_value("\n".join(cur[1]))
            cur = None
            continue
        if cur:
            cur[1].append(line)
    if cur and (wanted is None or cur[0] in wanted):
        state[cur[0]] = parse_value("\n".join(cur[1]))
    return state
