"""XSIG (growth beyond the listed properties): signal-driven shutdown, spec/Signals.tla.
Model check (safety + OrderlyShutdown under fairness) and conformance of the real
pygopherd/sighandlers.py handlers under recording substitutes."""
from __future__ import annotations

import os
import signal
import sys

from harness import core, tlc


def record(role, sig):
    """Run the real handler for `sig` as master or child, recording its environment calls."""
    from pygopherd import logger, sighandlers
    core.assert_repo_bound()
    calls = []
    handlers = {}
    real = dict(signal=signal.signal, kill=os.kill, _exit=os._exit, exit=sys.exit, getpid=os.getpid)

    class Exit(BaseException):
        pass

    def fake_exit(code=0):
        calls.append(("exit", code))
        raise Exit()

    pid = {"v": 1000}
    try:
        signal.signal = lambda s, h: (handlers.__setitem__(s, h), calls.append(("signal", int(s), "IGN" if h == signal.SIG_IGN else "fn")))[1]
        os.kill = lambda p, s: calls.append(("kill", p, int(s)))
        os._exit = fake_exit
        sys.exit = fake_exit
        os.getpid = lambda: pid["v"]
        logger.log = lambda m: None
        sighandlers.setsighuphandler()
        sighandlers.setsigtermhandler()
        del calls[:]
        if role == "child":
            pid["v"] = 2000
        h = handlers[signal.SIGTERM if sig == "TERM" else signal.SIGHUP]
        try:
            h(int(signal.SIGTERM if sig == "TERM" else signal.SIGHUP), None)
        except Exit:
            pass
    finally:
        signal.signal, os.kill, os._exit, sys.exit, os.getpid = (real["signal"], real["kill"], real["_exit"],
                                                                 real["exit"], real["getpid"])
    ign = [i for i, c in enumerate(calls) if c[0] == "signal" and c[1] == int(signal.SIGHUP) and c[2] == "IGN"]
    kills = [(i, c) for i, c in enumerate(calls) if c[0] == "kill"]
    killed = "none"
    if kills:
        i, c = kills[0]
        killed = "group0:HUP" if (c[1] == 0 and c[2] == int(signal.SIGHUP) and len(kills) == 1) else "other"
    exits = [c[1] for c in calls if c[0] == "exit"]
    return {"ev": "handle", "p": "master" if role == "master" else "c1", "sig": sig,
            "ignoredHupFirst": bool(ign and kills and ign[0] < kills[0][0]), "killed": killed,
            "exit": exits[0] if exits else -1}, calls


def main(chk, replay=None):
    res = tlc.check_model("Signals", "MC_Signals.cfg", timeout=600)
    if res["inv_violations"] or res["rc"] == 13:
        chk.model_violation("Signals", res["inv_violations"] or ["OrderlyShutdown"], res["out"][-2000:])
    traces = []
    for role in ("master", "child"):
        for sig in ("TERM", "HUP"):
            ev, calls = record(role, sig)
            traces.append({"id": "%s/%s" % (role, sig), "events": [ev], "calls": calls})
    tv = tlc.validate_traces("TraceSignals", "TraceSignals.cfg", [{"id": t["id"], "events": t["events"]} for t in traces])
    for rj in tv["rejected"]:
        t = traces[rj["index"]]
        chk.violation("%s:%s" % (t["id"], rj["clause"]), rj["clause"], {"id": t["id"]}, {"events": t["events"], "calls": t["calls"]})
    return chk.finish({"states": res["distinct"], "transitions": res["generated"], "exhaustive": True,
                       "traces_validated_against_impl": tv["accepted"], "evaluations": len(traces), "distinct_nontrivial": len(traces),
                       "rule": "the four (role, signal) handler runs of sighandlers.py", "samples": [t["events"] for t in traces],
                       "checker_cmd": res["cmd"]},
                      ["signal.signal/os.kill/os._exit/sys.exit/os.getpid substituted by recorders; not one of the listed properties"])
