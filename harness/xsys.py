"""XSYS (growth beyond the listed properties): a REAL `bin/pygopherd` process group - start-up,
serving, SIGTERM shutdown - against spec/Pygopherd.tla (composition of Startup / serving / Signals)."""
from __future__ import annotations

import configparser
import os
import re
import signal
import socket
import subprocess
import sys
import time

from harness import core, tlc


def _free_port():
    s = socket.socket()
    s.bind(("127.0.0.1", 0))
    p = s.getsockname()[1]
    s.close()
    return p


def run_real(servertype, nreq):
    scratch = tlc.new_scratch("sys")
    root = os.path.join(scratch, "root")
    os.makedirs(root)
    with open(os.path.join(root, "a.txt"), "w") as fp:
        fp.write("hello\n")
    cp = configparser.ConfigParser()
    cp.read(os.path.join(core.REPO, "conf", "pygopherd.conf"))
    port = _free_port()
    for k, v in (("root", root), ("port", str(port)), ("usechroot", "no"), ("detach", "no"), ("servername", "localhost"),
                 ("servertype", servertype), ("interface", "127.0.0.1"),
                 ("mimetypes", os.path.join(core.REPO, "conf", "mime.types"))):
        cp.set("pygopherd", k, v)
    cp.remove_option("pygopherd", "pidfile")
    cp.set("logger", "logmethod", "file")
    conf = os.path.join(scratch, "pygopherd.conf")
    with open(conf, "w") as fp:
        cp.write(fp)
    env = dict(os.environ, PYTHONPATH=core.REPO, PYTHONUNBUFFERED="1", PYTHONDONTWRITEBYTECODE="1", PYTHONWARNINGS="ignore")
    pr = subprocess.Popen([sys.executable, os.path.join(core.REPO, "bin", "pygopherd"), conf], stdout=subprocess.PIPE,
                          stderr=subprocess.STDOUT, env=env, cwd=scratch)
    lines = []
    answered = 0
    try:
        deadline = time.monotonic() + 60
        while time.monotonic() < deadline:
            line = pr.stdout.readline().decode("utf-8", "replace")
            if not line:
                break
            lines.append(line.rstrip("\n"))
            if line.startswith("Running."):
                break
        for i in range(nreq):
            try:
                s = socket.create_connection(("127.0.0.1", port), timeout=30)
                s.sendall(b"/a.txt\r\n" if i % 2 == 0 else b"/nothere\r\n")
                data = b""
                while True:
                    b = s.recv(65536)
                    if not b:
                        break
                    data += b
                s.close()
                if data:
                    answered += 1
            except OSError:
                pass
        pr.send_signal(signal.SIGTERM)
        try:
            out, _ = pr.communicate(timeout=60)
        except subprocess.TimeoutExpired:
            pr.kill()
            out, _ = pr.communicate()
        lines += out.decode("utf-8", "replace").splitlines()
        code = pr.returncode
    finally:
        if pr.poll() is None:
            pr.kill()
        import shutil
        shutil.rmtree(scratch, ignore_errors=True)
    events = []
    for ln in lines:
        if ln.startswith("Pygopherd starting"):
            events.append({"ev": "log", "r": "start"})
        elif ln.startswith("Running."):
            events.append({"ev": "log", "r": "running"})
        elif re.search(r"\[\w+Protocol/\w+\]: ", ln) and "EXCEPTION" not in ln:
            events.append({"ev": "log", "r": "request"})
        elif "SIGTERM" in ln and "master" in ln:
            events.append({"ev": "log", "r": "sigterm"})
        elif "Goodbye" in ln:
            events.append({"ev": "log", "r": "goodbye"})
    events.append({"ev": "exit", "code": code if code is not None else -1})
    return events, lines, answered


def main(chk, replay=None):
    res = tlc.check_model("Pygopherd", "MC_Pygopherd.cfg", timeout=600)
    if res["inv_violations"] or res["rc"] == 13:
        chk.model_violation("Pygopherd", res["inv_violations"] or ["liveness"], res["out"][-2000:])
    traces = []
    for st in ("ForkingTCPServer", "ThreadingTCPServer"):
        for n in (0, 3):
            ev, lines, answered = run_real(st, n)
            traces.append({"id": "%s/%d" % (st, n), "events": ev, "lines": lines[-12:], "answered": answered, "n": n})
    tv = tlc.validate_traces("TraceSys", "TraceSys.cfg", [{"id": t["id"], "events": t["events"]} for t in traces])
    for rj in tv["rejected"]:
        t = traces[rj["index"]]
        chk.violation("%s:%s" % (t["id"], rj["clause"]), rj["clause"], {"id": t["id"]}, {"events": t["events"], "log": t["lines"]})
    for t in traces:
        if t["answered"] != t["n"]:
            chk.violation("%s:EveryRequestAnswered" % t["id"], "EveryRequestAnswered", {"id": t["id"]}, {"log": t["lines"]})
    return chk.finish({"states": res["distinct"], "transitions": res["generated"], "exhaustive": True,
                       "traces_validated_against_impl": tv["accepted"], "evaluations": len(traces), "distinct_nontrivial": len(traces),
                       "rule": "real bin/pygopherd process: {Forking, Threading} x {0, 3 requests} then SIGTERM",
                       "samples": [t["events"] for t in traces[:2]], "checker_cmd": res["cmd"]},
                      ["a real server process on a loopback port; not one of the listed properties"])
