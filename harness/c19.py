"""C19 - privileges are dropped completely and in the right order at start-up.

gamma: (configuration, failing call) cases enumerated by TLC from MC_C19 -> a generated config
file and a fault to inject.  The REAL pygopherd.initialization.initialize() runs in a forked
child with os/pwd/grp/ssl/socket/configparser entry points substituted by recorders.
alpha: recorded calls -> abstract events.  All judgement is in spec/Startup.tla via TraceC19.
"""
from __future__ import annotations

import configparser
import json
import os
import shutil
import sys
import tempfile

from harness import core, tlc
from harness.tlaparse import iter_dump_states

UID, GID = 4242, 4343


TRUE_SPELLINGS = ["yes", "true", "on", "1", "Yes", "ON", "True"]        # every spelling configparser.getboolean accepts
FALSE_SPELLINGS = ["no", "false", "off", "0", "No", "OFF", "False"]


def _spell(val, k):
    sp = TRUE_SPELLINGS if val else FALSE_SPELLINGS
    return sp[k % len(sp)]


def _write_config(repo, scratch, cfg, k=0):
    cp = configparser.ConfigParser()
    cp.read(os.path.join(repo, "conf", "pygopherd.conf"))
    docroot = os.path.join(scratch, "docroot")
    os.makedirs(docroot, exist_ok=True)
    s = "pygopherd"
    cp.set(s, "root", docroot)
    cp.set(s, "port", "0")
    cp.set(s, "detach", "no")
    cp.remove_option(s, "pidfile")
    cp.set(s, "servername", "localhost")
    cp.set(s, "servertype", "ThreadingTCPServer")
    cp.set(s, "mimetypes", os.path.join(repo, "conf", "mime.types"))
    # an unreadable value (no boolean spelling) when the case says so; otherwise one of the accepted spellings, rotating
    cp.set(s, "usechroot", "enabled" if cfg.get("garbled") else _spell(cfg["chroot"], k))
    for opt, on, val in (("setuid", cfg["uid"], "gopheruser"), ("setgid", cfg["gid"], "gophergroup")):
        cp.remove_option(s, opt)
        if on:
            cp.set(s, opt, val)
    cp.set(s, "enable_tls", _spell(cfg["tls"], k // 7))
    cp.set(s, "tls_certfile", os.path.join(repo, "testdata", "demo.crt"))
    cp.set(s, "tls_keyfile", os.path.join(repo, "testdata", "demo.key"))
    cp.set("logger", "logmethod", "none")
    path = os.path.join(scratch, "pygopherd.conf")
    with open(path, "w") as fp:
        cp.write(fp)
    return path, docroot


def _child(conf_path, docroot, fault_name, fault_index, wfd, starter="root", startdir="elsewhere", ids="ordinary"):
    """Runs in a forked child: install recorders, run the real initialize(), report events."""
    global UID, GID
    if ids == "zero":            # the configured account and group are the ones numbered 0 ("setuid = root", "setgid = wheel")
        UID, GID = 0, 0
    import errno
    import grp
    import pwd
    import signal
    import socket
    import ssl

    events = []
    # where the daemon is started from: somewhere else, a sibling whose path has the document root's path as a string
    # prefix, or a directory inside the document root (real directories, real chdir, before any recorder is installed)
    start = {"elsewhere": os.path.dirname(docroot), "lookalike": docroot + "-old", "docroot": os.path.join(docroot, "sub")}[startdir]
    os.makedirs(start, exist_ok=True)
    os.chdir(start)
    # the emulated kernel identity: uid 0, or an ordinary account (OTHER) that is not the configured one
    OTHER = 1000
    sim = {"chrooted": False, "n": 0, "uid": 0 if starter == "root" else OTHER}
    os.geteuid = os.getuid = lambda: sim["uid"]
    os.getegid = os.getgid = lambda: 0 if starter == "root" else OTHER
    os.getresuid = lambda: (sim["uid"],) * 3
    real_docroot = os.path.realpath(docroot)

    def should_fail(name):
        sim["n"] += 1
        return name == fault_name or sim["n"] == fault_index

    def rec(name, needs_root=False, **kw):
        ok = not should_fail(name)
        if needs_root and sim["uid"] != 0:      # what the kernel does for an unprivileged caller
            ok = False
        e = {"ev": name, "ok": ok}
        e.update(kw)
        events.append(e)
        if not ok:
            if name == "loadtls":
                raise ssl.SSLError("injected: cannot load certificate")
            if name in ("lookupuser", "lookupgroup"):
                raise KeyError("injected: name not found: %r" % (kw.get("account"),))
            raise OSError(errno.EPERM, "injected: Operation not permitted")

    def setuid_like(full, target):
        # setreuid & co.: root may become anybody, anybody may "become" itself
        rec("setuid", needs_root=(target != sim["uid"]), full=full)
        if full:
            sim["uid"] = target

    def chroot(path):
        p = os.fsdecode(path)
        rec("chroot", needs_root=True, docroot=(os.path.realpath(p) == real_docroot and not sim["chrooted"]))
        sim["chrooted"] = True

    def chdir(path):
        p = os.fsdecode(path)
        if sim["chrooted"]:
            inside = p.startswith("/")
        else:
            rp = os.path.realpath(p)
            inside = rp == real_docroot or rp.startswith(real_docroot + "/")
        rec("chdir", inside=inside)

    def setgroups(g):
        rec("setgroups", needs_root=True, empty=(len(list(g)) == 0))

    def initgroups(user, gid):
        rec("setgroups", needs_root=True, empty=False)

    os.chroot, os.chdir, os.fchdir = chroot, chdir, (lambda fd: rec("chdir", inside=False))
    os.setgroups, os.initgroups = setgroups, initgroups
    os.setregid = lambda r, e: rec("setgid", needs_root=True, full=(r == GID and e == GID))
    os.setgid = lambda g: rec("setgid", needs_root=True, full=(g == GID))
    os.setresgid = lambda r, e, s: rec("setgid", needs_root=True, full=(r == GID and e == GID and s == GID))
    os.setegid = lambda g: rec("setgid", needs_root=True, full=False)
    os.setreuid = lambda r, e: setuid_like(r == UID and e == UID, e)
    os.setuid = lambda u: setuid_like(u == UID, u)
    os.setresuid = lambda r, e, s: setuid_like(r == UID and e == UID and s == UID, e)
    os.seteuid = lambda u: setuid_like(False, u)
    os.setpgrp = lambda: None
    os.setsid = lambda: None
    signal.signal = lambda *a, **k: None
    def getpwnam(n):
        rec("lookupuser", account=n)
        return pwd.struct_passwd((n, "x", UID, UID, "", "/", "/bin/false"))

    def getgrnam(n):
        rec("lookupgroup", account=n)
        return grp.struct_group((n, "x", GID, []))

    pwd.getpwnam, grp.getgrnam = getpwnam, getgrnam

    real_load = ssl.SSLContext.load_cert_chain

    def load_cert_chain(self, *a, **k):
        rec("loadtls")
        return real_load(self, *a, **k)

    ssl.SSLContext.load_cert_chain = load_cert_chain
    real_bind = socket.socket.bind

    def bind(self, addr):
        rec("bind")
        return real_bind(self, addr)

    socket.socket.bind = bind

    real_set = configparser.RawConfigParser.set

    def cfgset(self, section, option, value=None):
        if section == "pygopherd" and option == "root" and events:     # not while we build the file
            v = "slash" if value == "/" else ("docroot" if os.path.realpath(value) == real_docroot else "other")
            events.append({"ev": "cfgroot", "v": v})
        return real_set(self, section, option, value)

    configparser.RawConfigParser.set = cfgset
    configparser.ConfigParser.set = lambda self, s, o, v=None: cfgset(self, s, o, v)

    out = {"events": events, "exc": None}
    try:
        from pygopherd import initialization
        core.assert_repo_bound()
        server = None
        try:
            server = initialization.initialize(conf_path)
        except BaseException as e:        # noqa: start-up raised
            out["exc"] = type(e).__name__ + ": " + str(e)[:200]
            events.append({"ev": "abort"})
        else:
            root = server.config.get("pygopherd", "root")
            final = "slash" if root == "/" else ("docroot" if os.path.realpath(root) == real_docroot else "other")
            seen = [e["v"] for e in events if e["ev"] == "cfgroot"]
            if (seen[-1] if seen else "docroot") != final:
                events.append({"ev": "cfgroot", "v": final})
            events.append({"ev": "serve"})
            try:
                server.server_close()
            except Exception:
                pass
    except BaseException as e:
        out["machinery"] = repr(e)
    os.write(wfd, json.dumps(out).encode())
    os._exit(0)


def run_case(repo, cfg, fault_name=None, fault_index=0, starter="root", startdir="elsewhere", ids="ordinary"):
    import zlib
    scratch = tempfile.mkdtemp(prefix="verif-c19-", dir=tlc.scratch_root())
    try:
        k = zlib.crc32(("%s|%s|%s|%s|%s" % (_cfgstr(cfg), fault_name, fault_index, starter, startdir)).encode())
        conf_path, docroot = _write_config(repo, scratch, cfg, k)
        r, w = os.pipe()
        pid = os.fork()
        if pid == 0:
            os.close(r)
            try:
                _child(conf_path, docroot, fault_name, fault_index, w, starter, startdir, ids)
            finally:
                os._exit(3)
        os.close(w)
        data = b""
        while True:
            b = os.read(r, 65536)
            if not b:
                break
            data += b
        os.close(r)
        os.waitpid(pid, 0)
        if not data:
            raise core.MachineryError("C19 child produced no output for %r" % (cfg,))
        out = json.loads(data)
        if out.get("machinery"):
            raise core.MachineryError("C19 child failed: %s" % out["machinery"])
        return out
    finally:
        shutil.rmtree(scratch, ignore_errors=True)


def main(chk, replay=None):
    repo = core.REPO
    # 1. design model: every configuration x every failing call, exhaustively
    res = tlc.check_model("MC_C19", "MC_C19.cfg", dump=True, coverage=True)
    try:
        if res["inv_violations"]:
            chk.model_violation("MC_C19", res["inv_violations"], res["out"][-2000:])
        cases = []
        for st in iter_dump_states(res["dump"], wanted={"pc", "cfg", "fault", "phase", "euid", "cwd"}):
            if st["pc"] == 1 and st["phase"] == "starting":
                cases.append((dict(st["cfg"]), None if st["fault"] == "none" else st["fault"], st["euid"], st["cwd"]))
    finally:
        tlc.cleanup(res)
    if replay:
        with open(replay) as fp:
            rp = json.load(fp)
        c = rp["case"]
        c["cfg"].setdefault("garbled", False)
        cases = [(c["cfg"], c.get("fault"), c.get("starter", "root"), c.get("startdir", "elsewhere"))]
        if c.get("ids") == "zero":
            cases = []
            out = run_case(repo, c["cfg"], starter="root", ids="zero")
            replayed = [{"id": "replay", "init": {"cfg": c["cfg"], "starter": "root", "startdir": "elsewhere"},
                         "events": out["events"], "case": c, "exc": out["exc"]}]
        if c.get("fault_index"):
            cases = []
            out = run_case(repo, c["cfg"], fault_index=c["fault_index"], starter=c.get("starter", "root"), startdir=c.get("startdir", "elsewhere"))
            replayed = [{"id": "replay", "init": {"cfg": c["cfg"], "starter": c.get("starter", "root"), "startdir": c.get("startdir", "elsewhere")},
                         "events": out["events"], "case": c, "exc": out["exc"]}]
    # 2. spec -> code: run the real initialize() on every case TLC enumerated
    traces = list(replayed) if replay and not cases else []
    from concurrent.futures import ThreadPoolExecutor
    pool = ThreadPoolExecutor(int(os.environ.get("VERIF_PROCS") or 8))
    cases = sorted(cases, key=lambda c: (_cfgstr(c[0]), str(c[1]), c[2], c[3]))
    outs = list(pool.map(lambda c: run_case(repo, c[0], fault_name=c[1], starter=c[2], startdir=c[3]), cases))
    for (cfg, fault, starter, startdir), out in zip(cases, outs):
        traces.append({"id": "cfg=%s as=%s from=%s fault=%s" % (_cfgstr(cfg), starter, startdir, fault),
                       "init": {"cfg": cfg, "starter": starter, "startdir": startdir},
                       "events": out["events"], "case": {"cfg": cfg, "fault": fault, "starter": starter, "startdir": startdir},
                       "exc": out["exc"]})
    # 3. every call the real code actually made, failing in turn (measured, not predicted)
    if not replay:
        jobs = []
        for cfg, fault, starter, startdir in [c for c in cases if c[1] is None and c[3] == "elsewhere" and not c[0]["garbled"]]:
            base = [t for t in traces if t["case"] == {"cfg": cfg, "fault": None, "starter": starter, "startdir": startdir}][0]
            ncalls = len([e for e in base["events"] if "ok" in e])
            jobs += [(cfg, k, starter) for k in range(1, ncalls + 1)]
        outs = list(pool.map(lambda j: run_case(repo, j[0], fault_index=j[1], starter=j[2]), jobs))
        for (cfg, k, starter), out in zip(jobs, outs):
            traces.append({"id": "cfg=%s as=%s call#%d fails" % (_cfgstr(cfg), starter, k),
                           "init": {"cfg": cfg, "starter": starter, "startdir": "elsewhere"},
                           "events": out["events"], "case": {"cfg": cfg, "fault_index": k, "starter": starter, "startdir": "elsewhere"},
                           "exc": out["exc"]})
    # 3b. the same option combinations with a configured account / group whose NUMBER is 0: the steps are owed all the same
    #     (Startup's "user"/"group" are whatever the options name; nothing in the property exempts id 0)
    if not replay:
        zjobs = [c for c in cases if c[1] is None and c[2] == "root" and c[3] == "elsewhere" and not c[0]["garbled"]
                 and (c[0]["uid"] or c[0]["gid"])]
        outs = list(pool.map(lambda c: run_case(repo, c[0], starter="root", ids="zero"), zjobs))
        for (cfg, fault, starter, startdir), out in zip(zjobs, outs):
            traces.append({"id": "cfg=%s as=root ids=0" % _cfgstr(cfg),
                           "init": {"cfg": cfg, "starter": "root", "startdir": "elsewhere"},
                           "events": out["events"], "case": {"cfg": cfg, "fault": None, "starter": "root", "startdir": "elsewhere", "ids": "zero"},
                           "exc": out["exc"]})
    pool.shutdown()
    # vacuity guard: started by root and with no fault, the real start-up must get as far as serving
    # (the guard only gates a PASS: a run that is rejected by a property clause is a verdict, not a machinery failure)
    not_serving = [t for t in traces
                   if t["case"].get("fault", 0) is None and t["case"].get("starter") == "root"
                   and not t["case"]["cfg"].get("garbled") and t["events"][-1]["ev"] != "serve"]
    injected = sum(1 for t in traces if any(e.get("ok") is False for e in t["events"]))
    if not replay and injected == 0:
        raise core.MachineryError("C19: no fault was injected in any run: substitutes not exercised")
    # 4. code -> spec: TLC judges every recorded trace against Startup
    tv = tlc.validate_traces("TraceC19", "TraceC19.cfg", [{"id": t["id"], "init": t["init"], "events": t["events"]} for t in traces])
    for rj in tv["rejected"]:
        t = traces[rj["index"]]
        key = "%s:%s" % (t["id"], rj["clause"])
        chk.violation(key, rj["clause"], dict(t["case"], cfgstr=_cfgstr(t["case"]["cfg"])),
                      {"events": t["events"], "rejected_at_event": rj["at"], "exception": t["exc"]})
    chk.note_drift(tv["drift"])
    if not tv["rejected"] and not_serving:
        t = not_serving[0]
        raise core.MachineryError("C19: fault-free start-up as root did not reach serving for %s: %s" % (t["id"], t["exc"]))
    nontrivial = len({json.dumps(t["events"], sort_keys=True) + json.dumps(t["init"], sort_keys=True) for t in traces
                      if any(e["ev"] in ("chroot", "setgroups", "setgid", "setuid") for e in t["events"])})
    cov = {
        "states": res["distinct"], "transitions": res["generated"], "exhaustive": True,
        "traces_validated_against_impl": tv["accepted"],
        "evaluations": len(traces), "distinct_nontrivial": nontrivial,
        "rule": "cases = every initial state of MC_C19 (16 option combinations incl. TLS, plus an unreadable usechroot value, x started "
                "by root or by an ordinary account x started from elsewhere / from a sibling directory whose path has the document "
                "root as a string prefix / from inside the root x every failing call of the modelled program, account lookups "
                "included; option values rotate through every spelling configparser accepts) plus, per combination, the k-th call the real initialize() made failing for every k; "
                "non-trivial = distinct recorded call sequence containing at least one privileged call",
        "samples": [{"id": t["id"], "events": t["events"]} for t in traces[:2] + traces[-2:]],
        "checker_cmd": res["cmd"] + " ; " + tv["cmd"],
        "trace_states": tv["states"], "traces_rejected": len(tv["rejected"]),
        "faults_injected": injected,
        "model_coverage_zero": sorted(k for k, v in res.get("coverage", {}).items() if v[0] == 0),
        "bindings": ["B2 spec->code replay of every TLC initial state", "B3 code->spec TraceC19"],
    }
    return chk.finish(cov, [
        "os/pwd/grp/ssl/socket/configparser entry points substituted by recorders in a forked child; the kernel's "
        "permission rules are the OS model in spec/Startup.tla (root needed for chroot/setgroups/setgid)",
        "real uid/gid changes are never performed; 'full' = real and effective id both set to the configured id",
    ])


def _cfgstr(cfg):
    return "".join(k[0] if cfg[k] else "-" for k in ("chroot", "uid", "gid", "tls")) + ("!" if cfg.get("garbled") else "")
