"""XTALX part 1: simpleTALUtils.TemplateCache against spec/TALCache.tla.

gamma: a TLC history (sequence of tick/write/touch/delete/get/getxml records) is executed on the REAL
class with real files in a scratch directory; the virtual clock (half seconds) becomes the file's mtime
through os.utime.  alpha: the returned template is expanded and the content marker read from the output,
its class gives the kind, its identity the object number.  No property logic here: TraceXtalxCache judges."""
from __future__ import annotations

import io
import os
import re
import shutil

from harness import core, tlaparse, tlc

BASE = 1_000_000_000          # virtual clock 0 = this many seconds since the epoch

CONTENT = {
    "h1": b"<html><p>MARK-h1<br></p></html>\n",
    "h2": b"<html><p>MARK-h2<br><i tal:content=\"nothing\">x</i></p></html>\n",
    "x1": b"<r>MARK-x1<e/></r>\n",
    "d1": b"<?xml version=\"1.0\"?>\n<r>MARK-d1</r>\n",
    "t1": b"<!DOCTYPE html PUBLIC \"-//W3C//DTD XHTML 1.0 Strict//EN\" \"xhtml1-strict.dtd\">\n<html><p>MARK-t1</p></html>\n",
}
SNIFF = ["d1", "t1"]
XMLOK = ["x1", "d1", "t1"]
MARK = re.compile(r"MARK-(\w\d)")

CFG = """SPECIFICATION %(spec)s
CONSTANTS
  Files = {%(files)s}
  XmlNames = {%(xmlnames)s}
  Contents = {%(contents)s}
  SniffXml = {%(sniff)s}
  XmlOk = {%(xmlok)s}
  MaxClock = %(maxclock)d
  MaxLen = %(maxlen)d
%(tail)s
CHECK_DEADLOCK FALSE
"""


def _set(xs):
    return ", ".join('"%s"' % x for x in xs)


def cfg_text(inst, trace=False):
    return CFG % dict(spec="TSpec" if trace else "CSpec", files=_set(inst["files"]),
                      xmlnames=_set([f for f in inst["files"] if f.endswith("xml")]),
                      contents=_set(inst["contents"]), sniff=_set([c for c in inst["contents"] if c in SNIFF]),
                      xmlok=_set([c for c in inst["contents"] if c in XMLOK]),
                      maxclock=1000 if trace else inst["maxclock"], maxlen=1000 if trace else inst["maxlen"],
                      tail="CONSTRAINT Record\nPOSTCONDITION Post" if trace else
                           "INVARIANTS TypeOK Counters CacheSound\nPROPERTIES Fresh ErrKeeps")


def utils_module():
    import warnings
    warnings.simplefilter("ignore")
    from simpletal import simpleTAL, simpleTALES, simpleTALUtils
    got = os.path.dirname(os.path.dirname(os.path.abspath(simpleTALUtils.__file__)))
    if os.path.realpath(got) != os.path.realpath(core.REPO):
        raise core.MachineryError("simpletal imported from %s, expected %s" % (got, core.REPO))
    return simpleTAL, simpleTALES, simpleTALUtils


# ---- cases from TLC ------------------------------------------------------------------------------------------
def slim(h):
    return [{"a": e["a"], "f": e["f"], "c": e["c"]} for e in h]


def exhaustive_histories(inst):
    """model-check the instance; -> (result, maximal histories)"""
    res = tlc.check_model("MC_XTALX_Cache", "xc_run.cfg", extra_files={"xc_run.cfg": cfg_text(inst)}, dump=True,
                          coverage=False, timeout=inst.get("timeout", 600))
    hs = []
    try:
        for st in tlaparse.iter_dump_states(res["dump"], {"h"}):
            h = st["h"]
            if len(h) == inst["maxlen"]:
                hs.append(slim(h))
    finally:
        tlc.cleanup(res)
    hs.sort(key=lambda h: repr(h))
    return res, hs


def simulated_histories(inst, num, depth, seed):
    sd = tlc.new_scratch("xcsim")
    try:
        inst2 = dict(inst, maxlen=depth, maxclock=depth + 4)
        res = tlc.run_tlc("MC_XTALX_Cache", "xc_sim.cfg", extra_files={"xc_sim.cfg": cfg_text(inst2)}, workers=1,
                          simulate="file=%s,num=%d" % (os.path.join(sd, "b"), num), depth=depth + 2, seed=seed, timeout=300)
        if res["tlc_error"]:
            raise tlc.TLCError("simulation failed:\n" + res["out"][-2000:])
        hs = []
        for fn in sorted(os.listdir(sd)):
            st = tlaparse.last_sim_state(os.path.join(sd, fn), {"h"})
            if st and st.get("h"):
                hs.append(slim(st["h"]))
        return res, hs
    finally:
        shutil.rmtree(sd, ignore_errors=True)


# ---- the real class ------------------------------------------------------------------------------------------
def run_history(hist, root=None):
    """execute one history on a fresh TemplateCache; -> events for TraceXtalxCache"""
    simpleTAL, simpleTALES, U = utils_module()
    own = root is None
    root = root or tlc.new_scratch("xcfs")
    try:
        for fn in os.listdir(root):
            os.unlink(os.path.join(root, fn))
        cache = U.TemplateCache()
        clock = 3
        objs = []                       # returned template objects (kept alive: identity = object number)
        events = []
        for e in hist:
            a, f = e["a"], e["f"]
            path = os.path.join(root, f) if f else ""
            if a == "tick":
                clock += 1
            elif a == "write":
                with open(path, "wb") as fp:
                    fp.write(CONTENT[e["c"]])
                os.utime(path, ns=(BASE * 10**9, BASE * 10**9 + clock * 5 * 10**8))
            elif a == "touch":
                os.utime(path, ns=(BASE * 10**9, BASE * 10**9 + clock * 5 * 10**8))
            elif a == "delete":
                os.unlink(path)
            if a not in ("get", "getxml"):
                events.append({"a": a, "f": f, "c": e["c"]})
                continue
            ev = {"a": a, "f": f, "res": "", "c": "", "kind": "", "obj": 0}
            try:
                t = cache.getXMLTemplate(path) if a == "getxml" else cache.getTemplate(path)
                ev["res"] = "tmpl"
                for i, o in enumerate(objs):
                    if o is t:
                        ev["obj"] = i + 1
                if not ev["obj"]:
                    objs.append(t)
                    ev["obj"] = len(objs)
                ev["kind"] = {"XMLTemplate": "xml", "HTMLTemplate": "html"}.get(type(t).__name__, type(t).__name__)
                out = io.StringIO()
                if ev["kind"] == "xml":
                    t.expand(simpleTALES.Context(), out, suppressXMLDeclaration=True)
                else:
                    t.expand(simpleTALES.Context(), out)
                m = MARK.search(out.getvalue())
                ev["c"] = m.group(1) if m else ""
            except Exception as ex:              # noqa: BLE001 - recorded, judged by TLC
                ev["res"] = "err:" + type(ex).__name__
            lock = getattr(cache, "cacheLock", None)
            ev["locked"] = bool(lock.locked()) if lock is not None and hasattr(lock, "locked") else False
            ev["hits"], ev["misses"] = int(getattr(cache, "hits", -1)), int(getattr(cache, "misses", -1))
            events.append(ev)
            if ev["locked"]:                     # a further call would block for ever: the trace ends here
                break
        return events
    finally:
        if own:
            shutil.rmtree(root, ignore_errors=True)


def run_batch(hists):
    root = tlc.new_scratch("xcfs")
    try:
        return [run_history(h, root) for h in hists]
    finally:
        shutil.rmtree(root, ignore_errors=True)


def validate(inst, runs, chunk=4000):
    traces = [{"id": i, "init": {}, "events": ev} for i, ev in enumerate(runs)]
    return tlc.validate_traces("TraceXtalxCache", "xc_trace.cfg", traces, extra_files={"xc_trace.cfg": cfg_text(inst, trace=True)},
                               timeout=900, chunk=chunk)
