"""Source of MANIFEST.json (bin/gen-manifest).  One entry per claimed property."""

TECHNIQUE = "TLA+ model + TLC; spec->code replay and code->spec trace validation"
ENGINE = ("explicit TLA+ specification (spec/*.tla); bounded models checked exhaustively with TLC; conformance harness "
          "(harness/*.py) replays TLC-enumerated cases into the real code (B2) and validates traces recorded from the "
          "real code with TLC against trace specifications (spec/trace/Trace*.tla, B3)")
NOTES = "See DESIGN.md. Known findings and fix: commits are listed in known_findings.json."
HOOKS = {
    "guard": "PYGOPHERD_VERIF",
    "enable": "no source hooks exist: the checks substitute the environment (os, time, open, sockets, pwd/grp) "
              "process-wide instead; bin/check exports PYGOPHERD_VERIF=1 but nothing in /repo reads it",
    "baseline_off_cmd": "cd /repo && /venv/bin/python -m pytest -ra -q -p no:cacheprovider --timeout=900 "
                        "--continue-on-collection-errors",
    "source_commits": [],
    "add_only": True,
}
NOT_BUILT = ("check not built yet in this round (planned in DESIGN.md section 9); not claimed until its model, "
             "binding and triage are done")
NOT_APPLICABLE = {}

CLAIMED = {
    "C01": {
        "text": "spec/FS.tla (tree with an outside world that mirrors every kind of inside node, POSIX resolution with a taint "
                "for any consulted node outside the root) and spec/Handlers.tla (per-frame decode pipeline, stat before filter, "
                "the six-substring filter against the property's own notion of hostile, Virtual split, ZIP walk-up and "
                "re-dispatch, URL handler) give the design argument that TLC checks for every enumerated (handler list, frame, "
                "selector): NormalForm, Containment (filter + literal concatenation => resolution stays inside), PrefixClosed, "
                "Untainted, FilterGates, ClimbIsNotFound, NoCwdRelative. Every model state is replayed on the real server in "
                "two worlds that differ only outside the root and from several working directories under a sys.addaudithook "
                "hook; TraceC01 judges NoOutsideAccess, UrlNoFile, ClimbIsNotFound, NonInterference (byte-identical across "
                "worlds and cwds).",
        "note": "Trusted: TLC; path classification and audit hook in harness/c01.py; stat raises no audit event (covered by "
                "non-interference and the model); selectors up to 3-4 characters over a 14-character hostile alphabet and up "
                "to 3 tokens of 26 in quick, more in thorough; symlinks leaving the root are outside the quantifier.",
    },
    "C17": {
        "text": "spec/TALES.tla (tagged values, expression evaluation), TALCompile.tla (program and symbol table as the compiler "
                "builds them, opcode numbers imported from the tree), TALVM.tla (one action per opcode handler of "
                "TemplateInterpreter over its real registers and the Context stacks) and the independent tree-walking reference "
                "TALSem.tla (DESIGN.md Appendix E.4); MC_C17 enumerates templates of a bounded TAL grammar (every subset of the "
                "six commands, every TALES form in every command position, nesting, nested repeats, local/global defines, "
                "METAL macros and slots) x contexts and checks WellFormed, Terminates, Completes, Refines. Every case is "
                "compiled by the real compiler and expanded under a tracing interpreter passed through the public "
                "interpreter= parameter; TraceC17 replays each opcode event against TALVM (drift) and judges WellFormedProg "
                "on the REAL program and Refines on the real document.",
        "note": "Trusted: TLC; template rendering and HTML tokenizer in harness/c17_tal.py; areas where E.4 is silent are "
                "excluded from the grammar; no random generation.",
    },
    "C02": {
        "text": "spec/Wire.tla holds the documented request shape of every protocol (each definition cites its document) next "
                "to a transcription of every canhandlerequest (incl. WAP's header slurp with read position and per-connection "
                "cache); MC_C02_lines enumerates first lines as token sequences and structured HTTP/WAP/Spartan/TAB-field "
                "families x {TLS, plaintext} x header blocks x protocol lists (shipped order imported from conf at check time, "
                "permutations, all orders of all 3-subsets in thorough) and checks Total, TlsStrict, Ordered, ClaimsMatchShape, "
                "Deterministic; MC_C02_sniff covers all 256 first bytes x {TLS context or not}. Every model case is run through "
                "the real ProtocolMultiplexer.getProtocol (each class also alone, and again later in the process' life) and "
                "the real BaseServer.wrap_socket on a socketpair; TraceC02 judges the recorded answers (oracle for Ordered is "
                "the documented Shape; OrderedByClaims is the implementation against itself) and SniffExact / SniffPure.",
        "note": "Trusted: TLC; gamma/alpha of harness/c02.py (three representative sets per character class); flat token "
                "sequences bounded at 3 (quick) / 4 (thorough) tokens, deeper shapes through the structured families.",
    },
    "C05": {
        "text": "spec/Links.tla models per protocol how an entry is rendered to a link target, which request a client sends for "
                "it, which protocol claims it (order imported from conf) and what the server extracts (unquote, slash "
                "normalisation, WAP strip, Gemini prompt/redirect, icon route, Virtual ?/| split), with the lemma "
                "Unquote(Quote(s)) = s; MC_C05 enumerates content trees (file, dir, mbox, Maildir, ZIP, gophermap dir; names "
                "over byte classes plus the reserved shapes) x protocol views x handler lists and checks Closure on the design. "
                "Every tree is materialised and crawled from / on the real server with each protocol's own lexer and request "
                "syntax; TLC re-derives every request from Follow and TraceC05 judges Closure / Closure_WrongKind.",
        "note": "Trusted: TLC; crawler and lexers in harness/c05_lib.py; two directory levels; known findings for names the "
                "front ends reserve by design (exactly 'wap', URL:-prefixed names, the HTTP icon route) and for Gopher selectors "
                "of the shape 'a b 1' that SpartanProtocol claims.",
    },
    "C06": {
        "text": "spec/Views.tla defines the protocol-independent view of a listing (Canon maps every link form to kind, host, "
                "port, selector) and the search dialogue per protocol; MC_C06 enumerates link-file entries (local, remote, "
                "port-only, URL:), search strings x search-item selectors, and trees, per advertised port. All 11 views (nine "
                "protocol classes plus Gopher+ $) of every site are fetched from the real server with and without trailing "
                "slash under abstract_headers x abstract_entries x port x handler list; an echo PYG handler reports the "
                "search string received; TraceC06 judges SameObject, SameLinks, SameInfo, SameSearch against the Gopher "
                "reference observations of the same site.",
        "note": "Trusted: TLC; view lexers in harness/c06.py; pairwise equality checked as equality with the Gopher/Gopher+ "
                "reference view. Known finding: a plain Gopher search string starting with + or $ is taken for the Gopher+ flag.",
    },
    "C18": {
        "text": "The TAL modules of C17 with a history of computed writes (TALVM.dw); MC_C18 checks Escaped / AttrEscaped (every "
                "value written as text or attribute value is free of markup characters), PythonGated, ContextRestored and "
                "PassThrough / Idempotent over values with markup metacharacters and reference-shaped tokens, python: "
                "expressions with a canary, and TAL-free documents from a document grammar. Every case runs on the real "
                "simpleTAL (context snapshot before/after, canary, second expansion; python: also through handlers/tal.py on "
                "the real server) and TraceC18 judges the tokenised output and snapshots.",
        "note": "Trusted: TLC; HTML tokenizer and snapshot abstraction in harness/c17_tal.py; python: is opaque in the model. One "
                "known finding (script/style content is entity-escaped: PassThrough/Idempotent fail for such documents).",
    },
    "C03": {
        "text": "spec/Server.tla models the connection lifecycle with its exception flow (ReadLine, SelectProtocol outside the "
                "try, handler steps, Write(k) with failing twins, CatchInProtocol, CatchInServer, log records) and "
                "spec/Grammar.tla the response grammars of DESIGN.md Appendix E.5; MC_C03 enumerates malformed and boundary "
                "requests per protocol x selector/argument shape against a tree with every handler's content kind and checks "
                "OneResponse, NoUnhandled, Bounded, Terminates; MC_C03_hist is the self-composition for HistoryFree (histories "
                "of read-only requests incl. the script gateway, exhaustive to length 2, simulated beyond; each history in a "
                "process of its own). Every enumerated request/history is sent "
                "to the real server; alpha lexes the bytes into frames and counts environment operations; TraceC03 judges "
                "the grammar, the log classes and history independence.",
        "note": "Trusted: TLC; frame lexers in harness/c03_lib.py; Bounded counts environment operations, not wall-clock. Two known "
                "findings (cache artefacts fetchable by exact selector; PYG loading leaves __pycache__ in the served tree).",
    },
    "C04": {
        "text": "PARTIAL FIT, stated plainly: spec/Deliver.tla decides the copy loop (every read-size schedule for sizes around "
                "multiples of the block), Gopher+ length, HEAD = GET headers, advertised type = configured tables' answer "
                "(tables computed in a clean interpreter and handed to TLC as data), and the WAP text->WML conversion with "
                "its inverse on byte classes; MC_C04 enumerates size class x content class x name class x handler list x "
                "request family. Every model case becomes a real file fetched through the real server (in memory, and over a "
                "socketpair with real TLS for decompression); read schedules are imposed on the real loop by a substituted "
                "open() (read() and readinto()); spec/MC_C04_overlap.tla checks every interleaving of TWO copy loops and its "
                "schedule shape is replayed by running a complete second transfer inside every write() of the first. "
                "Byte identity itself is computed by the harness per case (flag eq) and only judged by TraceC04 "
                "(Delivered, TypeTruthful, LenTruthful, BodyExact, WmlInvertible, HeadNoBody, HeadIsGetHeaders).",
        "note": "Trusted: TLC; byte comparison and WML lexer in harness/c04.py; contents are class representatives, not arbitrary "
                "bytes; WAP invertibility is up to trailing white space of a line (the code's rstrip).",
    },
    "C07": {
        "text": "spec/Dir.tla (shared with C12) with Visible() using the SHIPPED ignore pattern imported from the tree as data; "
                "MC_C07 enumerates probe names on both sides of every alternative of the pattern, dot-files, dot-directories, "
                "metadata-hidden entries, pairs of link files, under EVERY permutation of the OS enumeration order and both "
                "directory handlers, and checks Exact and OrderFree (the pinned-order variant must violate OrderFree: vacuity "
                "witness). Every directory is built for real, every permutation is handed out by a substituted os.listdir, "
                "every child is then fetched by exact selector; TraceC07 judges Exact.*, OrderFree (all listings of one "
                "directory equal, inside TLC) and StillRetrievable.",
        "note": "Trusted: TLC; harness/c07.py + c12_dirlib.py; regex subset of the shipped patterns; Gopher view only. One known "
                "finding: plain dir.DirHandler lists dot-files the shipped pattern does not match (documented behaviour).",
    },
    "C16": {
        "text": "spec/Zip.tla transcribes VFSZip.populate_cache (inode table, directory synthesis, symlink fix-point loop with "
                "its memo tables), the look-up, ZIPHandler's walk-up and the real-file-only guards, next to a kernel-like "
                "reference (links resolved among members only); MC_C16 runs it as a state machine over every member list in "
                "every order within bounds and checks Same (stat/isdir/isfile/listdir/open), Inside, RealOnly. Every final "
                "state becomes a real archive plus a real twin directory, requested per selector and protocol through the "
                "real server with the index cache absent and present; TraceC16 judges twin vs archive (SameStatus, SameType, "
                "SameListing, SameBytes), LinksStayInside (canaries), RealOnly (audit events) and binds the reference to the "
                "kernel (RefIsKernel).",
        "note": "Trusted: TLC; harness/c16.py (archive builder, alpha, audit hook); nested archives and conflicting member names "
                "excluded. One known finding: lexical '..' in link targets (k->l/../a).",
    },
    "C20": {
        "text": "spec/Server.tla write path: MC_C20 enumerates response kind x protocol x failing write index x error class "
                "(EPIPE, ECONNRESET, single-argument timeout) and checks Contained, OwnClass, FilesClosed on the exception flow "
                "as coded. On the real server the writes of a fault-free run are counted and then EVERY write index fails with "
                "each class; alpha records what left handle(), the log records after the failure and /proc/self/fd before and "
                "after; TraceC20 judges the three clauses.",
        "note": "Trusted: TLC; failing wfile of harness/world.py; fd comparison after gc.collect().",
    },
    "C08": {
        "text": "spec/UMN.tla transcribes handlers/UMN.py as coded (block parser as a state machine over lines, .cap merge, "
                "MergeLinkFiles with object identity, entrycmp) next to the reading of the manual pinned in DESIGN.md Appendix "
                "E.1 (wildcards where it is silent); MC_C08 / MC_C08_block enumerate link files (every order of every subset of "
                "the field lines, value combinations, pairs of blocks, comments, .cap files, extstrip modes, sidecars: 8 k quick "
                "/ 57 k thorough directories) and check AsDocumented / BlockAsDocumented / Progress. Every enumerated directory "
                "is written to disk and listed by the real server; TraceC08 judges the lexed menu against the reference "
                "(HidesOnXorDash, PlusMeansThisServer, AddsWhenNotDotSlash, ExtStripName, OverridesOnlySetFields, Order, "
                "SidecarBecomesAbstract) and reports any difference from the transcription as drift (0).",
        "note": "Trusted: TLC; menu lexer and gamma in harness/c08.py; Gopher view only; one link file and one .cap per "
                "directory; ties/conflicts excluded as the property says. One known finding (a # comment after Path= ends the "
                "block: UMN bug-compatibility).",
    },
    "C09": {
        "text": "spec/Gophermap.tla transcribes BuckGophermapHandler.prepare as coded next to the reference reading of DESIGN.md "
                "Appendix E.2; MC_C09 enumerates 37 line shapes alone, in all pairs (quick) and triples (thorough), in "
                "directories at depth 0-2 and in *.gophermap files, LF/CRLF, and checks AsDocumented. Every gophermap is "
                "written to disk and fetched in six protocol views (Gopher, Gopher+, HTTP, WAP, Gemini, Spartan); TraceC09 "
                "judges each lexed view line for line (InfoIffNoTab, TypeAndDescription, SelectorDefaultsToDescription, "
                "RelativeResolved, SelectorVerbatim, MissingHostPortMeanThisServer, HostPortVerbatim, SameInEveryProtocol).",
        "note": "Trusted: TLC; the five listing lexers and canonicalisation in harness/c09.py / Gophermap!CanonObs; Gopher+ flag, "
                "MIME column and file-system attributes not compared (Appendix E.2).",
    },
    "C12": {
        "text": "spec/Dir.tla models the directory pipeline (ListDir in an OS-chosen order, Filter, UMN dot-file diversion, "
                "SortNames, one ResolveStep per child that can fault, MergeLinks, FinalSort); MC_C12 enumerates directories "
                "of 1..4 children with no/one/two unservable children at every position (dangling link, FIFO, socket, child "
                "vanishing at first or second inspection, EACCES on stat/open, names with .. .\\ \\\\, dot-named variants) "
                "and checks ModelRobust; the pinned-code variant of the model must violate it (vacuity witness). Every case "
                "is built as a real tree (real links, mkfifo, sockets; stat/open faults injected by substituted os.stat/open "
                "at the TLC-chosen child and occurrence) and listed through 7 protocol forms; TraceC12 judges "
                "Robust.Answered / HealthyListed / OnlyVisible.",
        "note": "Trusted: TLC; harness/c12.py + c12_dirlib.py (lexers, fault injection); the security filter is pinned in the "
                "model as the forbidden substrings; directory cache off.",
    },
    "C13": {
        "text": "spec/Render.tla lists 27 echo sites with their context (element text, double-quoted attribute, HTTP header, "
                "Gopher+ line) and the transformation applied as coded; MC_C13 enumerates every data string up to length 3 "
                "(quick) / 4 (thorough) over < > & \" ' CR LF a at every site and checks Inert, TwinInert, ContentPrefixed, "
                "NoHeaderSite exhaustively. Every model case is planted at its real source (selector, query, URL: selector, "
                "file/dir name, HTML title, mail Subject, sidecars, gophermap and .Links fields, text lines), the page is "
                "fetched from the real server and abstracted by independent tokenizers (html.parser, expat, Gopher+ line "
                "classifier); TraceC13 judges BlocksUnforgeable, SkeletonStable (against the inert twin), "
                "HeadersServerChosen, EchoesEscaped.",
        "note": "Trusted: TLC; tokenizers and sentinels in harness/c13.py; alphabet excludes $ % TAB NUL and non-ASCII; default "
                "handler list only. Known findings: names containing LF reach the Gopher+ +INFO line raw.",
    },
    "C15": {
        "text": "spec/GopherPlus.tla transcribes the sidecar pipeline and block construction; MC_C15 enumerates item kind x "
                "sidecar subset / content / size x form (! $ +) exhaustively within bounds and checks the Appendix E.3 clauses "
                "on the coded pipeline (deviations stated exactly); constants (eaexts, MIME types, extstrip) are imported from "
                "the tree at check time. Every model state is replayed on the real server (files, directories, ZIP members, "
                "mbox messages) and TraceC15 judges the lexed answers (BlockStructure, ItemsListed, HasAdmin, ViewsTruthful, "
                "SidecarExact, InfoIsMenuLine against the independently fetched plain menu, LenOrMarker).",
        "note": "Trusted: TLC; the strict Gopher+ block lexer and gamma in harness/c15.py; ASCII contents; no .gz items; "
                "Maildir not driven. Three known findings (last blank sidecar line lost, ! ignores listing-assigned names, "
                "20 KB sidecar cap).",
    },
    "C14": {
        "text": "spec/MC_C14.tla (two workers stepping at environment-operation granularity over the shared cache file and "
                "a check-then-set lazy table, accept loop, sniff inside the worker, fork/zombie/reap) is model-checked "
                "exhaustively within bounds for the threading and the forking server (Isolated, AcceptLive, Conservation, "
                "NoLeak) and for liveness under fairness (Reaped, AllServed). Schedules simulated by TLC from that model are "
                "replayed on REAL handler threads by a cooperative scheduler (substituted stat/open/listdir/write on the "
                "cache path grant one operation at a time; the cache write is split in two), a one-preemption sweep over "
                "every k-th traced line of the first request after start-up covers the lazy tables, and bursts against "
                "real Threading/Forking servers on loopback (plaintext + TLS, one silent client) cover accept-liveness and "
                "reaping. spec/MC_Race.tla (three workers on one cache file that is absent, complete, complete-but-seen-"
                "too-early by one worker, or the remains of a crashed writer) is checked exhaustively and its simulated "
                "interleavings are replayed in worker processes of their own (a request that kills the server is an "
                "observation); yield points include the read after the open, a file mapping and unlink/rename. "
                "TLC validates every execution against spec/trace/TraceC14.tla.",
        "note": "Trusted: TLC; the scheduler and line tracer in harness/c14.py; preemption bound 1 for lazy tables; live bursts "
                "use generous (60 s) socket timeouts - a stalled machine could turn into an incomplete-response report; "
                "responses compared modulo Last-Modified / Mod-Date.",
    },
    "C10": {
        "text": "spec/Cache.tla (directory, history, half-second clock with integer mtime truncation, cache file as "
                "chunks, request steps Probe/Load/Gen/SaveOpen/SaveWrite/Render) is model-checked exhaustively within "
                "bounds (MC_C10: invariants NeverStale, NoLeak, ZeroMeansLive, OnlyCompleteLoads, action property "
                "NoRefresh). TLC then supplies the histories: every behaviour up to a length (state dump with a history "
                "variable) and longer random ones (tlc -simulate); each is replayed on a real directory through the "
                "real server under a substituted clock and listdir, and the recorded history (listing per protocol, "
                "whether the directory was enumerated, whether the cache file changed) is validated by TLC against "
                "spec/trace/TraceC10.tla, which evaluates Faithful/Transparent/NeverStale/ExpiredUsed/ZeroMeansLive/"
                "NoRefresh at every request. Histories are what the property quantifies over, so bounded-exhaustive "
                "plus simulated histories bound to the code is the right level.",
        "note": "Trusted: TLC; listing lexers and timestamp virtualisation in harness/cachelib.py; content universe of two "
                "files (one empty) with two metadata versions, a fixed sub-directory and a UMN link file; protocols Gopher, "
                "Gopher+ (+ and $), HTTP GET and HTTP HEAD (prepare without save); 'touched' = the cache file's times moved "
                "although nobody opened it for writing.",
    },
    "C11": {
        "text": "MC_C11 (spec/Cache.tla with two freely interleaved workers, Cut to any shorter prefix and Zero-fill at any "
                "moment) is model-checked exhaustively within bounds; on the real code EVERY byte prefix 0..size-1 and a "
                "zero-filled copy of real cache files replaces the file and the directory is requested again per "
                "protocol; TLC validates each history against TraceC10 (Answered, Faithful, Harmless). Crash points are "
                "enumerated completely for the sampled directories; the same is done for the ZIP index cache files and for "
                "a writer that dies after n bytes while rewriting an expired cache. Schedules: spec/MC_Race.tla with the "
                "schedule in the state yields EVERY complete interleaving of two requests that meet a damaged, absent, "
                "complete or seen-too-early cache file; each is replayed on real handler threads (worker processes) and "
                "judged by TraceC14.",
        "note": "Trusted: TLC; harness/cachelib.py lexers; abstraction of a byte prefix to 'fewer than Full chunks'; the "
                "cooperative scheduler of harness/c14.py (yield points: stat, open, read after open, mapping, listdir, "
                "write pieces, unlink/rename on the cache path).",
    },
    "C19": {
        "text": "Exhaustive TLC model check of the start-up state machine (spec/Startup.tla, MC_C19: all 16 "
                "chroot/setuid/setgid/TLS combinations plus an unreadable usechroot value x started by root or by an "
                "ordinary account x started from elsewhere / a look-alike sibling of the root / inside the root x every "
                "failing call incl. the account look-ups, OS permission model; configured accounts numbered 0 too) AND every "
                "initial state replayed into the real initialization.initialize() under recording substitutes, plus "
                "every call the real code made failing in turn; TLC validates each recorded call sequence against "
                "the same actions and evaluates every clause (BindFirst, ChrootFirst, GroupsBeforeGid, GidBeforeUid, "
                "ChrootComplete, FullyDropped, FailAborts, GarbledAborts) in every state. The configuration space is finite and "
                "fully enumerated, so this is the right level.",
        "note": "Trusted: TLC; the OS permission model in Startup.tla (root needed for chroot/setgroups/setgid); "
                "the recorder substitutes for os/pwd/grp/ssl/socket/configparser (harness/c19.py), which also emulate the "
                "kernel's refusals for a non-root starter; real uid/gid changes are never performed.",
    },
}
