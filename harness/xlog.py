"""XLOG (growth beyond the listed properties): logging and the administrative side of start-up.

Design model: spec/Logging.tla, bounded by spec/MC_XLOG.tla (two specifications: requests, start-up).
B2 (spec -> code): every initial state of both TLC runs is one case replayed on the REAL code:
  * requests: a World (real server object) whose logger is configured by the real logger.init() for the case's
    method / priority / facility; standard output and syslog.openlog / syslog.syslog are recorders; the requests of
    the case go through World.request one connection after the other (World's log capture list is replaced by a tap
    that records the message and calls the real logger function);
  * start-up: the real initialization.initialize() runs in a forked child with fork / exit / getpid / open of the
    pidfile / privileged calls / bind / sinks recorded (style of harness/c19.py).
B3 (code -> spec): spec/trace/TraceXLOG.tla judges every observation with Logging!ReqVerdict / AdmVerdict.
gamma/alpha are in harness/xlog_lib.py.  No property logic here."""
from __future__ import annotations

import errno
import json
import os
import sys

from harness import core, tlc
from harness import xlog_lib as L
from harness.tlaparse import iter_dump_states

DEFECT_IDS = {"XLOG-record-split": "split", "XLOG-syslog-nul": "nul"}     # known finding id -> model constant


# =========================================================================================================
# sinks
class Sinks:
    """Recorders standing in for standard output and the syslog module."""

    def __init__(self):
        import syslog
        self.ops = []
        self.syslog = syslog
        self.real = (syslog.openlog, syslog.syslog)
        self.buffer = self                      # sys.stdout.buffer
        self.stdout_calls = 0
        self.syslog_calls = 0
        self.pri_names = {getattr(syslog, n): n for n in L.PRIORITIES}
        self.fac_names = {getattr(syslog, n): n for n in L.FACILITIES}

    # -- standard output ------------------------------------------------------------------------------
    def write(self, b):
        self.stdout_calls += 1
        if isinstance(b, str):
            b = b.encode("utf-8", "surrogateescape")
        self.ops.append({"op": "write", "text": L.text_of_bytes(bytes(b)), "pri": "", "fac": ""})
        return len(b)

    def flush(self):
        self.ops.append({"op": "flush", "text": "", "pri": "", "fac": ""})

    def isatty(self):
        return False

    # -- syslog ---------------------------------------------------------------------------------------
    def openlog(self, ident="python", logoption=0, facility=None):
        self.syslog_calls += 1
        facility = self.syslog.LOG_USER if facility is None else facility
        self.ops.append({"op": "openlog", "text": ident, "pri": "LOG_PID" if logoption == self.syslog.LOG_PID else "opt:%r" % (logoption,),
                         "fac": self.fac_names.get(facility, "fac:%r" % (facility,))})

    def syslog_(self, *args):
        self.syslog_calls += 1
        pri, msg = (self.syslog.LOG_INFO, args[0]) if len(args) == 1 else args
        L.syslog_accepts(msg)                   # raises what CPython's syslog.syslog raises
        self.ops.append({"op": "syslog", "text": L.text_of_str(msg), "pri": self.pri_names.get(pri, "pri:%r" % (pri,)), "fac": ""})

    def install(self):
        self.saved_stdout = sys.stdout
        sys.stdout = self
        self.syslog.openlog, self.syslog.syslog = self.openlog, self.syslog_

    def remove(self):
        sys.stdout = self.saved_stdout
        self.syslog.openlog, self.syslog.syslog = self.real

    def take(self):
        ops, self.ops = self.ops, []
        return ops


class Tap(list):
    """World.logbuf: what logger.log is set to during a request.  Records the message, then calls the function
    the real logger.init() selected."""

    def __init__(self):
        super().__init__()
        self.real = None
        self.texts = []

    def append(self, m):
        super().append(m)
        self.texts.append(L.text_of_str(m))
        self.real(m)


# =========================================================================================================
# requests
_W = None
_SINKS = None
_TAP = None
_INJ = None


def _world():
    global _W, _SINKS, _TAP
    if _W is None:
        from harness import world
        _W = world.World(handlers="full", overrides={("pygopherd", "tracebacks"): "no"})
        _SINKS = Sinks()
        _TAP = Tap()
        _W.logbuf = _TAP
    return _W


def _make_file(w, case):
    from harness import envsub
    rel = L.to_bytes(L.sel_text(case, _INJ)).lstrip(b"/")
    path = os.path.join(os.fsencode(w.root), rel)
    os.makedirs(os.path.dirname(path), exist_ok=True)
    with envsub.REAL["open"](path, "wb") as fp:
        if case["kind"] in L.PYG_RAISES:
            fp.write((L.PYG % L.PYG_RAISES[case["kind"]]).encode())
        else:
            fp.write(b"hello\n")
    os.chmod(path, 0o755 if case["kind"] in L.PYG_RAISES else 0o644)


def creatable(case):
    s = L.sel_text(case, _INJ)
    return L.NUL not in s and len(s) < 200


def run_requests(item):
    """One MC_XLOG initial state (logger configuration, sequence of requests) on the real code."""
    lg, reqs = item["lg"], item["reqs"]
    from harness import world
    from pygopherd import logger
    w = _world()
    w.config.set("logger", "logmethod", lg["method"])
    w.config.set("logger", "priority", lg["pri"] or "LOG_INFO")
    w.config.set("logger", "facility", lg["fac"] or "LOG_LOCAL3")
    events = []
    _SINKS.take()
    _SINKS.install()
    try:
        logger.init(w.config)                       # the REAL method selection
        _TAP.real = logger.log
        events.append({"ev": "init", "ops": _SINKS.take()})
        for i, case in enumerate(reqs, 1):
            w.clear()
            if case["kind"] != "missing":
                _make_file(w, case)
            data, tls = L.wire(case, _INJ)
            world.CLIENT = (case["addr"], 7777)
            del _TAP.texts[:]
            kw = {}
            if case["kind"] == "wfail":
                kw = dict(fail_at=1, fail_exc=lambda: BrokenPipeError(errno.EPIPE, "Broken pipe"))
            res = w.request(data, tls=tls, **kw)
            events.append({"ev": "req", "i": i, "calls": list(_TAP.texts), "ops": _SINKS.take(), "esc": res.escaped is not None,
                           "escaped": res.escaped, "reply": res.out[:80].decode("latin-1")})
    finally:
        _SINKS.remove()
        world.CLIENT = (L.ADDR1, 7777)
        w.clear()
    return {"events": events, "stdout_calls": _SINKS.stdout_calls, "syslog_calls": _SINKS.syslog_calls}


def _pool_init():
    pass


def pool_map(fn, items, timeout=900):
    """Fork pool with a hard timeout; exceptions in a task come back as ("err", traceback)."""
    import multiprocessing as mp
    procs = min(int(os.environ.get("VERIF_PROCS") or 8), max(1, len(items)))
    if procs <= 1 or len(items) < 16:
        return [_guard((fn, it)) for it in items]
    ctx = mp.get_context("fork")
    with ctx.Pool(procs, initializer=_pool_init) as pool:
        return pool.map_async(_guard, [(fn, it) for it in items], chunksize=max(1, len(items) // (procs * 8))).get(timeout)


def _guard(a):
    fn, it = a
    try:
        return ("ok", fn(it))
    except BaseException:      # noqa: reported by the parent as machinery failure
        import traceback
        return ("err", traceback.format_exc())


def _unwrap(results, what):
    out = []
    for r in results:
        if r[0] != "ok":
            raise core.MachineryError("XLOG: %s failed:\n%s" % (what, r[1]))
        out.append(r[1])
    return out


def req_case_fields(lg, case):
    """Fields of the abstract case that known-finding matchers may refer to."""
    s = L.sel_text(case, _INJ)
    raw = case["frame"] in ("g", "gp", "tg")
    received = s.split("\n")[0] if raw else s
    return {"part": "req", "method": lg["method"], "frame": case["frame"], "kind": case["kind"], "inj": case["inj"],
            "where": case["where"], "lf_in_selector": "\n" in received, "nul_in_selector": L.NUL in received}


# =========================================================================================================
def _models(chk, defects):
    """Model-check both specifications; return (results, request cases, start-up cases)."""
    consts = L.consts_module(chk.tier, defects)
    extra = {"MC_XLOG_consts.tla": consts}
    out = {}
    req_cases, adm_cases = [], []
    for name, cfg in (("req", "MC_XLOG.cfg"), ("adm", "MC_XLOG_adm.cfg")):
        res = tlc.check_model("MC_XLOG", cfg, dump=True, coverage=True, extra_files=extra, timeout=1500)
        try:
            if res["inv_violations"]:
                chk.model_violation("MC_XLOG/" + cfg, res["inv_violations"], res["out"][-2500:])
            wanted = {"step", "lg", "reqs"} if name == "req" else {"step", "a", "role", "fault"}
            for st in iter_dump_states(res["dump"], wanted=wanted):
                if st.get("step") != 0:
                    continue
                if name == "req":
                    req_cases.append({"lg": dict(st["lg"]), "reqs": [dict(c) for c in st["reqs"]]})
                else:
                    adm_cases.append({"a": dict(st["a"]), "role": st["role"], "fault": st["fault"]})
        finally:
            tlc.cleanup(res)
        out[name] = res
    req_cases.sort(key=lambda c: json.dumps(c, sort_keys=True))
    adm_cases.sort(key=lambda c: json.dumps(c, sort_keys=True))
    return out, extra, req_cases, adm_cases


def _req_id(item, i):
    lg = item["lg"]
    cs = " ; ".join("%s/%s/%s/%s@%s" % (c["frame"], c["kind"], c["inj"], c["where"], c["addr"]) for c in item["reqs"])
    return "req %s%s :: %s #%d" % (lg["method"], ("(%s,%s)" % (lg["pri"], lg["fac"])) if lg["method"] == "syslog" else "", cs, i)


def _adm_id(c):
    a = c["a"]
    flags = "".join(k[0] if a[k] else "-" for k in ("detach", "pidfile", "mime", "drop", "chroot"))
    return "adm %s%s %s role=%s fault=%s" % (a["method"], ("(%s,%s)" % (a["pri"], a["fac"])) if a["method"] == "syslog" else "",
                                               flags, c["role"], c["fault"])


def _validate(traces, extra):
    """TraceXLOG over slices in parallel JVMs (trace validation is single-worker)."""
    from concurrent.futures import ThreadPoolExecutor
    n = max(1, min(int(os.environ.get("VERIF_TLC_WORKERS") or 6), (len(traces) + 799) // 800))
    size = (len(traces) + n - 1) // n
    slices = [(o, traces[o:o + size]) for o in range(0, len(traces), size)]

    def one(sl):
        off, part = sl
        tv = tlc.validate_traces("TraceXLOG", "TraceXLOG.cfg", [{"id": t["id"], "init": t["init"], "events": t["events"]} for t in part],
                                 extra_files=extra, timeout=1500)
        for rj in tv["rejected"]:
            rj["index"] += off
        for d in tv["drift"]:
            d["index"] += off
        return tv
    with ThreadPoolExecutor(n) as ex:
        parts = list(ex.map(one, slices))
    tv = {"accepted": sum(p["accepted"] for p in parts), "rejected": [r for p in parts for r in p["rejected"]],
          "drift": [d for p in parts for d in p["drift"]], "states": sum(p["states"] for p in parts),
          "generated": sum(p["generated"] for p in parts), "cmd": parts[0]["cmd"] if parts else ""}
    return tv


def _strip(ev):
    """Only the fields the trace specification reads."""
    if ev["ev"] == "req":
        return {k: ev[k] for k in ("ev", "i", "calls", "ops", "esc")}
    return ev


def main(chk, replay=None):
    global _INJ
    from harness import xlog_adm
    _INJ = L.inj_table(chk.tier)
    L.selftest_syslog()
    defects = sorted({DEFECT_IDS[f["id"]] for f in chk.known if f.get("id") in DEFECT_IDS})
    models, extra, req_cases, adm_cases = _models(chk, defects)
    if replay:
        with open(replay) as fp:
            rp = json.load(fp)
        c = rp["case"]
        if c.get("part") == "adm":
            req_cases, adm_cases = [], [c["abstract"]]
        else:
            req_cases, adm_cases = [c["abstract"]], []
    # ---- spec -> code
    req_obs = _unwrap(pool_map(run_requests, req_cases), "a request case")
    adm_obs = _unwrap(pool_map(xlog_adm.run_case, adm_cases), "a start-up case")
    traces = []
    for item, ob in zip(req_cases, req_obs):
        for i in range(1, len(item["reqs"]) + 1):
            traces.append({"id": _req_id(item, i), "init": {"part": "req", "lg": item["lg"], "reqs": item["reqs"]},
                           "events": [_strip(ob["events"][0]), _strip(ob["events"][i])], "abstract": item, "focus": i,
                           "detail": ob["events"][i]})
    for c, ob in zip(adm_cases, adm_obs):
        traces.append({"id": _adm_id(c), "init": {"part": "adm", "a": c["a"], "role": c["role"], "fault": c["fault"]},
                       "events": [{"ev": "end", "ob": ob["ob"]}], "abstract": c, "focus": 0, "detail": ob})
    # ---- vacuity guards: the substitutes must have been exercised
    if not replay:
        if sum(o["stdout_calls"] for o in req_obs) == 0 or sum(o["syslog_calls"] for o in req_obs) == 0:
            raise core.MachineryError("XLOG: the standard-output or the syslog recorder was never called by a request")
        if not any(e["esc"] is False and e["calls"] for o in req_obs for e in o["events"][1:]):
            raise core.MachineryError("XLOG: no request produced a log call")
        if not any(o["ob"]["forks"] for o in adm_obs) or not any(o["ob"]["pidopens"] for o in adm_obs) \
                or not any(o["ob"]["pc"] == "serving" for o in adm_obs):
            raise core.MachineryError("XLOG: fork / pidfile / serving never observed in start-up runs")
    if any(len(t["events"]) == 0 for t in traces):
        raise core.MachineryError("XLOG: empty trace")
    # ---- code -> spec
    tv = _validate(traces, extra)
    for rj in tv["rejected"]:
        t = traces[rj["index"]]
        if t["init"]["part"] == "req":
            case = req_case_fields(t["init"]["lg"], t["init"]["reqs"][t["focus"] - 1])
        else:
            case = {"part": "adm", "method": t["init"]["a"]["method"], "role": t["init"]["role"], "fault": t["init"]["fault"]}
            case.update({k: t["init"]["a"][k] for k in ("detach", "pidfile", "mime", "drop", "chroot")})
        case["abstract"] = t["abstract"]
        chk.violation("%s:%s" % (t["id"], rj["clause"]), rj["clause"], case, {"observed": t["detail"], "rejected_at_event": rj["at"]})
    chk.note_drift(tv["drift"])
    if defects and not replay:
        stale = [d for d in defects if not any(DEFECT_IDS.get(fid) == d for fid in chk.known_seen)]
        if stale:
            print("NOTE XLOG: recorded defect(s) %s not re-observed (fixed? remove the known-finding entry)" % stale)
    nontrivial = len({json.dumps([t["init"], t["events"]], sort_keys=True) for t in traces
                      if (t["init"]["part"] == "adm") or t["events"][1]["ops"]})
    zero = sorted(k for m in models.values() for k, v in m.get("coverage", {}).items() if v[0] == 0 and k.startswith("Do"))
    cov = {
        "states": sum(m["distinct"] for m in models.values()), "transitions": sum(m["generated"] for m in models.values()),
        "exhaustive": True, "traces_validated_against_impl": tv["accepted"], "traces_rejected": len(tv["rejected"]),
        "evaluations": len(traces), "request_cases": len(req_cases), "startup_cases": len(adm_cases),
        "distinct_nontrivial": nontrivial,
        "rule": "cases = every initial state of MC_XLOG (SpecReq: logger configuration x request sequence; SpecAdm: start-up "
                "configuration x side of the fork x failing pidfile open); one trace per request of a sequence / per start-up run; "
                "non-trivial = distinct observation in which something reached a sink (request side) or any start-up run",
        "samples": [{"id": t["id"], "events": t["events"]} for t in (traces[:1] + traces[len(traces) // 2:len(traces) // 2 + 1] + traces[-1:])],
        "checker_cmd": " ; ".join(m["cmd"] for m in models.values()) + " ; " + tv["cmd"],
        "trace_states": tv["states"], "defects_in_model": defects, "stage_actions_never_taken": zero,
        "bindings": ["B2 spec->code: every TLC initial state replayed through World.request / a forked initialize()",
                     "B3 code->spec: TraceXLOG (ReqVerdict / AdmVerdict)"],
    }
    return chk.finish(cov, [
        "sys.stdout and syslog.openlog/syslog.syslog are recorders; the syslog recorder raises what CPython's syslog.syslog raises "
        "(lone surrogate: UnicodeEncodeError, NUL: ValueError; compared with the real function at every run)",
        "one connection at a time (records of concurrent connections interleave by design); client address is the one handed to the handler",
        "start-up runs in a forked child with an emulated root identity (style of C19): fork/exit/getpid/open(pidfile)/privileged calls recorded, "
        "never performed; both sides of the fork are followed in separate runs",
        "a log LINE ends at LF (the terminator logger.log_file itself appends); CR inside a record is modelled but not judged",
    ])


# =========================================================================================================
def selftest():
    """Binding demonstration: a recorded trace is accepted; the same trace with one field corrupted / one event
    dropped is rejected by TraceXLOG."""
    global _INJ
    import copy
    _INJ = L.inj_table("quick")
    extra = {"MC_XLOG_consts.tla": L.consts_module("quick", [])}
    item = {"lg": {"method": "file", "pri": "", "fac": ""},
            "reqs": [{"frame": "h", "kind": "served", "inj": "BAD", "where": "path", "addr": L.ADDR1}]}
    ob = run_requests(item)
    good = {"id": "good", "init": {"part": "req", "lg": item["lg"], "reqs": item["reqs"]}, "events": [_strip(e) for e in ob["events"]]}
    bad1 = copy.deepcopy(good)
    bad1["id"] = "wrong address recorded"
    bad1["events"][1]["ops"][0]["text"] = bad1["events"][1]["ops"][0]["text"].replace(L.ADDR1, "10.0.0.1")
    bad2 = copy.deepcopy(good)
    bad2["id"] = "flush dropped"
    bad2["events"][1]["ops"] = [o for o in bad2["events"][1]["ops"] if o["op"] != "flush"]
    bad3 = copy.deepcopy(good)
    bad3["id"] = "request event dropped"
    del bad3["events"][1]
    tv = tlc.validate_traces("TraceXLOG", "TraceXLOG.cfg", [good, bad1, bad2, bad3], extra_files=extra, timeout=300)
    got = {r["trace"]["id"]: r["clause"] for r in tv["rejected"]}
    print("accepted=%d rejected=%s" % (tv["accepted"], got))
    return tv["accepted"] == 1 and set(got) == {"wrong address recorded", "flush dropped", "request event dropped"}


if __name__ == "__main__":
    sys.exit(0 if selftest() else 1)
