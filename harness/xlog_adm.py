"""XLOG, administrative side of start-up: the REAL pygopherd.initialization.initialize() in a forked child with its
environment substituted by recorders (style of harness/c19.py, which is not touched).  gamma: abstract start-up
configuration -> a configuration file, which side of the fork to follow, which call to fail.  alpha: recorded calls
-> the observation record judged by Logging!AdmVerdict.  No property logic here."""
from __future__ import annotations

import configparser
import json
import os
import shutil
import tempfile

from harness import core, tlc
from harness import xlog_lib as L

UID, GID = 4242, 4343
STARTER, CHILD, PGRP = 4000, 5555, 777


def _write_config(repo, scratch, a):
    cp = configparser.ConfigParser()
    cp.read(os.path.join(repo, "conf", "pygopherd.conf"))
    docroot = os.path.join(scratch, "docroot")
    os.makedirs(docroot, exist_ok=True)
    os.makedirs(os.path.join(scratch, "run"), exist_ok=True)
    s = "pygopherd"
    cp.set(s, "root", docroot)
    cp.set(s, "port", "0")
    cp.set(s, "servername", "localhost")
    cp.set(s, "servertype", "ThreadingTCPServer")
    cp.set(s, "tracebacks", "no")
    cp.set(s, "enable_tls", "no")
    cp.set(s, "detach", "yes" if a["detach"] else "no")
    pidfile = os.path.join(scratch, "run", "pygopherd.pid")
    cp.remove_option(s, "pidfile")
    if a["pidfile"]:
        cp.set(s, "pidfile", pidfile)
    real_mime = os.path.join(repo, "conf", "mime.types")
    cp.set(s, "mimetypes", (os.path.join(scratch, "nothere.types") + ":" + real_mime) if a["mime"]
           else (os.path.join(scratch, "nothere.types") + ":" + os.path.join(scratch, "alsonot.types")))
    cp.set(s, "usechroot", "yes" if a["chroot"] else "no")
    for opt, val in (("setuid", "gopheruser"), ("setgid", "gophergroup")):
        cp.remove_option(s, opt)
        if a["drop"]:
            cp.set(s, opt, val)
    cp.set("logger", "logmethod", a["method"])
    cp.set("logger", "priority", a["pri"] or "LOG_INFO")
    cp.set("logger", "facility", a["fac"] or "LOG_LOCAL3")
    path = os.path.join(scratch, "pygopherd.conf")
    with open(path, "w") as fp:
        cp.write(fp)
    return path, pidfile


def _child(conf_path, pidfile, role, fault, wfd):
    import builtins
    import errno
    import grp
    import pwd
    import signal
    import socket
    import sys

    from harness.xlog import Sinks

    sim = {"pid": STARTER, "uid": 0, "gid": 0, "chrooted": False, "forks": 0, "forked_parent": False, "after": 0,
           "bound": False, "pidopens": 0, "pidpriv": True, "exit": -1}
    calls = []
    pids = {STARTER: "starter", CHILD: "child"}

    def priv():
        return sim["uid"] == 0 and sim["gid"] == 0 and not sim["chrooted"]

    def acted():                      # something other than logging / exiting done by the parent after the fork
        if sim["forked_parent"]:
            sim["after"] += 1

    def fork():
        sim["forks"] += 1
        if role == "parent":
            sim["forked_parent"] = True
            return CHILD
        sim["pid"] = CHILD
        return 0

    class Exit(SystemExit):
        pass

    def exit_(code=0):
        sim["exit"] = code if isinstance(code, int) else 1
        raise Exit(code)

    os.fork = fork
    os.getpid = lambda: sim["pid"]
    os._exit = exit_
    sys.exit = exit_
    os.geteuid = os.getuid = lambda: sim["uid"]
    os.getegid = os.getgid = lambda: sim["gid"]
    os.setpgrp = lambda: acted()
    os.getpgrp = lambda: PGRP
    os.setsid = lambda: acted()
    signal.signal = lambda *a, **k: None

    def chroot(path):
        acted()
        sim["chrooted"] = True

    def setgid_like(g):
        acted()
        sim["gid"] = g

    def setuid_like(u):
        acted()
        sim["uid"] = u

    os.chroot = chroot
    os.chdir = lambda p: acted()
    os.setgroups = lambda g: acted()
    os.initgroups = lambda u, g: acted()
    os.setregid = lambda r, e: setgid_like(e)
    os.setgid = setgid_like
    os.setresgid = lambda r, e, s: setgid_like(e)
    os.setegid = setgid_like
    os.setreuid = lambda r, e: setuid_like(e)
    os.setuid = setuid_like
    os.setresuid = lambda r, e, s: setuid_like(e)
    os.seteuid = setuid_like
    pwd.getpwnam = lambda n: pwd.struct_passwd((n, "x", UID, UID, "", "/", "/bin/false"))
    grp.getgrnam = lambda n: grp.struct_group((n, "x", GID, []))

    real_bind = socket.socket.bind

    def bind(self, addr):
        acted()
        sim["bound"] = True
        return real_bind(self, addr)

    socket.socket.bind = bind

    real_open = builtins.open

    def open_(file, mode="r", *a, **k):
        if isinstance(file, (str, bytes)) and os.fsdecode(file) == pidfile:
            acted()
            sim["pidopens"] += 1
            sim["pidpriv"] = priv()
            if fault == "pidopen":
                raise PermissionError(errno.EACCES, "injected: Permission denied", pidfile)
        return real_open(file, mode, *a, **k)

    builtins.open = open_
    import io
    io.open = open_

    out = {}
    try:
        from pygopherd import initialization, logger
        core.assert_repo_bound()
        sinks = Sinks()
        for name in ("log_file", "log_syslog", "log_none"):          # count the log calls whichever method init selects
            def wrap(real):
                def f(message):
                    calls.append(L.adm_text(L.text_of_str(message), pids))
                    return real(message)
                return f
            setattr(logger, name, wrap(getattr(logger, name)))
        sinks.install()
        server = None
        pc, exc = "serving", None
        try:
            server = initialization.initialize(conf_path)
        except Exit:
            pc = "exited"
        except BaseException as e:        # noqa: start-up raised
            pc, exc = "aborted", type(e).__name__ + ": " + str(e)[:200]
        finally:
            sinks.remove()
        if server is not None:
            try:
                server.server_close()
            except Exception:
                pass
        ops = []
        for o in sinks.ops:
            t = o["text"]
            if o["op"] == "write" and t.endswith("\n"):
                t = L.adm_text(t[:-1], pids) + "\n"
            elif o["op"] in ("write", "syslog"):
                t = L.adm_text(t, pids)
            ops.append(dict(o, text=t))
        pidtext = ""
        if os.path.exists(pidfile):
            with real_open(pidfile, "rb") as fp:
                pidtext = L.adm_text(L.text_of_bytes(fp.read()), pids)
        out = {"ob": {"pc": pc, "self": pids[sim["pid"]], "forks": sim["forks"], "exit": sim["exit"], "bound": sim["bound"],
                      "pidopens": sim["pidopens"], "pidpriv": sim["pidpriv"], "pidtext": pidtext, "calls": calls, "sink": ops,
                      "after": sim["after"]},
               "exc": exc}
    except BaseException as e:
        import traceback
        out = {"machinery": repr(e) + "\n" + traceback.format_exc()}
    os.write(wfd, json.dumps(out).encode())
    real_exit(0)


real_exit = os._exit


def run_case(c):
    repo = core.REPO
    scratch = tempfile.mkdtemp(prefix="verif-xlog-", dir=tlc.scratch_root())
    try:
        conf_path, pidfile = _write_config(repo, scratch, c["a"])
        r, w = os.pipe()
        pid = os.fork()
        if pid == 0:
            os.close(r)
            try:
                _child(conf_path, pidfile, c["role"], c["fault"], w)
            finally:
                real_exit(3)
        os.close(w)
        data = b""
        while True:
            b = os.read(r, 65536)
            if not b:
                break
            data += b
        os.close(r)
        os.waitpid(pid, 0)
        if not data:
            raise core.MachineryError("XLOG start-up child produced no output for %r" % (c,))
        out = json.loads(data)
        if out.get("machinery"):
            raise core.MachineryError("XLOG start-up child failed: %s" % out["machinery"])
        return out
    finally:
        shutil.rmtree(scratch, ignore_errors=True)
