"""Shared gamma/alpha for C03 and C20 (connection lifecycle): the well-formed content tree, a client
connection whose write side is a real descriptor (so CompressedFileHandler / ExecHandler can hand it
to a subprocess) and can be made to fail at the k-th write, response lexers (bytes -> frames), log
record abstraction, environment-operation counting, descriptor snapshots.  NO property logic: every
judgement is in spec/Grammar.tla / spec/Server.tla through the trace specifications."""
from __future__ import annotations

import builtins
import gc
import gzip
import hashlib
import io
import os
import re
import shutil
import sys
import zipfile

from harness import core, envsub
from harness import world as W

NUL_PLACEHOLDER = "~"          # the TLA+ models write NUL as "~" (TLA+ has no NUL escape)

MBOX = (b"From alice@example.com Mon Jan  1 00:00:00 2001\nFrom: alice@example.com\nSubject: first message\n\n"
        b"body one\n\nFrom bob@example.com Tue Jan  2 00:00:00 2001\nFrom: bob@example.com\nSubject: second message\n\n"
        b"body two\n\n")
PYG = (b"from pygopherd.handlers.pyg import PYGBase\nfrom pygopherd import gopherentry\n\n\n"
       b"class PYGMain(PYGBase):\n    def canhandlerequest(self):\n        return True\n\n"
       b"    def getentry(self):\n        e = gopherentry.GopherEntry(self.selector, self.config)\n"
       b"        e.settype('0')\n        e.setname('pyg document')\n        e.setmimetype('text/plain')\n"
       b"        e.setgopherpsupport(0)\n        return e\n\n    def isdir(self):\n        return False\n\n"
       b"    def write(self, wfile):\n        wfile.write(b'pyg output\\n')\n")
FIXED_MTIME = 1_000_000_000


def _zip_bytes():
    z = io.BytesIO()
    with zipfile.ZipFile(z, "w") as zf:
        for name, data in (("top.txt", "top of the archive\n"), ("sub/inner.txt", "inner member\n")):
            zi = zipfile.ZipInfo(name, date_time=(2001, 1, 1, 0, 0, 0))
            zi.external_attr = 0o644 << 16
            zf.writestr(zi, data)
    return z.getvalue()


# path -> (kind, content, mode).  kinds are the node kinds of spec/Server.tla (constant Tree0)
def tree_spec(big=0):
    t = {
        "about.txt": ("file", b"hello world\n", None),
        "big.txt": ("file", b"0123456789abcdef" * (big or 600), None),          # several 4096-byte blocks
        "d/a.txt": ("file", b"aaa\n", None),
        "d/b.txt": ("file", b"bbb\n", None),
        "d/sub/c.txt": ("file", b"ccc\n", None),
        # boundary-valued content inside a directory whose listing gets cached: a 0-byte file (size 0), an empty
        # abstract, a link-file entry with port 0 (falsy values that must survive the cache round trip)
        "d/empty.txt": ("file", b"", None),
        "d/a.txt.abstract": ("file", b"", None),
        "d/.Links": ("file", b"Name=Zero port\nType=1\nPath=/zero\nHost=example.org\nPort=0\n\n", None),
        "gm/gophermap": ("file", b"Welcome to the map\n0About\t/about.txt\n1Dir\t/d\n", None),
        "gm/x.txt": ("file", b"x\n", None),
        "umn/.Links": ("file", b"Name=Link to about\nType=0\nPath=/about.txt\n\n"
                             b"Type=0\nPath=/d/a.txt\n\n", None),          # ... and a block that names no title
        "umn/f.txt": ("file", b"f\n", None),
        "m.mbox": ("mbox", MBOX, None),
        "md/new/1000.1.host": ("file", b"From: carol@example.com\nSubject: maildir one\n\nhi\n", None),
        "md/cur/1001.2.host:2,S": ("file", b"From: dave@example.com\nSubject: maildir two\n\nho\n", None),
        "md/tmp/.keep": ("file", b"k\n", None),
        "z.zip": ("zip", _zip_bytes(), None),
        "page.html": ("html", b"<html><head><title>My Page</title></head><body>x</body></html>\n", None),
        "t.txt.gz": ("gz", gzip.compress(b"compressed text\n", mtime=0), None),
        # compressed documents whose DEcompressed sizes straddle the copy-buffer (64 KiB) and copy-buffer + pipe
        # (128 KiB) boundaries: what a relaying CompressedFileHandler holds in flight when a client write fails
        "gz/k60.txt.gz": ("gz", gzip.compress(b"0123456789abcde\n" * 3840, mtime=0), None),
        "gz/k70.txt.gz": ("gz", gzip.compress(b"0123456789abcde\n" * 4480, mtime=0), None),
        "gz/k130.txt.gz": ("gz", gzip.compress(b"0123456789abcde\n" * 8320, mtime=0), None),
        "gz/k200.txt.gz": ("gz", gzip.compress(b"0123456789abcde\n" * 12800, mtime=0), None),
        "run.sh": ("exe", b"#!/bin/sh\necho \"script output [$SEARCHREQUEST] [$QUERY_STRING]\"\n", 0o755),   # shows what the gateway passed
        "p.pyg": ("pyg", PYG, 0o755),
    }
    return t


# selector -> node kind, as handed to the TLA+ models (B1: the model is told the tree that was built)
def tree_kinds(handlers):
    k = {"/": "dir", "/gz": "dir", "/d": "dir", "/d/sub": "dir", "/gm": "gmapdir", "/umn": "dir", "/md": "maildir",
         "/md/new": "dir", "/md/cur": "dir", "/md/tmp": "dir"}
    for p, (kind, _c, _m) in tree_spec().items():
        k["/" + p] = kind
    if handlers == "full":
        k["/z.zip/sub"] = "zdir"
        k["/z.zip/top.txt"] = "zfile"
        k["/z.zip/sub/inner.txt"] = "zfile"
    return k


MAILCOUNT = {"/m.mbox": 2, "/md": 2}


def build_tree(w: "W.World"):
    w.clear()
    for p, (_kind, content, mode) in tree_spec().items():
        w.write(p, content, mode=mode, mtime=FIXED_MTIME)
    for d, _sub, _f in os.walk(w.root):
        os.utime(d, (FIXED_MTIME, FIXED_MTIME))


def manifest(root):
    out = set()
    for d, subs, files in os.walk(root):
        for n in subs + files:
            out.add(os.path.relpath(os.path.join(d, n), root))
    return out


def remove_artefacts(root, keep):
    """Delete whatever serving left behind in the tree (directory caches, zip index caches,
    __pycache__); returns the relative paths removed (observed, never presumed)."""
    gone = []
    for rel in sorted(manifest(root) - keep, key=lambda s: -len(s)):
        p = os.path.join(root, rel)
        if os.path.isdir(p) and not os.path.islink(p):
            shutil.rmtree(p, ignore_errors=True)
        elif os.path.lexists(p):
            os.unlink(p)
        gone.append(rel)
    for d, _s, _f in os.walk(root):
        os.utime(d, (FIXED_MTIME, FIXED_MTIME))
    return sorted(gone)


# ---- the client connection ----------------------------------------------------------------------
class FdWriter(io.RawIOBase):
    """wfile backed by a memfd: has a real fileno() (subprocess stdout), survives close(), counts
    write() calls and makes the k-th and every later one raise (the connection is dead)."""

    def __init__(self, fail_at=None, fail_exc=None, on_fail=None):
        super().__init__()
        self.fd = os.memfd_create("verif-wfile")
        self.writes = 0
        self.failed = 0
        self.fail_at, self.fail_exc, self.on_fail = fail_at, fail_exc, on_fail
        self.final = None

    def writable(self):
        return True

    def fileno(self):
        return self.fd

    def write(self, b):
        self.writes += 1
        if self.fail_at is not None and self.writes >= self.fail_at:
            self.failed += 1
            if self.on_fail:
                self.on_fail(self.writes)
            raise self.fail_exc()
        b = bytes(b)
        os.lseek(self.fd, 0, os.SEEK_END)
        n = 0
        while n < len(b):
            n += os.write(self.fd, b[n:])
        return len(b)

    def flush(self):
        pass

    def value(self):
        if self.final is None:
            size = os.lseek(self.fd, 0, os.SEEK_END)
            os.lseek(self.fd, 0, os.SEEK_SET)
            out = b""
            while len(out) < size:
                chunk = os.read(self.fd, size - len(out))
                if not chunk:
                    break
                out += chunk
            self.final = out
        return self.final

    def close(self):
        if self.fd is not None:
            self.value()
            os.close(self.fd)
            self.fd = None
        super().close()


class Obs:
    __slots__ = ("out", "log", "escaped", "writes", "fail_marks", "ops", "fds_leaked", "reads_left", "children_left")


def open_fds():
    """Descriptors open right now.  Reading the table itself uses transient descriptors (the
    directory, and a duplicate made by listdir), which show up in the listing: every entry is
    therefore confirmed by readlink AFTER those are closed, so a descriptor leaked into one of their
    slots is neither hidden nor invented."""
    try:
        d = os.open("/proc/self/fd", os.O_RDONLY | os.O_DIRECTORY)
    except OSError:
        return set()
    try:
        names = set(envsub.REAL["listdir"](d))
    finally:
        os.close(d)
    out = set()
    for n in names:
        try:
            os.readlink("/proc/self/fd/" + n)
            out.add(n)
        except OSError:
            pass
    return out


def child_pids():
    """Child processes of this process that exist right now, running or zombie (pid -> 'state comm')."""
    me = str(os.getpid())
    out = {}
    try:
        tids = envsub.REAL["listdir"]("/proc/self/task")
    except OSError:
        tids = []
    pids = set()
    for t in tids:
        try:
            fd = os.open("/proc/self/task/%s/children" % t, os.O_RDONLY)
            try:
                pids.update(os.read(fd, 65536).split())
            finally:
                os.close(fd)
        except OSError:
            pids = None
            break
    if pids is None:                       # no CONFIG_PROC_CHILDREN: scan the process table
        pids = [p.encode() for p in envsub.REAL["listdir"]("/proc") if p.isdigit()]
    for p in pids:
        p = p.decode()
        try:
            fd = os.open("/proc/%s/stat" % p, os.O_RDONLY)
            try:
                st = os.read(fd, 4096).decode("latin-1")
            finally:
                os.close(fd)
        except OSError:
            continue
        comm = st[st.find("(") + 1:st.rfind(")")]
        rest = st[st.rfind(")") + 2:].split()
        if len(rest) > 1 and rest[1] == me:
            out[int(p)] = "%s %s" % (rest[0], comm)
    return out


def fd_targets(fds):
    out = []
    for f in sorted(fds, key=int):
        try:
            out.append(os.readlink("/proc/self/fd/" + f))
        except OSError:
            pass                       # the descriptor used to list the directory itself
    return out


def serve(w: "W.World", data: bytes, tls=False, fail_at=None, fail_exc=None, count_fds=False) -> Obs:
    """One connection through the REAL GopherRequestHandler (as World.request, with an fd-backed
    wfile).  Records: bytes written, log lines, class that left handle(), number of write() calls,
    log length at each injected failure, environment operations, descriptors still open afterwards."""
    W.logger.log = w.logbuf.append
    del w.logbuf[:]
    marks = []
    rfile = io.BytesIO(data)
    if count_fds:
        gc.collect()
        before = open_fds()
        kids_before = child_pids()
    wfile = FdWriter(fail_at, fail_exc, on_fail=lambda n: marks.append((n, len(w.logbuf))))
    req = (W.MockSSLRequest if tls else W.MockRequest)(rfile, wfile)
    e0 = (envsub.ENV.stat_calls, envsub.ENV.listdir_calls, envsub.ENV.open_calls)
    escaped = None
    saved = sys.stderr
    sys.stderr = io.StringIO()
    h = None
    try:
        h = W._Handler(req, W.CLIENT, w.server)
        try:
            h.handle()
        except BaseException as e:          # noqa: left the connection handler
            escaped = type(e).__name__
        finally:
            try:
                h.finish()
            except BaseException as e:      # noqa
                if escaped is None and fail_at is None:
                    escaped = "finish:" + type(e).__name__
    finally:
        sys.stderr = saved
    o = Obs()
    o.out = wfile.value()
    wfile.close()
    o.log = list(w.logbuf)
    o.escaped = escaped
    o.writes = wfile.writes
    o.fail_marks = marks
    o.ops = ((envsub.ENV.stat_calls - e0[0]) + (envsub.ENV.listdir_calls - e0[1]) + (envsub.ENV.open_calls - e0[2])
             + wfile.writes + 1)
    o.reads_left = len(data) - rfile.tell() if not rfile.closed else 0
    o.fds_leaked = []
    o.children_left = []
    if count_fds:
        del h, req, rfile
        gc.collect()
        o.fds_leaked = fd_targets(open_fds() - before)
        kids = child_pids()
        o.children_left = ["%d %s" % (p, kids[p]) for p in sorted(kids) if p not in kids_before]
        for p in kids:                      # observed; do not let stuck children pile up in the worker
            if p not in kids_before:
                try:
                    os.kill(p, 9)
                except OSError:
                    pass
    return o


def detect(w: "W.World", data: bytes, tls=False):
    """The protocol class the REAL ProtocolMultiplexer selects for these bytes (on a throw-away
    connection object), or ('none', class of the exception it raised)."""
    from pygopherd.protocols import ProtocolMultiplexer
    rfile = io.BytesIO(data)
    wfile = io.BytesIO()
    req = (W.MockSSLRequest if tls else W.MockRequest)(rfile, wfile)
    h = W._Handler(req, W.CLIENT, w.server)
    line = rfile.readline().decode(errors="surrogateescape")
    try:
        p = ProtocolMultiplexer.getProtocol(line, w.server, h, rfile, wfile, w.config)
    except Exception as e:      # noqa: selection itself raised
        return "none", type(e).__name__
    return (type(p).__name__ if p is not None else "none"), "none"


# ---- alpha: log lines -> records -----------------------------------------------------------------
_EXC = re.compile(r"^(\S+) \[([^/\]]*)/([^\]]*)\] EXCEPTION (\w+): ?(.*)$", re.S)
_SERVED = re.compile(r"^(\S+) \[([^/\]]*)/([^\]]*)\]: (.*)$", re.S)


def exc_family(name: str) -> str:
    """Classification only: FileNotFound (pygopherd's own), the OSError family, anything else."""
    if name == "FileNotFound":
        return "FileNotFound"
    cls = getattr(builtins, name, None)
    if cls is None:
        cls = {"UnsupportedOperation": io.UnsupportedOperation, "timeout": OSError,
               "SSLError": OSError, "BadZipFile": None}.get(name)
    if isinstance(cls, type) and issubclass(cls, OSError):
        return "OSError"
    return "other"


def log_records(lines):
    """-> list of events {ev: 'log'|'served', addr, proto, cls, fam, handler}"""
    out = []
    for l in lines:
        m = _EXC.match(l)
        if m:
            out.append({"ev": "log", "addr": "client" if m.group(1) == W.CLIENT[0] else m.group(1), "proto": m.group(2),
                        "cls": m.group(4), "fam": exc_family(m.group(4)), "handler": m.group(3)})
            continue
        m = _SERVED.match(l)
        if m:
            out.append({"ev": "served", "addr": "client" if m.group(1) == W.CLIENT[0] else m.group(1), "proto": m.group(2),
                        "cls": "none", "fam": "none", "handler": m.group(3)})
        else:
            out.append({"ev": "logline", "addr": "?", "proto": "?", "cls": "none", "fam": "none", "handler": "?"})
    return out


# ---- alpha: response bytes -> frames -------------------------------------------------------------
def _txt(b: bytes) -> str:
    """Bytes of a head line as a TLA+-safe string: TAB, CR, LF and printable ASCII are themselves,
    NUL is the models' placeholder, anything else is '?' ('~' itself becomes '?')."""
    out = []
    for c in b:
        if c in (9, 10, 13) or (32 <= c < 127 and c != 126):
            out.append(chr(c))
        elif c == 0:
            out.append(NUL_PLACEHOLDER)
        else:
            out.append("?")
    return "".join(out)


def _line(b):
    s = _txt(b)
    return {"k": "line", "s": s, "n": len(s)}


def _body(n):
    return {"k": "body", "s": "", "n": n}


FAMILY = {"GopherProtocol": "G", "SecureGopherProtocol": "G", "GopherPlusProtocol": "GP", "SecureGopherPlusProtocol": "GP",
          "URLGopherPlus": "GP", "HTTPProtocol": "H", "HTTPSProtocol": "H", "WAPProtocol": "W", "GeminiProtocol": "GEM",
          "SpartanProtocol": "S"}
MAXLINES = 400


def lex(proto: str, out: bytes):
    """Cut the byte stream into frames for the detected protocol class (see spec/Grammar.tla).
    Cutting only: no frame is ever judged here."""
    fam = FAMILY.get(proto, "none")
    if not out:
        return []
    if fam in ("GP", "GEM", "S"):
        i = out.find(b"\r\n")
        if i < 0:
            return [{"k": "junk", "s": "", "n": len(out)}]
        return [_line(out[:i]), _body(len(out) - i - 2)]
    if fam in ("H", "W"):
        frames = []
        pos = 0
        while True:
            i = out.find(b"\r\n", pos)
            if i < 0:
                frames.append({"k": "junk", "s": "", "n": len(out) - pos})
                return frames
            if i == pos:
                frames.append({"k": "blank", "s": "", "n": 0})
                frames.append(_body(len(out) - i - 2))
                return frames
            frames.append(_line(out[pos:i]))
            pos = i + 2
            if len(frames) > MAXLINES:
                frames.append({"k": "junk", "s": "", "n": len(out) - pos})
                return frames
    # plain Gopher (and undetected): line-structured iff it ends with CRLF and every line holds a TAB
    if out.endswith(b"\r\n"):
        lines = out[:-2].split(b"\r\n")
        if len(lines) <= MAXLINES and all(b"\t" in ln for ln in lines):
            return [_line(ln) for ln in lines]
    return [{"k": "raw", "s": "", "n": len(out)}]


_TS = [re.compile(rb"(?m)^(Last-Modified: )[^\r\n]*"), re.compile(rb"(?m)^( Mod-Date: )[^\r\n]*")]


def digest(out: bytes) -> str:
    """Response identity modulo timestamps: timestamp fields are replaced by a constant (the
    property exempts directory timestamps), then hashed."""
    b = out
    for rx in _TS:
        b = rx.sub(rb"\1TS", b)
    return hashlib.sha1(b).hexdigest()[:16]


def mask_ts(out: bytes) -> bytes:
    b = out
    for rx in _TS:
        b = rx.sub(rb"\1TS", b)
    return b


# ---- gamma: abstract request -> bytes -------------------------------------------------------------
TAILS = {
    "none": b"",
    "blank": b"\r\n",
    "hdrs": b"Host: localhost\r\nUser-Agent: verif\r\n\r\n",
    "hdrs_noblank": b"Host: localhost\r\nUser-Agent: verif\r\n",
    "wap": b"Accept: text/html, text/vnd.wap.wml\r\nX-Wap-Profile: http://example.org/p.xml\r\n\r\n",
    "body5": b"hello",
    "body2of5": b"he",
}


# stand-ins of spec/Server.tla for characters TLA+ sources cannot spell -> the bytes on the wire
STANDINS = {NUL_PLACEHOLDER: b"\x00", "^": "\u00b2".encode(), "`": "\u0663".encode(), "*": "\u00e9".encode()}


def concretise(line: str, tail: str) -> bytes:
    b = line.encode("latin-1")
    for ch, real in STANDINS.items():
        b = b.replace(ch.encode(), real)
    return b + TAILS[tail]


def tla_str(s: str) -> str:
    return '"' + s.replace("\\", "\\\\").replace('"', '\\"').replace("\t", "\\t").replace("\r", "\\r").replace("\n", "\\n") + '"'


def tla_value(v) -> str:
    if isinstance(v, bool):
        return "TRUE" if v else "FALSE"
    if isinstance(v, int):
        return str(v)
    if isinstance(v, str):
        return tla_str(v)
    if isinstance(v, (list, tuple)):
        return "<<" + ", ".join(tla_value(x) for x in v) + ">>"
    if isinstance(v, (set, frozenset)):
        return "{" + ", ".join(tla_value(x) for x in sorted(v)) + "}"
    if isinstance(v, dict):
        if not v:
            return "<<>>"
        return "(" + " @@ ".join("%s :> %s" % (tla_value(k), tla_value(x)) for k, x in sorted(v.items())) + ")"
    raise TypeError(v)


def conf_lists(w: "W.World"):
    """B1: the protocol order and the handler list are data in the configuration."""
    def names(opt_sec, opt):
        raw = w.config.get(opt_sec, opt)
        return [x.strip() for x in raw.strip().strip("[]").replace("\n", " ").split(",") if x.strip()]
    return (names("protocols.ProtocolMultiplexer", "protocols"), names("handlers.HandlerMultiplexer", "handlers"))


def known_defects(chk):
    """Names of the defective steps recorded for this property (known_findings.json / VERIF_KNOWN_EXTRA):
    the design model keeps exactly these steps as coded and weakens its invariants by exactly them."""
    out = set()
    for f in chk.known:
        for d in ([f["model_defect"]] if isinstance(f.get("model_defect"), str) else f.get("model_defect", [])):
            out.add(d)
    return out


_INIT_ERR = [None]


def _safe_init(init_fn):
    # a worker whose initializer raises would be respawned by the pool for ever: keep the worker, fail its first job
    try:
        init_fn()
    except BaseException:      # noqa
        import traceback
        _INIT_ERR[0] = traceback.format_exc()


def _safe_call(arg):
    fn, item = arg
    if _INIT_ERR[0]:
        from harness import core
        raise core.MachineryError("worker initializer failed: " + _INIT_ERR[0][-1500:])
    return fn(item)


def pool_map(fn, items, init_fn, procs=None):
    import functools
    import multiprocessing as mp
    procs = procs or int(os.environ.get("VERIF_PROCS") or 16)
    ctx = mp.get_context("fork")
    if not items:
        return []
    with ctx.Pool(min(procs, max(1, len(items))), initializer=functools.partial(_safe_init, init_fn)) as pool:
        return pool.map(_safe_call, [(fn, it) for it in items], chunksize=max(1, len(items) // (procs * 8) or 1))


def validate_parallel(module, cfg, traces, extra_files=None, timeout=2400, slice_size=600, jobs=None):
    """tlc.validate_traces over slices of the batch in concurrent JVMs (each single-worker, as trace
    validation requires); indexes in the result refer to the whole batch."""
    from concurrent.futures import ThreadPoolExecutor
    from harness import tlc
    jobs = jobs or max(1, int(os.environ.get("VERIF_PROCS") or 12) // 1)
    offs = list(range(0, len(traces), slice_size))
    out = {"accepted": 0, "rejected": [], "states": 0, "generated": 0, "wall_s": 0.0, "cmd": "", "drift": []}
    if not traces:
        return out

    def one(off):
        return off, tlc.validate_traces(module, cfg, traces[off:off + slice_size], extra_files=extra_files,
                                        timeout=timeout, chunk=slice_size)
    with ThreadPoolExecutor(max_workers=min(jobs, len(offs))) as ex:
        for off, tv in ex.map(one, offs):
            out["accepted"] += tv["accepted"]
            out["states"] += tv["states"]
            out["generated"] += tv["generated"]
            out["wall_s"] += tv["wall_s"]
            out["cmd"] = tv["cmd"]
            for r in tv["rejected"]:
                r["index"] += off
                out["rejected"].append(r)
            for d in tv["drift"]:
                d["index"] += off
                out["drift"].append(d)
    return out


assert core  # (imported for REPO binding side effects in world)
