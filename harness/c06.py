"""C06 - the same site is seen through every protocol.

Design model: spec/Views.tla (Canon, ViewOf, SameLinks/SameInfo/SameObject, SearchReaches) on top of
spec/Links.tla, checked by TLC through MC_C06 for every enumerated link entry, search string and content tree x
protocol view, once per advertised port (EntriesAgree, SearchesArrive, TreesAgree, with the named deviations
PlusFlagAmbiguity; DefaultPort70, EmptySelectorHref and FormDecodeReplace were found here and are repaired in /repo).
B2: what TLC enumerated is what the real server is run on: the entries become a UMN .Links file, the trees are
materialised, the search strings are typed into a PYG search item through each protocol's own mechanism.
B3: per site and protocol view a trace (reference observations through plain Gopher, then the same selectors
through the view, with and without trailing slash) is validated by TLC against spec/trace/TraceC06.tla.
No property logic in this file."""
from __future__ import annotations

import json
import os
import random
import re
import time

from harness import core, tlc
from harness.tlaparse import iter_dump_states

ALL_VIEWS = ["G", "GP", "GD", "SG", "SGP", "SGD", "H", "HS", "W", "M", "S"]
TIERS = {
    "quick": dict(local=["a", "a b", "%", "?", "#", "|", "+", "&", "\"", "^", "%41", "a:b"],
                  remote=["/r", "/r s", "r", ""], hosts=["", "other.example", "localhost"], ports=[0, 70, 7070],
                  urls=["URL:http://h.example/p?q=1&r", "/URL:http://h.example/"],
                  stok=["a", " ", "1", "+", "%", "&", "=", "?", "#", "^", "%41"], maxsearch=2,
                  sshapes=["a 1", "a b 1", "/zz 0", "x HTTP/1.0", "GET /zz HTTP/1.0", "gemini://localhost/zz",
                           "{" * 14, "{" * 44], deep=["{{"],
                  ssels=["/echo.pyg", "/echo.pyg?arg", "/e#.pyg", "/e%41.pyg", "/e^.pyg", "/e b.pyg", "echo.pyg"],
                  kinds=["file", "dir", "mbox", "maildir", "mapdir", "zip"], inner=["a b", "^", "?"],
                  views=ALL_VIEWS, hls=["default", "full"], srvports=[70, 7070],
                  cfgs=[("on", "always"), ("off", "unsupported"), ("on", "never")], tree_hl_full=("zip",)),
    "thorough": dict(local=["a", "a b", "%", "?", "#", "|", "+", "&", "\"", "^", "%41", "a:b", " a", "a ", "=", "'", "<",
                            "a%2Fb", "a^b", ";"],
                     remote=["/r", "/r s", "r", "", "/r%41", "/r?x", "/^"], hosts=["", "other.example", "localhost"],
                     ports=[0, 70, 7070, 1],
                     urls=["URL:http://h.example/p?q=1&r", "/URL:http://h.example/", "URL:mailto:x@h.example",
                           "URL:gopher://other.example:71/1/x"],
                     stok=["a", " ", "1", "+", "%", "&", "=", "?", "#", "^", "%41", "$", "!", ";", "/"], maxsearch=3,
                     sshapes=["a 1", "a b 1", "python 3", "route 66 1", "/zz 0", "localhost /zz 0", "x HTTP/1.0",
                              "GET /zz HTTP/1.0", "GET /wap/zz HTTP/1.0", "gemini://localhost/zz", "{" * 3, "{" * 14,
                              "{" * 44, "}" * 44, "{" * 190], deep=["{{", "}}", "{^"],
                     ssels=["/echo.pyg", "/echo.pyg?arg", "/e#.pyg", "/e%41.pyg", "/e^.pyg", "/e b.pyg", "echo.pyg", "/e+.pyg",
                            "/e&.pyg?a=b"],
                     kinds=["file", "dir", "mbox", "maildir", "mapdir", "zip"], inner=["a b", "^", "?", "|", "%41", "#"],
                     views=ALL_VIEWS, hls=["default", "full"], srvports=[70, 7070, 1],
                     cfgs=[(a, b) for a in ("on", "off") for b in ("always", "unsupported", "never")],
                     tree_hl_full=None),
}

MC_CFG = """SPECIFICATION Spec
CONSTANTS
%(consts)s  LocalNames <- K_LocalNames
  RemoteSels <- K_RemoteSels
  Hosts <- K_Hosts
  Ports = %(ports)s
  UrlSels <- K_UrlSels
  SearchTokens <- K_SearchTokens
  MaxSearch = %(maxsearch)d
  SearchSels <- K_SearchSels
  SearchShapes <- K_SearchShapes
  DeepNames6 <- K_DeepNames
  Views6 <- K_Views6
  Kinds6 <- K_Kinds6
  Inner6 <- K_Inner6
  HLs6 <- K_HLs
INVARIANT EntriesAgree
INVARIANT SearchesArrive
INVARIANT TreesAgree
INVARIANT OnlyKnownCaptures
CHECK_DEADLOCK FALSE
"""
TRACE_CFG = """SPECIFICATION TSpec
CONSTANTS
%(consts)sCONSTRAINT Record
POSTCONDITION Post
CHECK_DEADLOCK FALSE
"""

ECHO_PYG = b'''from pygopherd.handlers.pyg import PYGBase
from pygopherd.gopherentry import GopherEntry


class PYGMain(PYGBase):
    def canhandlerequest(self):
        return True

    def isdir(self):
        return False

    def getentry(self):
        entry = GopherEntry(self.selector, self.config)
        entry.type = "7"
        entry.mimetype = "text/plain"
        entry.name = "Search:" + self.selector
        return entry

    def write(self, wfile):
        s = self.searchrequest
        wfile.write(b"SEARCH=" + (b"NONE" if s is None else b"X" + s.encode("utf-8", "surrogateescape").hex().encode()) + b"\\n")
'''


def sets_for(t):
    return {"LocalNames": t["local"], "RemoteSels": t["remote"], "Hosts": t["hosts"], "UrlSels": t["urls"],
            "SearchTokens": t["stok"], "SearchSels": t["ssels"], "SearchShapes": t["sshapes"], "DeepNames": t["deep"], "Views6": t["views"], "Kinds6": t["kinds"], "Inner6": t["inner"],
            "HLs": t["hls"], "Tokens": ["a"], "Shapes": [], "InnerTokens": ["a"], "Kinds2": [], "Views": ["G"]}


def model_check(chk, t, k):
    """MC_C06 for advertised port k.server_port -> (result, entries with per-view model verdicts, searches, trees)."""
    cfg = MC_CFG % dict(consts=k.cfg_block(), ports="{" + ", ".join(str(x) for x in t["ports"]) + "}",
                        maxsearch=t["maxsearch"])
    files = dict(k.tla_files(sets_for(t)))
    files["MC_C06_run.cfg"] = cfg
    res = tlc.check_model("MC_C06", "MC_C06_run.cfg", extra_files=files, dump=True, timeout=2400)
    ents, searches, trees, named = {}, {}, {}, {}
    try:
        if res["inv_violations"]:
            chk.model_violation("MC_C06", res["inv_violations"], res["out"][-3000:])
        for st in iter_dump_states(res["dump"], wanted={"mode", "e", "s", "c", "hl", "p", "res"}):
            if st["res"] == "new":
                continue
            if st["res"] != "ok":
                named[st["res"]] = named.get(st["res"], 0) + 1
            if st["mode"] == "entry":
                e = dict(st["e"])
                if e["type"] == "i":
                    continue
                key = json.dumps(e, sort_keys=True)
                ents.setdefault(key, {"e": e, "dev": set()})
                if st["res"] != "ok":
                    ents[key]["dev"].add(st["res"])
            elif st["mode"] == "search":
                sk = (st["e"]["sel"], st["s"])
                searches.setdefault(sk, set())
                if st["res"] != "ok":
                    searches[sk].add(st["res"])
            else:
                trees[json.dumps([dict(st["c"]), st["hl"]], sort_keys=True)] = (dict(st["c"]), str(st["hl"]))
    finally:
        tlc.cleanup(res)
    return res, [ents[x] for x in sorted(ents)], {x: sorted(v) for x, v in sorted(searches.items())}, \
        [trees[x] for x in sorted(trees)], named


# ---- gamma: a site = tree + link-file entries + abstracts + search item -----------------------------------
def links_file(ents, k):
    from harness import c05_lib as L
    out = []
    for e in ents:
        blk = [b"Name=" + L.conc(e["name"], k.hi_byte), b"Type=" + e["type"].encode(),
               b"Path=" + L.conc(e["sel"], k.hi_byte)]
        if e["host"] != "" or e["port"] != 0:
            blk.append(b"Host=" + (L.conc(e["host"], k.hi_byte) if e["host"] else b"+"))
            blk.append(b"Port=" + (str(e["port"]).encode() if e["port"] else b"+"))
        if e.get("abstract"):
            blk.append(b"Abstract=" + e["abstract"].encode())
        out.append(b"\n".join(blk) + b"\n")
    return b"\n".join(out)


def build_site(w, site, k):
    from harness import c05_lib as L

    def extra(w):
        n = L.fsname(L.fs_name_of(site["c"]), k.hi_byte)
        w.write("zz.abstract", b"about zz & <co>\nsecond line\n")
        w.write(".abstract", b"the root menu\n")
        if site["c"]["k"] in ("dir", "maildir"):
            w.write(n + "/.abstract", b"inside the subject\n")
        else:
            w.write(n + ".abstract", b"about the subject\n")
        if site["ents"]:
            w.write(".Links", links_file(site["ents"], k))
        w.write("echo.pyg", ECHO_PYG, mode=0o755)
        import gzip                                  # encoded files with a known inner type
        w.write("zy.txt.gz", gzip.compress(b"DOC packed text\n", mtime=0))
        w.write("zy.html.gz", gzip.compress(b"<html><head><title>packed</title></head><body>DOC</body></html>\n", mtime=0))
        rows = []
        for sel in site.get("ssels", []):          # further search items: PYG files with reserved characters in
            real = sel.split("?")[0]                 # their names, Virtual "?args" variants through the link file
            if real not in ("/echo.pyg", "echo.pyg"):
                w.write(L.fsname(real[1:], k.hi_byte), ECHO_PYG, mode=0o755)
            if not sel.startswith("/"):                # authored with this server's own host and port: stays slash-less
                rows.append({"name": "Search:" + sel, "type": "7", "sel": sel, "host": k.server_name, "port": k.server_port})
            elif "?" in sel:
                rows.append({"name": "Search:" + sel, "type": "7", "sel": sel, "host": "", "port": 0})
        if rows:
            w.write(".Links", links_file(rows, k))

    L.materialise(w, site["c"], k.hi_byte, extra=extra)
    w.config.set("pygopherd", "abstract_headers", site["cfg"]["ah"])
    w.config.set("pygopherd", "abstract_entries", site["cfg"]["ae"])
    w.server.server_port = site["cfg"]["port"]


# ---- alpha: one observation ---------------------------------------------------------------------------------
_VIEWS_MIME = re.compile(rb"\+VIEWS:\r\n ([^ :\r\n]+)")


def observe(w, p, sel, slash, k, want_entries, hdr=False):
    from harness import c05_lib as L
    if sel == "/" and not slash:
        t = L.root_target(p, k)
        rq = L.follow(p, t, "", "", k)
    else:
        t = target_of(p, sel + ("/" if slash else ""), k)
        rq = L.follow(p, t, L.root_ref(p, k), "", k)
    rq = L.with_headers(rq, hdr)
    r = L.send(w, rq, k)
    c = L.classify(p, r, k)
    mime = c["mime"]
    if p in ("GP", "SGP") and c["cls"] == "ok":
        # Gopher+ carries the MIME type in the item's +VIEWS block: ask for it with the "!" form
        r2 = w.request(L.conc(rq["line"].replace("\t+\r\n", "\t!\r\n"), k.hi_byte), tls=rq["tls"])
        m = _VIEWS_MIME.search(r2.out)
        mime = m.group(1).decode("latin-1") if m else ""
    ev = {"ev": "view" if want_entries else "object", "p": p, "sel": sel, "slash": slash, "hdr": hdr, "req": rq,
          "nbytes": len(L.conc(rq["line"], k.hi_byte)) + len(L.conc(rq["rest"], k.hi_byte)),
          "cls": c["cls"], "obj": c["obj"], "mime": L.absx(mime)}
    if want_entries:
        ents = c["entries"]
        if c["cls"] == "ok" and c["obj"] == "menu" and ents is None:
            ev["cls"], ents = "error", []              # a menu that does not lex in p's own syntax
        ev["entries"] = [{x: e[x] for x in ("type", "name", "mt", "t")} for e in (ents or [])]
    return ev, {"rq": rq, "out": r.out[:300].decode("latin-1"), "log": r.log[-2:]}


def target_of(p, sel, k):
    """How view p renders a link to local selector sel (mirror of Links!Target, checked by TraceC06!ReqOk)."""
    from harness import c05_lib as L
    if p in L.GOPHER_VIEWS:
        return {"form": "tab", "mark": "link", "sel": sel, "host": k.server_name, "port": k.server_port, "href": ""}
    q = L.client_encode_path(sel, k)
    if p in ("M", "S") and q == "":
        q = "/"
    if p == "W" and q.startswith("/"):
        q = k.waptop + q
    return {"form": "url", "mark": "link", "sel": "", "host": "", "port": 0, "href": q}


def do_search(w, p, isel, s, k):
    """Type s into the site's search item through p's own mechanism; what did the handler receive?"""
    from harness import c05_lib as L
    t0 = L.root_target(p, k)
    r = L.send(w, L.follow(p, t0, "", "", k), k)
    c = L.classify(p, r, k)
    base = L.root_ref(p, k)
    item = None
    for e in (c["entries"] or []):
        if e["name"] == "Search:" + isel and e["t"]["mark"] != "info":
            item = e
    if item is None:
        return None
    t = item["t"]
    if not L.is_local(p, t, k):
        return "skip"                  # p renders the item as a foreign URL: no search form to type into
    chain = []
    if p == "M":
        rq = L.follow(p, t, base, "", k)
        nb0 = len(L.conc(rq["line"], k.hi_byte)) + len(L.conc(rq["rest"], k.hi_byte))
        r = L.send(w, rq, k)
        c = L.classify(p, r, k)
        if c["cls"] == "prompt":
            rq2 = L.follow(p, t, base, s, k)
            r = L.send(w, rq2, k)
            c = L.classify(p, r, k)
            chain.append({"line": rq2["line"], "cls": c["cls"],
                              "loc": (L.redirect_target(r) if c["cls"] == "redirect" else "")})
            if c["cls"] == "redirect":
                here = L.ref_path(base, t["href"])
                rq3 = {"line": "gemini://" + k.server_name + L.ref_path(here, L.redirect_target(r)) + "\r\n",
                       "rest": "", "tls": True}
                r = L.send(w, rq3, k)
                c = L.classify(p, r, k)
                chain.append({"line": rq3["line"], "cls": c["cls"], "loc": ""})
    else:
        rq = L.follow(p, t, base, s, k)
        nb0 = len(L.conc(rq["line"], k.hi_byte)) + len(L.conc(rq["rest"], k.hi_byte))
        r = L.send(w, rq, k)
        c = L.classify(p, r, k)
    m = re.search(rb"SEARCH=X([0-9a-f]*)", r.out)
    got = L.absx(bytes.fromhex(m.group(1).decode())) if m else "(not delivered)"
    if got == "":
        got = "(not delivered)"
    return ({"ev": "search", "p": p, "s": s, "base": base, "t": t, "req": rq, "nbytes": nb0, "chain": chain, "cls": c["cls"],
             "got": got},
            {"rq": rq, "out": r.out[:200].decode("latin-1"), "log": r.log[-2:]})


_W = None
_K = {}
_HL = "default"
_VIEWS = ()


def _init_worker():
    global _W
    from harness.world import World
    _W = World(handlers=_HL)


def _run_site(site):
    """-> list of (view, events, concrete) : reference observations through G first, then the view's own."""
    from harness import c05_lib as L
    k = _K[(site["cfg"]["port"], site.get("hi", 0xFF))]
    w = _W
    build_site(w, site, k)
    if site.get("searches"):
        out = []
        for p in _VIEWS:
            for isel, s in site["searches"]:
                got = do_search(w, p, isel, s, k)
                tag = isel + " <- " + s
                if got == "skip":
                    continue
                if got is None and p != "G":
                    # the plain Gopher view shows the item (checked below for G itself): view p's root listing lacks it
                    out.append((p, tag, [{"ev": "nosearchitem", "p": p, "s": s, "isel": isel}], [{"rq": "root listing of " + p}]))
                elif got is None:
                    out.append((p, tag, None, None))
                else:
                    out.append((p, tag, [got[0]], [got[1]]))
        return out
    # selectors of the site, discovered through plain Gopher: the root menu and the subject's menu
    linksel = {e["sel"] for e in site["ents"]}
    ev0, _ = observe(w, "G", "/", False, k, True)
    dirs, objs = ["/"], []
    frontier = [x for x in ev0.get("entries", [])]
    seen = set()
    depth = 0
    while frontier and depth < 24:            # as deep as the tree goes (the deep kind has DeepDepth levels)
        nxt = []
        for x in frontier:
            t = x["t"]
            if t["form"] != "tab" or not L.is_local("G", t, k) or t["sel"] in linksel or t["sel"] in seen:
                continue
            if not t["sel"].startswith("/") or t["sel"] != t["sel"].strip():
                continue
            seen.add(t["sel"])
            if x["type"] == "1":
                dirs.append(t["sel"])
                evd, _ = observe(w, "G", t["sel"], False, k, True)
                nxt.extend(evd.get("entries", []))
            elif x["type"] != "7":
                objs.append(t["sel"])
        frontier = nxt
        depth += 1
    dirs, objs = dirs[:20], objs[:10]

    def sweep(p):
        evs, con = [], []
        # the HTTP-family views: bare request line, and with the header block a real browser sends
        for hdr in ((False, True) if p in ("H", "HS", "W") else (False,)):
            for d in dirs:
                for slash in ((False,) if d == "/" else (False, True)):
                    e, c = observe(w, p, d, slash, k, True, hdr)
                    evs.append(e)
                    con.append(c)
            for o in objs:
                e, c = observe(w, p, o, False, k, False, hdr)
                evs.append(e)
                con.append(c)
        return evs, con

    # reference observations: plain Gopher (listings, object kinds) and Gopher+ (whose "!" form carries MIME types)
    g_e, g_c = sweep("G")
    gp_e, gp_c = sweep("GP")
    out = [("G", "", g_e, g_c), ("GP", "", g_e + gp_e, g_c + gp_c)]
    for p in _VIEWS:
        if p in ("G", "GP"):
            continue
        e, c = sweep(p)
        out.append((p, "", g_e + gp_e + e, g_c + gp_c + c))
    return out


def run_sites(sites, t, ks, hl, views):
    global _HL, _K, _VIEWS
    from harness import c05_lib as L
    _HL, _K, _VIEWS = hl, ks, tuple(views)
    results = L.pool_map(_run_site, sites, _init_worker)
    traces = []
    for site, per in zip(sites, results):
        for p, s, events, concrete in per:
            init = {"c": site["c"], "ents": site["ents"], "cfg": site["cfg"], "hl": hl, "p": p, "what": site["what"],
                    "hi": site.get("hi", 0xFF)}
            if s:
                init["s"] = s
            traces.append({"id": "%s|%s|%s|%s|%s" % (site["what"], hl, json.dumps(site["cfg"], sort_keys=True), p,
                                                     s or json.dumps(site["c"], sort_keys=True)),
                           "init": init, "events": events, "concrete": concrete, "site": site})
    return traces


def validate(traces, k):
    from harness import c05
    return c05.validate(traces, k, module="TraceC06", cfg_text=TRACE_CFG % dict(consts=k.cfg_block()))


def report(chk, traces, tv):
    for rj in tv["rejected"]:
        tr = traces[rj["index"]]
        clause, _, row = rj["clause"].partition("@")
        ev = tr["events"][rj["at"] - 2] if rj["at"] >= 2 else {}
        if clause in ("ClientMismatch", "unmatched", "stuck"):
            raise core.MachineryError("C06 client and Links!Follow disagree (%s) at %s event %d: %s"
                                      % (clause, tr["id"], rj["at"] - 1, json.dumps(ev)[:600]))
        what = ev.get("sel", "") + ("/" if ev.get("slash") else "") if ev.get("ev") != "search" else ev.get("s", "")
        key = "%s|%s|%s|%s" % (clause, tr["id"], what, row)
        init = tr["init"]
        site = {x: tr["site"][x] for x in tr["site"]}
        if ev.get("ev") == "search":                # the replay is exactly this (search item, string) pair
            site["searches"] = [pr for pr in site["searches"] if pr[1] == ev["s"] and init.get("s", "").startswith(pr[0] + " <- ")]
        chk.violation(key, clause, {"p": init["p"], "hl": init["hl"], "cfg": init["cfg"], "what": init["what"],
                                    "site": site, "row": row, "at": what},
                      {"event": ev, "concrete": tr["concrete"][max(0, rj["at"] - 4):rj["at"]]})
    chk.note_drift(tv["drift"])


def make_sites(t, model, port, hl, seed):
    """Sites for advertised port `port` and handler list hl from what MC_C06 enumerated."""
    ents, searches, trees = model
    sites = []
    base_c = {"k": "dir", "n": "a", "ik": "file", "m": "in"}
    # (1) link-file sites: every enumerated entry, those the model names a deviation for kept apart per deviation
    groups = {}
    for x in ents:
        if x["e"]["sel"].endswith("/") or x["e"]["sel"] != x["e"]["sel"].strip():
            continue            # a UMN link file cannot spell it: getLinkItem strips blanks and one trailing slash of Path=
        groups.setdefault(",".join(sorted(x["dev"])) or "clean", []).append(x["e"])
    for g, es in sorted(groups.items()):
        rows = []
        for i, e in enumerate(es):
            r = dict(e)
            r["name"] = "e%03d" % i
            if i % 7 == 0:
                r["abstract"] = "abstract of row %d" % i
            rows.append(r)
        sites.append({"what": "links:" + g, "c": base_c, "ents": rows, "cfg": {"ah": "on", "ae": "always", "port": port}})
    # (2) content trees under every abstract configuration
    for c, thl in trees:
        if thl != hl:
            continue
        if hl == "full" and t["tree_hl_full"] and c["k"] not in t["tree_hl_full"]:
            continue
        if port != t["srvports"][0]:
            continue
        # quick: leaf kinds and the deep tree under one abstract configuration, containers under all
        for ah, ae in (t["cfgs"][:1] if (c["k"] in ("deep", "file", "mbox", "maildir") and t["tree_hl_full"]) else t["cfgs"]):
            sites.append({"what": "tree", "c": c, "ents": [
                {"name": "e000", "type": "1", "sel": "/r s", "host": "other.example", "port": 70, "abstract": "a foreign menu"}],
                "cfg": {"ah": ah, "ae": ae, "port": port}})
    # (3) search sites (the PYG search item needs the full handler list)
    if hl == "full" and port == t["srvports"][0]:
        ss = sorted(searches)
        if t["tree_hl_full"]:
            # quick tier: strings of two tokens only through a plain item and the item with a blank in its selector;
            # single tokens and the whole-string shapes through every item (thorough: every pair TLC enumerated)
            ss = [x for x in ss if x[0] in ("/echo.pyg", "/e b.pyg", "echo.pyg") or x[1] in t["stok"] or x[1] in t["sshapes"]]
        for i in range(0, len(ss), 24):
            sites.append({"what": "search", "c": base_c, "ents": [], "cfg": {"ah": "on", "ae": "always", "port": port},
                          "searches": [list(x) for x in ss[i:i + 24]], "ssels": t["ssels"]})
    return sites


def main(chk, replay=None):
    from harness import c05_lib as L
    # the string operators of Links.tla recurse once per character; long abstract strings (deep selectors, long search
    # strings) need a deeper Java stack than TLC's worker threads get by default
    os.environ.setdefault("JAVA_TOOL_OPTIONS", "-Xss512m")
    t = TIERS[chk.tier]
    models, ks, timing = {}, {}, []
    # 1. the design model, once per advertised port
    states = transitions = 0
    named_total = {}
    cmd = ""
    for port in t["srvports"]:
        k = L.Consts(server_port=port)
        ks[(port, 0xFF)] = k
        res, ents, searches, trees, named = model_check(chk, t, k)
        models[port] = (ents, searches, trees)
        states += res["distinct"]
        transitions += res["generated"]
        cmd = res["cmd"]
        timing.append({"model_port": port, "s": res["wall_s"], "states": res["distinct"]})
        for a, b in named.items():
            named_total[a] = named_total.get(a, 0) + b
    # 2. the sites, 3. observe through every view, 4. validate
    plans = []
    if replay:
        with open(replay) as fp:
            rp = json.load(fp)
        if rp["case"].get("model"):
            return chk.finish({"states": states, "transitions": transitions, "exhaustive": True, "checker_cmd": cmd},
                              ["replay of a model-level violation = re-running the model"])
        site = rp["case"]["site"]
        plans.append((rp["case"]["hl"], site["cfg"]["port"], [site], [rp["case"]["p"]]))
    else:
        for hl in t["hls"]:
            for port in t["srvports"]:
                plans.append((hl, port, make_sites(t, models[port], port, hl, chk.seed), t["views"]))
    alltr, accepted, rejected, tstates, tcmd = [], 0, 0, 0, ""
    for hl, port, sites, views in plans:
        if not sites:
            continue
        if (port, 0xFF) not in ks:
            ks[(port, 0xFF)] = L.Consts(server_port=port)
        t1 = time.time()
        part = run_sites(sites, t, ks, hl, views)
        missing = [tr["id"] for tr in part if tr["events"] is None]
        if missing:
            raise core.MachineryError("C06: the search item was not found in the root menu of %s" % missing[:3])
        t2 = time.time()
        tv = validate(part, ks[(port, 0xFF)])
        report(chk, part, tv)
        timing.append({"hl": hl, "port": port, "sites": len(sites), "traces": len(part), "observe_s": round(t2 - t1, 1),
                       "validate_s": round(time.time() - t2, 1)})
        alltr.extend(part)
        accepted += tv["accepted"]
        rejected += len(tv["rejected"])
        tstates += tv["states"]
        tcmd = tv["cmd"]
    nsearch = sum(1 for tr in alltr for e in tr["events"] if e["ev"] == "search")
    nviews = sum(1 for tr in alltr for e in tr["events"] if e["ev"] == "view" and e["cls"] == "ok" and e["entries"])
    nontrivial = len({tr["id"] for tr in alltr
                      if any(e["ev"] == "search" and e["got"] != "(not delivered)" for e in tr["events"])
                      or sum(1 for e in tr["events"] if e["ev"] == "view" and e["cls"] == "ok" and e["entries"]) >= 2})
    if not replay and (nsearch == 0 or nviews == 0 or nontrivial == 0):
        raise core.MachineryError("C06: no listing compared or no search delivered - lexers/echo handler not effective")
    cov = {
        "states": states, "transitions": transitions, "exhaustive": True,
        "traces_validated_against_impl": accepted, "traces_rejected": rejected,
        "evaluations": len(alltr), "distinct_nontrivial": nontrivial,
        "rule": "evaluation = one site x handler list x configuration x protocol view (reference observations through "
                "plain Gopher plus the view's own), or one search string typed through one view; non-trivial = at least "
                "two non-empty listings were compared, or the search string was delivered to the handler",
        "listings_compared": nviews, "searches_typed": nsearch,
        "model_named_deviations": named_total,
        "model_entries": {str(p): len(m[0]) for p, m in models.items()},
        "model_search_strings": {str(p): len(m[1]) for p, m in models.items()},
        "model_trees": {str(p): len(m[2]) for p, m in models.items()},
        "samples": [{"init": {x: tr["init"][x] for x in ("what", "cfg", "hl", "p")}, "events": tr["events"][:2]}
                    for tr in alltr[:2]],
        "checker_cmd": cmd + " ; " + tcmd, "trace_states": tstates, "timing": timing,
        "constants_bound": all(k.bound for k in ks.values()),
        "bindings": ["B1 protocol order/waptop/query prefix from the tree", "B2 TLC-enumerated entries, trees and search "
                     "strings materialised and fetched through all protocol views", "B3 TraceC06"],
        "tier_parameters": {x: t[x] for x in t},
    }
    return chk.finish(cov, [
        "alpha = classifiers/lexers of harness/c05_lib.py; display names are compared after undoing each protocol's own "
        "escaping (HTML entities; Gemini/Spartan backslashreplace of non-UTF-8 bytes)",
        "MIME types: HTTP/WAP Content-Type, Gemini/Spartan status meta, Gopher+ '!' +VIEWS block; plain Gopher and the "
        "Gopher+ '$' form carry none (object kind only); a menu's MIME type counts as 'menu' in every protocol; WAP's "
        "WML wrapping of text/plain documents counts as text/plain",
        "the search string is observed by a PYG handler (pyg.PYGHandler, full handler list) that echoes "
        "handler.searchrequest as hex",
        "pairwise equality is checked as equality with the reference observations of the same site: plain Gopher "
        "(listings, object kinds) and Gopher+ (MIME types from the '!' form)",
    ])


def selftest():
    from harness import c05_lib as L
    k = L.Consts()
    t = TIERS["quick"]
    site = {"what": "tree", "c": {"k": "dir", "n": "a b", "ik": "file", "m": "?"}, "ents": [
        {"name": "e000", "type": "1", "sel": "/r s", "host": "other.example", "port": 70, "abstract": "a foreign menu"}],
        "cfg": {"ah": "on", "ae": "always", "port": 70}}
    tr = [x for x in run_sites([site], t, {(70, 0xFF): k}, "default", ["H"]) if x["init"]["p"] == "H"][0]
    import copy
    bad1 = copy.deepcopy(tr)
    v = [e for e in bad1["events"] if e["ev"] == "view" and e["p"] == "H"][0]
    del v["entries"][1]                                             # drop one row of the HTTP listing
    bad2 = copy.deepcopy(tr)
    v = [e for e in bad2["events"] if e["ev"] == "object" and e["p"] == "H"][0]
    v["mime"] = "text/html"                                         # corrupt one MIME type
    bad3 = copy.deepcopy(tr)
    v = [e for e in bad3["events"] if e["ev"] == "view" and e["p"] == "H"][0]
    v["entries"] = [x for x in v["entries"] if x["t"]["mark"] != "info"]        # drop the informational rows
    tv = validate([tr, bad1, bad2, bad3], k)
    got = {r["index"]: r["clause"].partition("@")[0] for r in tv["rejected"]}
    print("selftest C06: accepted=%d rejected=%s" % (tv["accepted"], got))
    assert tv["accepted"] == 1 and got == {1: "SameLinks", 2: "SameObject", 3: "SameInfo"}, got
    return True
