"""XWEB (growth beyond the listed properties): the URL-based front ends - HTTP icon routes, the WAP front
end (access keys, search card, waptop, WML deck skeleton), the Gemini front end (search dialogue, status
codes, MIME meta, link lines, footer) and handlers/url.py (HTMLURLHandler, URLTypeRewriter).

Design model: spec/Web.tla (transcribed operators + the row-rendering state machine), case families in
spec/WebCases.tla, bounded model spec/MC_XWEB.tla.  B1: icon table keys, iconmapping, waptop, query prefix,
footer and protocol order are read from the tree under test into the generated constants module.  B2: every
case TLC enumerated (state dump) is run on the REAL server through World.request: menus are written as
gophermap files from the dump's entries, request paths are the model's.  B3: the lexed responses are
validated by TLC against spec/trace/TraceXWEB.tla, which names the failing clause.
This file only concretises cases (gamma), drives the server and lexes responses (alpha): no property logic."""
from __future__ import annotations

import binascii
import configparser
import hashlib
import html.parser
import json
import os
import re
import urllib.parse
import xml.parsers.expat

from harness import core, tlc
from harness.tlaparse import iter_dump_states

# ---------------------------------------------------------------------------------------------------
# tiers: alphabets of the case families; `runs` = configurations (waptop, footer) x families
QUICK = dict(
    unknown=["nosuch.gif", "text.gif.bak", "TEXT.GIF", "text", ""],
    ishapes=["plain", "pct", "slash", "query", "nl", "noslash", "lower", "sub"],
    ifronts=["H", "HS", "W"],
    rowtypes=["0", "1", "9", "g", "I", "s", "h", "4", "5", "M", "Z", "6", "T", "2"],
    ssels=["/echo.pyg", "/s/e b.pyg", "/s/e%41.pyg"],
    searches=["a", "a b", "a+b", "%41", "a&b=c", "?", "#", "/"],
    sfronts=["H", "HS", "W", "M"],
    wsuffixes=["", "/", "?searchrequest=x", "/d", "/d/", "/d?x=1", "/f", "/g.txt", "/nosuch", "x", "/img.gif",
               "/a%26b", "/p.html"],
    gemurls=["gemini://localhost/g.txt", "gemini://localhost/p.html", "gemini://localhost/img.gif",
             "gemini://localhost/f", "gemini://localhost/d", "gemini://localhost/d/", "gemini://localhost",
             "gemini://localhost/", "gemini://localhost/nosuch", "gemini://[::1/f", "gemini://localhost]/f",
             "gemini://[::1]/g.txt", "gemini://localhost:1965/g.txt", "gemini://localhost/g.txt?x",
             "gemini://localhost/@", "gemini://localhost/GEMINI-QUERY", "gemini://localhost/GEMINI-QUERYx",
             "gemini://localhost/a%26b", "gemini://localhost/e/f#frag", "gemini://localhost/d/x"],
    urlsels=["URL:http://h.example/", "/URL:http://h.example/p?q=1&r", "URL:ftp://h.example/pub/",
             "URL:http://h.example/a/../b//c", "URL:http://h.example/<x>'y'", "URL:mailto:x@h.example", "URL:",
             "URL://h.example/", "/URL:http:/", "URL:http://h.example/\"q\"", "URL:http://h.example/a\tb",
             "xURL:http://h.example/", "/d/URL:http://h.example/", "URL:x://", "URL:http://h.example/a b"],
    rwchars=["1", "0", "h", "e", "%"],
    rwrests=["/f", "/d", "/d/x", "/nosuch", "/e/f", "//f", "/../f", "/URL:http://h.example/p"],
    selfronts=["G", "H", "W", "M"], hls=["default", "full"],
    runs=[dict(waptop=None, footer="conf", fams=["icon", "menu", "search", "wapdoc", "gem", "sel"], maxrows=14, stride=3),
          dict(waptop="/m", footer=None, fams=["menu", "wapdoc"], maxrows=3)],
)
THOROUGH = dict(QUICK)
THOROUGH.update(
    unknown=QUICK["unknown"] + ["text.gif ", "generic", "blank.gif.gif", "../text.gif"],
    rowtypes=QUICK["rowtypes"] + ["8", "3", "+", "d", ";"],
    ssels=QUICK["ssels"] + ["/s/e#.pyg", "/s/e&.pyg"],
    searches=QUICK["searches"] + ["=", "a%20b", "&", "a;b", "'", "<x>", "a\"b"],
    wsuffixes=QUICK["wsuffixes"] + ["/e", "/e/f", "/d/x", "//d", "/./d", "?x", "/?searchrequest=a+b", "/URL:http://h.example/"],
    gemurls=QUICK["gemurls"] + ["gemini://localhost/e", "gemini://localhost/e/", "gemini://other.example/g.txt",
                                "gemini://localhost/g.txt#f", "gemini://localhost/%67.txt",
                                "gemini://localhost/GEMINI-QUERY/", "gemini://localhost//f", "gemini://localhost/../f"],
    urlsels=QUICK["urlsels"] + ["URL:https://h.example/x/", "URL:http://h.example//", "/URL:gopher://g.example:70/1/",
                                "URL:http://h.example/a\nb", "URL:telnet://h.example", "/xURL:http://h.example/", "URL:a://b://c"],
    rwchars=QUICK["rwchars"] + ["d", "+", "~", "I"],       # ("." would make /. - the root directory itself)
    selfronts=["G", "H", "HS", "W", "M"],
    rwrests=QUICK["rwrests"] + ["/g.txt", "/e", "/a&b/x", "/p.html", "/img.gif"],
    runs=[dict(waptop=None, footer="conf", fams=["icon", "menu", "search", "wapdoc", "gem", "sel"], maxrows=16),
          dict(waptop="/m", footer=None, fams=["menu", "wapdoc", "icon", "search"], maxrows=4),
          dict(waptop="/w/ap", footer="-- end of menu --", fams=["menu", "wapdoc"], maxrows=4)],
)
TIERS = {"quick": QUICK, "thorough": THOROUGH}

TREE_FILES = ["/f", "/g.txt", "/p.html", "/img.gif", "/d/x", "/d/gophermap", "/e/f", "/a&b/x"]
TREE_DIRS = ["/", "/d", "/e", "/a&b"]
PAD = 1000                                  # the "@" of a Gemini URL stands for this many letters
TINY_GIF = binascii.unhexlify("47494638396101000100800000000000ffffff2c00000000010001000002024401003b")

ECHO_PYG = b'''from pygopherd.handlers.pyg import PYGBase
from pygopherd.gopherentry import GopherEntry


class PYGMain(PYGBase):
    def canhandlerequest(self):
        return True

    def isdir(self):
        return False

    def getentry(self):
        entry = GopherEntry(self.selector, self.config)
        entry.type = "7"
        entry.mimetype = "text/plain"
        entry.name = "Search:" + self.selector
        return entry

    def write(self, wfile):
        s = self.searchrequest
        wfile.write(b"SEARCH=" + (b"NONE" if s is None else b"X" + s.encode("utf-8", "surrogateescape").hex().encode()) + b"\\n")
'''


# ---------------------------------------------------------------------------------------------------
# B1: constants of the tree under test
def tla_str(s):
    return '"' + s.replace("\\", "\\\\").replace('"', '\\"').replace("\t", "\\t").replace("\n", "\\n").replace("\r", "\\r") + '"'


def tla_set(xs):
    return "{" + ", ".join(tla_str(x) for x in xs) + "}"


def tla_seq(xs):
    return "<<" + ", ".join(tla_str(x) for x in xs) + ">>"


def b1():
    from pygopherd.protocols import gemini, http, wap
    core.assert_repo_bound()
    cp = configparser.ConfigParser()
    cp.read(os.path.join(core.REPO, "conf", "pygopherd.conf"))
    mapping = eval(cp.get("protocols.http.HTTPProtocol", "iconmapping"))          # noqa: S307 - as http.py reads it
    order = re.findall(r"\w+\.(\w+)", cp.get("protocols.ProtocolMultiplexer", "protocols"))
    footer = cp.get("protocols.gemini.GeminiProtocol", "footer") if cp.has_option("protocols.gemini.GeminiProtocol", "footer") else None
    return dict(icons=sorted(http.icons), pairs=sorted(mapping.items()), waptop=cp.get("protocols.wap.WAPProtocol", "waptop"),
                prefix=gemini.GeminiProtocol.query_prefix, footer=footer, order=order, accesskeys=wap.accesskeys)


def consts_module(k, t, run):
    foot = run["footer_text"]
    lines = ["--------------------------- MODULE MC_XWEB_consts ---------------------------",
             "K_IconNames == " + tla_set(k["icons"]),
             "K_IconPairs == {" + ", ".join("<<%s, %s>>" % (tla_str(a), tla_str(b)) for a, b in k["pairs"]) + "}",
             "K_GemFooter == " + tla_str(foot if foot is not None else "(none)"),
             "K_TreeFiles == " + tla_set(TREE_FILES), "K_TreeDirs == " + tla_set(TREE_DIRS),
             "K_Fams == " + tla_set(run["fams"]),
             "K_UnknownIcons == " + tla_set(t["unknown"]), "K_IconShapes == " + tla_set(t["ishapes"]),
             "K_IconFronts == " + tla_set(t["ifronts"]), "K_RowTypes == " + tla_seq(t["rowtypes"]),
             "K_SearchSels == " + tla_set(t["ssels"]), "K_Searches == " + tla_set(t["searches"]),
             "K_SearchFronts == " + tla_set(t["sfronts"]), "K_WapSuffixes == " + tla_set(t["wsuffixes"]),
             "K_GemUrls == " + tla_set(t["gemurls"]), "K_UrlSels == " + tla_set(t["urlsels"]),
             "K_RwChars == " + tla_set(t["rwchars"]), "K_RwRests == " + tla_set(t["rwrests"]),
             "K_SelFronts == " + tla_set(t["selfronts"]), "K_HLs == " + tla_set(t["hls"]),
             "K_CodeAccessKeys == " + tla_str(k["accesskeys"]),
             "============================================================================="]
    return "\n".join(lines) + "\n"


INVARIANTS = ["RenderInv", "AccessKeysAsDocumented", "MappedIcons", "IconServedInv", "UnknownIconInv", "AccessKeysInv",
              "SearchCardInv", "WapPrefixInv", "GemLinkLinesInv", "GemPromptInv", "GemSearchArrivesInv", "GemBadRequestInv",
              "GemSuccessMimeInv", "UrlRedirectPageInv", "UrlOnlyUrlsInv", "RewriteSameInv", "RewriteOnceInv", "RewriteOffInv"]


def cfg_text(k, run, trace):
    c = ["SPECIFICATION " + ("TSpec" if trace else "Spec"), "CONSTANTS",
         "  WapTop = " + tla_str(run["waptop_text"]), "  QueryPrefix = " + tla_str(k["prefix"]), '  ServerName = "localhost"',
         "  IconNames <- K_IconNames",
         "  IconPairs <- K_IconPairs", "  GemFooterText <- K_GemFooter", "  TreeFiles <- K_TreeFiles", "  TreeDirs <- K_TreeDirs",
         "  Fams <- K_Fams", "  UnknownIcons <- K_UnknownIcons", "  IconShapes <- K_IconShapes", "  IconFronts <- K_IconFronts",
         "  RowTypes <- K_RowTypes", "  MaxRows = %d" % run["maxrows"], "  PosStride = %d" % run.get("stride", 1), "  SearchSels <- K_SearchSels", "  Searches <- K_Searches",
         "  SearchFronts <- K_SearchFronts", "  WapSuffixes <- K_WapSuffixes", "  GemUrls <- K_GemUrls", "  UrlSels <- K_UrlSels",
         "  RwChars <- K_RwChars", "  RwRests <- K_RwRests", "  SelFronts <- K_SelFronts", "  HLs <- K_HLs", "  CodeAccessKeys <- K_CodeAccessKeys"]
    if trace:
        c += ["CONSTRAINT Record", "POSTCONDITION Post"]
    else:
        c += ["INVARIANT " + i for i in INVARIANTS]
    c.append("CHECK_DEADLOCK FALSE")
    return "\n".join(c) + "\n"


# ---------------------------------------------------------------------------------------------------
# gamma: the site
def build_site(w):
    w.write("f", b"DOC:/f\nline two <&>\n\nafter the blank line\n")
    w.write("g.txt", b"DOC:/g.txt\n")
    w.write("p.html", b"<html><head><title>Page</title></head><body>DOC:/p.html</body></html>\n")
    w.write("img.gif", TINY_GIF + b"DOC:/img.gif")
    w.write("d/x", b"DOC:/d/x\n")
    w.write("d/gophermap", b"0ex\t/d/x\nhweb\tURL:http://h.example/p?q=1&r\n0remote\t/r\tother.example\t71\nabout this menu\n7find\t/echo.pyg\n")
    w.write("e/f", b"DOC:/e/f\n")
    w.write("a&b/x", b"DOC:/a&b/x\n")
    w.write("echo.pyg", ECHO_PYG, mode=0o755)
    for sel in ("/s/e b.pyg", "/s/e%41.pyg", "/s/e#.pyg", "/s/e&.pyg"):
        w.write(sel[1:], ECHO_PYG, mode=0o755)


class Site:
    """One World whose configuration (handler list, waptop, footer) is switched in place."""

    def __init__(self):
        from harness import world
        self.world_mod = world
        self.w = world.World(handlers="full")
        self.default_handlers = world.DEFAULT_HANDLERS
        self.full_handlers = world.FULL_HANDLERS
        build_site(self.w)
        self.state = None
        self.requests = 0
        self.memo = {}

    def configure(self, hl, waptop, footer):
        st = (hl, waptop, footer)
        if st == self.state:
            return
        cp = self.w.config
        cp.set("handlers.HandlerMultiplexer", "handlers", {"full": self.full_handlers, "default": self.default_handlers,
                                                           "norw": self.full_handlers.replace(", url.URLTypeRewriter", "")}[hl])
        cp.set("protocols.wap.WAPProtocol", "waptop", waptop)
        if footer is None:
            cp.remove_option("protocols.gemini.GeminiProtocol", "footer")
        else:
            cp.set("protocols.gemini.GeminiProtocol", "footer", footer)
        self.world_mod.reset_lazies()
        self.state = st

    def send(self, front, path, method="GET"):
        """front: H HS W (path = request path), M (path = everything after gemini://localhost), G (path = selector)."""
        data = path.encode("ascii")
        if front in ("H", "HS", "W"):
            raw, tls = method.encode() + b" " + data + b" HTTP/1.0\r\n\r\n", front == "HS"
        elif front == "M":
            raw, tls = b"gemini://localhost" + data + b"\r\n", True
        else:
            raw, tls = data + b"\r\n", False
        return self.raw(raw, tls)

    def raw(self, raw, tls):
        self.requests += 1
        return self.w.request(raw, tls=tls)

    def close(self):
        self.w.close()


# ---------------------------------------------------------------------------------------------------
# alpha: lexers (total: garbage in -> neutral records out)
def asc(s):
    if isinstance(s, bytes):
        s = s.decode("utf-8", "backslashreplace")
    return s.encode("ascii", "backslashreplace").decode("ascii")


_LOG = re.compile(r"\[(\w+)/(\w+)\](?:: (.*)$| EXCEPTION)")


def lex_log(r):
    proto = by = logsel = ""
    for line in r.log:
        m = _LOG.search(line)
        if m:
            proto, by, logsel = m.group(1), ("" if m.group(2) == "None" else m.group(2)), m.group(3) or ""
            break
    return {"proto": proto, "by": by, "logsel": asc(logsel), "escaped": r.escaped or ""}


def http_split(out):
    head, sep, body = out.partition(b"\r\n\r\n")
    lines = head.split(b"\r\n")
    m = re.match(rb"HTTP/\d\.\d (\d{3}) ?(.*)$", lines[0]) if sep else None
    if not m:
        return {"status": 0, "reason": "", "ctype": "", "lastmod": ""}, out
    hd = {}
    for ln in lines[1:]:
        k, _, v = ln.partition(b":")
        hd[k.strip().lower()] = v.strip()
    return {"status": int(m.group(1)), "reason": asc(m.group(2)), "ctype": asc(hd.get(b"content-type", b"")),
            "lastmod": asc(hd.get(b"last-modified", b""))}, body


def gif_info(body):
    le = lambda b: int.from_bytes(b, "little") if len(b) == 2 else -1      # noqa: E731
    return {"digest": hashlib.sha1(body).hexdigest()[:12], "magic": asc(body[:6]) if body[:3] == b"GIF" else "",
            "w": le(body[6:8]), "h": le(body[8:10]), "trailer": body[-1] if body else -1}


_DOC = re.compile(rb"DOC:([^\s<]+)")
_ECHO = re.compile(rb"SEARCH=(NONE|X[0-9a-f]*)")


def doc_id(body):
    m = _DOC.search(body)
    return asc(html.unescape(m.group(1).decode("utf-8", "backslashreplace"))) if m else ""


def echo_of(body):
    m = _ECHO.search(body)
    if not m:
        return {"got": "(no echo)", "gotnone": False}
    if m.group(1) == b"NONE":
        return {"got": "", "gotnone": True}
    return {"got": asc(bytes.fromhex(m.group(1)[1:].decode())), "gotnone": False}


def parent(sel):
    return sel.rsplit("/", 1)[0] or "/"


class _Node:
    __slots__ = ("tag", "attrs", "kids")

    def __init__(self, tag, attrs):
        self.tag, self.attrs, self.kids = tag, attrs, []

    def text(self):
        return "".join(k if isinstance(k, str) else k.text() for k in self.kids)

    def find(self, tag):
        for k in self.kids:
            if not isinstance(k, str):
                if k.tag == tag:
                    return k
                f = k.find(tag)
                if f is not None:
                    return f
        return None


NO_DECK = {"wf": False, "pubid": "", "sysid": "", "root": "", "cards": [], "nest": [], "heading": "", "paras": 0}


def lex_wml(body):
    """-> (deck, rows).  Rows: the first card's first paragraph, split at <br/>."""
    deck = dict(NO_DECK)
    doctype = {}
    root = _Node("#doc", {})
    stack = [root]
    p = xml.parsers.expat.ParserCreate()
    p.StartDoctypeDeclHandler = lambda name, sysid, pubid, internal: doctype.update(name=name, sysid=sysid or "", pubid=pubid or "")

    def start(tag, attrs):
        n = _Node(tag, attrs)
        stack[-1].kids.append(n)
        stack.append(n)

    def chars(data):
        stack[-1].kids.append(data)
    p.StartElementHandler = start
    p.EndElementHandler = lambda tag: stack.pop()
    p.CharacterDataHandler = chars
    try:
        p.Parse(body, True)
        deck["wf"] = True
    except xml.parsers.expat.ExpatError:
        return deck, []
    top = [k for k in root.kids if not isinstance(k, str)]
    if not top:
        return deck, []
    deck.update(pubid=asc(doctype.get("pubid", "")), sysid=asc(doctype.get("sysid", "")), root=asc(top[0].tag))
    if doctype.get("name") != top[0].tag:
        deck["pubid"] = "(doctype names %s)" % asc(doctype.get("name", ""))
    cards = [k for k in top[0].kids if not isinstance(k, str) and k.tag == "card"]
    deck["cards"] = [{"id": asc(c.attrs.get("id", "")), "title": asc(c.attrs.get("title", "")),
                      "newcontext": asc(c.attrs.get("newcontext", ""))} for c in cards]
    nest = []

    def walk(n):
        for k in n.kids:
            if isinstance(k, str):
                pair = [asc(n.tag), "#text"] if k.strip() else None
            else:
                pair = [asc(n.tag), asc(k.tag)]
                walk(k)
            if pair and pair not in nest:
                nest.append(pair)
    walk(top[0])
    deck["nest"] = nest
    rows = []
    if cards:
        paras = [k for k in cards[0].kids if not isinstance(k, str) and k.tag == "p"]
        deck["paras"] = len(paras)
        if paras:
            segs, cur = [], []
            for k in paras[0].kids:
                if not isinstance(k, str) and k.tag == "br":
                    segs.append(cur)
                    cur = []
                else:
                    cur.append(k)
            segs.append(cur)
            for seg in segs:
                els = [k for k in seg if not isinstance(k, str)]
                tags = [k.tag for k in els]
                if "b" in tags and not rows and not deck["heading"]:
                    deck["heading"] = asc(els[tags.index("b")].text())
                    continue
                lead = ""
                for k in seg:
                    if not isinstance(k, str):
                        break
                    lead += k
                row = {"kind": "info", "name": "", "key": "", "label": "", "href": "", "input": "", "pname": "", "pvalue": "", "method": ""}
                if ("input" in tags or "anchor" in tags) and "a" not in tags and not lead.strip():
                    if not rows:
                        rows.append(row)
                    row = rows[-1]
                    row["kind"] = "search"
                    if "input" in tags:
                        row["input"] = asc(els[tags.index("input")].attrs.get("name", ""))
                    if "anchor" in tags:
                        go = els[tags.index("anchor")].find("go")
                        if go is not None:
                            row["method"] = asc(go.attrs.get("method", ""))
                            row["href"] = asc(go.attrs.get("href", ""))
                            pf = go.find("postfield")
                            if pf is not None:
                                row["pname"], row["pvalue"] = asc(pf.attrs.get("name", "")), asc(pf.attrs.get("value", ""))
                    continue
                if "a" in tags:
                    a = els[tags.index("a")]
                    row.update(kind="link", name=asc(a.text()), key=asc(a.attrs.get("accesskey", "")), label=asc(lead.strip()),
                               href=asc(a.attrs.get("href", "")))
                else:
                    txt = "".join(k if isinstance(k, str) else k.text() for k in seg).strip()
                    if not txt and not els:
                        continue
                    row["name"] = asc(txt)
                rows.append(row)
    return deck, rows


class _HtmlMenu(html.parser.HTMLParser):
    def __init__(self):
        super().__init__(convert_charrefs=True)
        self.rows, self.cur, self.in_table, self.in_tt = [], None, False, False

    def handle_starttag(self, tag, attrs):
        a = dict(attrs)
        if tag == "table":
            self.in_table = True
        elif not self.in_table:
            return
        elif tag == "tr":
            self.cur = {"kind": "info", "name": "", "href": "", "icon": "", "w": -1, "h": -1}
            self.rows.append(self.cur)
        elif self.cur is None:
            return
        elif tag == "img":
            self.cur["icon"] = asc(a.get("src") or "")
            for f, key in (("w", "width"), ("h", "height")):
                try:
                    self.cur[f] = int(a.get(key) or "")
                except ValueError:
                    self.cur[f] = -1
        elif tag == "a" and self.cur["kind"] == "info":
            self.cur["kind"], self.cur["href"] = "link", asc(a.get("href") or "")
        elif tag == "form":
            self.cur["kind"], self.cur["href"] = "search", asc(a.get("action") or "")
        elif tag == "tt":
            self.in_tt = True

    def handle_endtag(self, tag):
        if tag == "table":
            self.in_table, self.cur = False, None
        elif tag == "tt":
            self.in_tt = False

    def handle_data(self, data):
        if self.in_tt and self.cur is not None:
            self.cur["name"] += asc(data)


def lex_html_menu(body):
    p = _HtmlMenu()
    try:
        p.feed(body.decode("utf-8", "backslashreplace"))
        p.close()
    except Exception:          # noqa: BLE001 - lexers are total
        pass
    return p.rows


class _UrlPage(html.parser.HTMLParser):
    def __init__(self):
        super().__init__(convert_charrefs=True)
        self.page = {"refresh": -1, "target": "", "hrefs": [], "tags": []}

    def handle_starttag(self, tag, attrs):
        a = dict(attrs)
        t = tag.upper()
        if t not in self.page["tags"]:
            self.page["tags"].append(asc(t))
        if t == "META" and (a.get("http-equiv") or "").lower() == "refresh":
            m = re.match(r"\s*(\d+)\s*;\s*url=(.*)$", a.get("content") or "", re.I | re.S)
            if m and self.page["refresh"] < 0:
                self.page["refresh"], self.page["target"] = min(int(m.group(1)), 10 ** 6), asc(m.group(2))
        for attr in ("href", "src", "action", "background"):
            if t != "META" and a.get(attr) is not None:
                self.page["hrefs"].append(asc(a[attr]))


def lex_url_page(body):
    p = _UrlPage()
    try:
        p.feed(body.decode("utf-8", "backslashreplace"))
        p.close()
    except Exception:          # noqa: BLE001
        pass
    return p.page


NO_PAGE = {"refresh": -1, "target": "", "hrefs": [], "tags": []}


def gem_lex_line(s):
    if not s.startswith("=>"):
        return {"kind": "text", "url": "", "name": asc(s)}
    r = s[2:].lstrip(" \t")
    m = re.match(r"([^ \t]*)[ \t]*(.*)$", r, re.S)
    return {"kind": "link", "url": asc(m.group(1)), "name": asc(m.group(2))}


def lex_gemini(out):
    m = re.match(rb"(\d\d) ([^\r\n]*)(\r\n)?", out)
    if not m:
        return {"status": 0, "meta": "", "metalen": 0, "crlf": False, "nbody": len(out)}, out
    return {"status": int(m.group(1)), "meta": asc(m.group(2)), "metalen": len(m.group(2)), "crlf": m.group(3) is not None,
            "nbody": len(out) - m.end()}, out[m.end():]


def classify(front, r, waptop, prefix):
    """Generic observation of one answer: cls, obj, id (+ front-end specific fields)."""
    o = {"status": 0, "reason": "", "ctype": "", "lastmod": "", "cls": "other", "obj": "none", "id": "", "nbody": 0,
         "rows": [], "deck": dict(NO_DECK), "page": dict(NO_PAGE), "meta": "", "metalen": 0, "crlf": False}
    o.update(lex_log(r))
    out = r.out
    if front in ("H", "HS", "W"):
        hd, body = http_split(out)
        o.update(hd)
        o["nbody"] = len(body)
        if hd["status"] == 404 or hd["reason"] == "Not Found":
            o["cls"] = "notfound"
        elif hd["status"] == 200:
            o["cls"] = "ok"
        if hd["ctype"] == "text/vnd.wap.wml":
            o["deck"], rows = lex_wml(body)
            title = o["deck"]["cards"][0]["title"] if o["deck"]["cards"] else ""
            if o["cls"] == "ok" and body:
                if title == "Text File":
                    o["obj"], o["id"] = "doc", doc_id(body)
                else:
                    o["obj"], o["rows"] = "menu", rows
                    loc = [x["href"] for x in rows if x["kind"] == "link" and x["href"].startswith(waptop + "/")]
                    o["id"] = asc(parent(urllib.parse.unquote(loc[0][len(waptop):]))) if loc else ""
        elif o["cls"] == "ok" and body:
            page = lex_url_page(body) if hd["ctype"] == "text/html" else dict(NO_PAGE)
            if page["refresh"] >= 0:
                o["obj"], o["page"], o["id"] = "url", page, page["target"]
            elif hd["ctype"] == "text/html" and b"<TABLE" in body:
                o["obj"], o["rows"] = "menu", lex_html_menu(body)
                loc = [x["href"] for x in o["rows"] if x["kind"] == "link" and x["href"].startswith("/")]
                o["id"] = asc(parent(urllib.parse.unquote(loc[0]))) if loc else ""
            else:
                o["obj"], o["id"] = "doc", doc_id(body)
    elif front == "M":
        hd, body = lex_gemini(out)
        o.update(hd)
        o["ctype"] = hd["meta"]
        o["cls"] = {20: "ok", 51: "notfound", 10: "prompt", 30: "redirect", 59: "bad"}.get(hd["status"], "other")
        if hd["status"] == 20:
            if hd["meta"].startswith("text/gemini"):
                text = body.decode("utf-8", "backslashreplace")
                lines = text.split("\n")
                if lines and lines[-1] == "":
                    lines.pop()
                o["obj"], o["rows"] = "menu", [gem_lex_line(x) for x in lines]
                loc = [x["url"] for x in o["rows"] if x["kind"] == "link" and x["url"].startswith("/")
                       and not x["url"].startswith(prefix + "/")]
                o["id"] = asc(parent(urllib.parse.unquote(loc[0]))) if loc else ""
            else:
                page = lex_url_page(body) if hd["meta"] == "text/html" else dict(NO_PAGE)
                if page["refresh"] >= 0:
                    o["obj"], o["page"], o["id"] = "url", page, page["target"]
                else:
                    o["obj"], o["id"] = "doc", doc_id(body)
    else:                                     # plain Gopher
        o["nbody"] = len(out)
        first = out.split(b"\r\n", 1)[0]
        lines = [x for x in out.split(b"\r\n") if x and x != b"."]
        if first.startswith(b"3") and first.endswith(b"\terror.host\t1"):
            o["cls"] = "notfound"
        elif out:
            o["cls"] = "ok"
            page = lex_url_page(out) if b"<META" in out.upper() else dict(NO_PAGE)
            if page["refresh"] >= 0:
                o["obj"], o["page"], o["id"] = "url", page, page["target"]
            elif lines and all(x.count(b"\t") >= 3 for x in lines):
                o["obj"] = "menu"
                loc = [x.split(b"\t")[1] for x in lines if x[:1] != b"i" and x.split(b"\t")[1].startswith(b"/")]
                o["id"] = asc(parent(loc[0].decode("utf-8", "backslashreplace"))) if loc else ""
            elif _DOC.search(out):
                o["obj"], o["id"] = "doc", doc_id(out)
            else:
                o["obj"] = "doc"
    return o


# ---------------------------------------------------------------------------------------------------
# gamma + alpha per family: one trace per case
def gophermap_of(es):
    out = []
    for e in es:
        if e["type"] == "i":
            out.append("i%s\tfake\t(NULL)\t0" % e["name"])
        else:
            out.append("%s%s\t%s" % (e["type"], e["name"], e["sel"]))
    return ("\n".join(out) + ("\n" if out else "")).encode("ascii")


def pick(o, *names):
    return {n: o[n] for n in names}


def run_icon(site, k, run, c, extra):
    path = extra["path"]
    r = site.send(c["front"], path, c["method"])
    o = classify(c["front"], r, run["waptop_text"], k["prefix"])
    hd, body = http_split(r.out)
    ev = {"ev": "icon", "front": c["front"], "method": c["method"], "path": path}
    ev.update(pick(o, "status", "reason", "ctype", "lastmod", "nbody", "cls", "escaped"))
    ev.update(gif_info(body))
    return [ev]


def run_menu(site, k, run, c, extra):
    name = "m%d_%d_%d_%s" % (c["n"], c["ip"], c["sp"], c["pat"])
    sel = "/menus/" + name
    site.w.write(sel[1:] + "/gophermap", gophermap_of(extra["es"]))
    evs = []
    srcs = []
    tags = {}
    for front in ("W", "H", "M"):
        path = (run["waptop_text"] if front == "W" else "") + sel
        r = site.send(front, path)
        o = classify(front, r, run["waptop_text"], k["prefix"])
        ev = {"ev": "menu", "front": front, "path": path, "srcs": []}
        ev.update(pick(o, "status", "ctype", "cls", "rows", "deck", "crlf", "escaped"))
        if front == "H":
            for row in o["rows"]:
                if row["icon"] and row["icon"] not in srcs:
                    srcs.append(row["icon"])
                    tags[row["icon"]] = (row["w"], row["h"])
            ev["srcs"] = list(srcs)
        evs.append(ev)
    for src in srcs:                          # every icon the listing references is fetched as a browser would
        memo = site.memo.setdefault((site.state, src), {})      # (the answer to one GET is recorded once per configuration)
        if not memo:
            r = site.send("H", src if src.startswith("/") else "/" + src)
            hd, body = http_split(r.out)
            memo.update(nbody=len(body), escaped=r.escaped or "")
            memo.update(pick(hd, "status", "ctype"))
            memo.update(gif_info(body))
        ev = {"ev": "iconref", "src": src, "tagw": tags[src][0], "tagh": tags[src][1]}
        ev.update(memo)
        evs.append(ev)
    return evs, {"name": name, "sel": sel}


def run_search(site, k, run, c, extra):
    evs = []
    loc = ""
    for step, rq in enumerate(extra["reqs"], 1):
        line = rq["line"]
        if c["front"] == "M" and step == 3:      # follow the redirect the server actually sent (RFC 3986 resolution
            base = extra["href"]                  # against the item's own reference, as Links!RefPath)
            line = "gemini://localhost" + (loc if loc.startswith("/") else base[:base.rfind("/") + 1] + loc) + "\r\n"
        raw = (line + rq["rest"]).encode("ascii")
        r = site.raw(raw, rq["tls"])
        o = classify(c["front"], r, run["waptop_text"], k["prefix"])
        body = r.out
        ev = {"ev": "dlg", "step": step, "front": c["front"], "line": line, "rest": rq["rest"], "tls": rq["tls"], "loc": ""}
        ev.update(pick(o, "status", "cls", "nbody", "meta", "crlf", "by", "logsel", "escaped"))
        ev.update(echo_of(body))
        if c["front"] == "M" and o["status"] == 30:
            ev["loc"] = loc = o["meta"]
        evs.append(ev)
        if c["front"] == "M" and step == 1 and o["status"] != 10:
            break                               # a client only types into a prompt
        if c["front"] == "M" and step == 2 and o["status"] != 30:
            break
    return evs


def run_wapdoc(site, k, run, c, extra):
    path = extra["path"]
    r = site.send("H", path, c["method"])
    o = classify("W", r, run["waptop_text"], k["prefix"])
    ev = {"ev": "wapdoc", "method": c["method"], "path": path}
    ev.update(pick(o, "status", "reason", "ctype", "cls", "obj", "id", "nbody", "proto", "by", "logsel", "deck", "rows", "escaped"))
    return [ev]


def run_gem(site, k, run, c, extra):
    url = c["url"].replace("@", "a" * PAD)
    raw = url.encode("ascii") + b"\r\n"
    r = site.raw(raw, True)
    o = classify("M", r, run["waptop_text"], k["prefix"])
    gmime = ""
    if o["status"] == 20 and o["logsel"]:      # the MIME type the Gopher+ front end reports for the selector served
        g = site.raw(o["logsel"].encode("ascii", "replace") + b"\t!\r\n", False)
        m = re.search(rb"\+VIEWS:\r\n ([^ :\r\n]+)", g.out)
        gmime = asc(m.group(1)) if m else ""
    ev = {"ev": "gem", "url": c["url"], "reqlen": len(raw), "gmime": gmime}
    ev.update(pick(o, "status", "meta", "metalen", "crlf", "cls", "obj", "id", "nbody", "by", "logsel", "escaped"))
    return [ev]


def run_sel(site, k, run, c, extra):
    evs = []
    for role, sel, req, hl in extra["reqs"]:
        site.configure(hl, run["waptop_text"], run["footer_text"])
        r = site.send(c["front"], req)
        o = classify(c["front"], r, run["waptop_text"], k["prefix"])
        ev = {"ev": "fetch", "role": role, "front": c["front"], "hl": hl, "sel": sel, "req": req}
        ev.update(pick(o, "status", "ctype", "cls", "obj", "id", "by", "page", "escaped"))
        evs.append(ev)
    return evs


MACHINERY = {"ClientMismatch", "unmatched", "Incomplete", "stuck"}
RUNNERS = {"icon": run_icon, "menu": run_menu, "search": run_search, "wapdoc": run_wapdoc, "gem": run_gem, "sel": run_sel}


# ---------------------------------------------------------------------------------------------------
def plain(v):
    """tlaparse values -> JSON-able (records -> dict, sequences -> list)."""
    if isinstance(v, dict):
        return {str(a): plain(b) for a, b in v.items()}
    if isinstance(v, (list, tuple)):
        return [plain(x) for x in v]
    if isinstance(v, (bool, int)):
        return v
    return str(v)


def model_check(chk, k, t, run, extra_cases=True):
    files = {"MC_XWEB_consts.tla": consts_module(k, t, run), "MC_XWEB_run.cfg": cfg_text(k, run, False)}
    res = tlc.run_tlc("MC_XWEB", "MC_XWEB_run.cfg", extra_files=files, dump=True, timeout=1500)
    cases = []
    try:
        if res["inv_violations"]:          # (TLC stops at the first violated invariant: there may be no counters)
            chk.model_violation("MC_XWEB", sorted(set(res["inv_violations"])), res["out"][-3000:])
            res.setdefault("distinct", 0)
            res.setdefault("generated", 0)
            return res, []
        if res["tlc_error"] or "distinct" not in res:
            raise tlc.TLCError("TLC failed on MC_XWEB:\n%s" % (res["tlc_error"] or res["out"])[-3000:])
        for st in iter_dump_states(res["dump"], wanted={"fam", "c", "st", "res", "x"}):
            if st["res"] == "new":
                continue
            cases.append({"fam": str(st["fam"]), "c": plain(st["c"]), "x": plain(st["x"]), "res": str(st["res"])})
    finally:
        tlc.cleanup(res)
    cases.sort(key=lambda x: json.dumps([x["fam"], x["c"]], sort_keys=True))
    return res, cases


def case_key(run, case):
    return "%s|waptop=%s|%s" % (case["fam"], run["waptop_text"], json.dumps(case["c"], sort_keys=True))


def flat_case(run, case):
    d = {"fam": case["fam"], "waptop": run["waptop_text"], "footer": run["footer_text"] if run["footer_text"] is not None else "(none)"}
    d.update(case["c"])
    return d


def make_trace(site, k, run, case):
    c = case["c"]
    hl = c.get("hl") or ("full" if case["fam"] == "search" else "default")
    site.configure(hl, run["waptop_text"], run["footer_text"])
    out = RUNNERS[case["fam"]](site, k, run, c, case["x"])
    evs, more = out if isinstance(out, tuple) else (out, {})
    init = {"fam": case["fam"], "c": c}
    init.update(more)
    return {"id": case_key(run, case), "init": init, "events": evs}


def resolve_run(k, run):
    r = dict(run)
    r["waptop_text"] = run["waptop"] or k["waptop"]
    r["footer_text"] = k["footer"] if run["footer"] == "conf" else run["footer"]
    return r


def validate(k, t, run, traces):
    files = {"MC_XWEB_consts.tla": consts_module(k, t, run), "TraceXWEB_run.cfg": cfg_text(k, run, True)}
    return tlc.validate_traces("TraceXWEB", "TraceXWEB_run.cfg", traces, extra_files=files, timeout=1500, chunk=1500)


def selftest(k, t, run, traces):
    """Binding demonstration: corrupted / truncated recorded traces must be rejected by TraceXWEB."""
    def first(fam, pred=lambda tr: True):
        for tr in traces:
            if tr["init"]["fam"] == fam and pred(tr):
                return json.loads(json.dumps(tr))
        return None
    muts = []
    tr = first("menu", lambda x: x["init"]["c"]["n"] >= 3 and x["init"]["c"]["pat"] == "single" and x["init"]["c"]["ip"] == 0 and x["init"]["c"]["sp"] == 0)
    if tr:
        a = json.loads(json.dumps(tr))
        a["events"][0]["rows"][1]["key"] = a["events"][0]["rows"][1]["label"] = "1"
        muts.append(("AccessKeys", a))
        b = json.loads(json.dumps(tr))
        del b["events"][-1]
        muts.append(("Incomplete", b))
        d = json.loads(json.dumps(tr))
        d["events"][1]["rows"][0]["icon"] = "/PYGOPHERD-HTTPPROTO-ICONS/blank.gif"
        muts.append(("RowIcon", d))
    tr = first("icon", lambda x: x["init"]["c"]["shape"] == "plain" and x["init"]["c"]["method"] == "GET" and x["init"]["c"]["name"] == "text.gif")
    if tr:
        tr["events"][0]["digest"] = "000000000000"
        muts.append(("IconBytes", tr))
    tr = first("gem", lambda x: x["init"]["c"]["url"].endswith("/nosuch"))
    if tr:
        tr["events"][0]["status"] = 20
        muts.append(("GemNotFound", tr))
    tr = first("sel", lambda x: len(x["events"]) == 2 and x["events"][1]["cls"] == "ok")
    if tr:
        tr["events"][1]["id"] = "/elsewhere"
        muts.append(("RewriteSame", tr))
    if len(muts) < 4:
        raise core.MachineryError("selftest: not enough recorded traces to corrupt")
    tv = validate(k, t, run, [m[1] for m in muts])
    got = {rj["index"]: rj["clause"] for rj in tv["rejected"]}
    for i, (want, _tr) in enumerate(muts):
        if got.get(i) != want:
            raise core.MachineryError("selftest: corrupted trace %d expected %s, TraceXWEB said %s" % (i, want, got.get(i, "accepted")))
    return len(muts)


def main(chk, replay=None):
    t = TIERS[chk.tier]
    k = b1()
    site = Site()
    cov = {"states": 0, "transitions": 0, "traces_validated_against_impl": 0, "evaluations": 0, "exhaustive": True, "samples": [],
           "per_family": {}, "checker_cmd": "", "runs": []}
    nontrivial = {"keys_exhausted": 0, "icons_served": 0, "rewritten": 0, "prompts": 0, "redirect_pages": 0, "decks": 0, "searches_arrived": 0}
    drift = []
    try:
        if replay:
            with open(replay) as fp:
                rp = json.load(fp)
            run = rp["detail"]["run"]
            case = rp["detail"]["case"]
            tr = make_trace(site, k, run, case)
            tv = validate(k, t, run, [tr])
            for rj in tv["rejected"]:
                chk.violation(rp["key"], rj["clause"], flat_case(run, case), {"run": run, "case": case, "trace": tr})
            cov.update(traces_validated_against_impl=tv["accepted"], evaluations=1, exhaustive=False)
            return chk.finish(cov, ["replay of one stored case"])
        all_first = None
        for run0 in t["runs"]:
            run = resolve_run(k, run0)
            res, cases = model_check(chk, k, t, run)
            if not cases and chk.violations:          # the model itself is violated (B1 constants): verdict reached
                cov["exhaustive"] = False
                return chk.finish(cov, ["the bounded model violates an invariant with the constants of this tree; no replay"])
            cov["states"] += res["distinct"]
            cov["transitions"] += res["generated"]
            cov["checker_cmd"] = res["cmd"]
            traces = []
            for case in cases:
                tr = make_trace(site, k, run, case)
                if not tr["events"]:
                    raise core.MachineryError("no events recorded for %s" % tr["id"])
                traces.append(tr)
                fam = case["fam"]
                cov["per_family"][fam] = cov["per_family"].get(fam, 0) + 1
                for ev in tr["events"]:
                    if ev["ev"] == "menu" and ev["front"] == "W":
                        nontrivial["decks"] += 1
                        links = [r for r in ev["rows"] if r["kind"] == "link"]
                        if len(links) > len(k["accesskeys"]) and any(not r["key"] for r in links):
                            nontrivial["keys_exhausted"] += 1
                    elif ev["ev"] in ("icon", "iconref") and ev["status"] == 200 and ev.get("magic"):
                        nontrivial["icons_served"] += 1
                    elif ev["ev"] == "fetch" and ev["role"] == "subject" and len(tr["events"]) == 2 and ev["cls"] == "ok":
                        nontrivial["rewritten"] += 1
                    elif ev["ev"] == "fetch" and ev["obj"] == "url":
                        nontrivial["redirect_pages"] += 1
                    elif ev["ev"] == "dlg" and ev["status"] == 10:
                        nontrivial["prompts"] += 1
                    elif ev["ev"] == "dlg" and ev["cls"] == "ok" and not ev["gotnone"] and ev["got"] == case["c"]["q"]:
                        nontrivial["searches_arrived"] += 1
            tv = validate(k, t, run, traces)
            cov["traces_validated_against_impl"] += tv["accepted"]
            cov["evaluations"] += len(traces)
            cov["runs"].append({"waptop": run["waptop_text"], "footer": run["footer_text"], "fams": run["fams"], "cases": len(cases),
                                "tlc_states": res["distinct"], "tlc_wall_s": res["wall_s"], "trace_wall_s": tv["wall_s"]})
            for rj in tv["rejected"]:
                case = cases[rj["index"]]
                tr = traces[rj["index"]]
                if rj["clause"] in MACHINERY:
                    raise core.MachineryError("trace %s: %s at event %s\n%s" % (tr["id"], rj["clause"], rj["at"],
                                                                              json.dumps(tr["events"])[:1500]))
                chk.violation(case_key(run, case) + "|" + rj["clause"], rj["clause"], flat_case(run, case),
                              {"run": run, "case": case, "at": rj["at"], "trace": tr})
            drift += [dict(d, run=run["waptop_text"]) for d in tv["drift"]]
            if all_first is None:
                all_first = (run, traces)
                cov["samples"] = [{"id": x["id"], "events": x["events"][:1]} for x in traces[:: max(1, len(traces) // 6)][:6]]
        chk.note_drift(drift)
        if min(nontrivial.values()) == 0:
            raise core.MachineryError("vacuous run: %r" % nontrivial)
        cov["selftest_corrupted_traces_rejected"] = selftest(k, t, all_first[0], all_first[1])
        cov["requests_to_real_server"] = site.requests
        cov["distinct_nontrivial"] = sum(nontrivial.values())
        cov["nontrivial"] = nontrivial
        cov["rule"] = ("counted from the lexed answers: WAP decks lexed, decks with more link rows than access keys, icons served "
                       "with a GIF body, /X/path requests answered like /path, redirect pages, Gemini prompts, search strings echoed back")
        return chk.finish(cov, [
            "not one of the listed properties; clauses and their documentation sources are in the header of spec/Web.tla",
            "requests are pushed through World.request (real GopherRequestHandler, in-memory socket; TLS = ssl.SSLSocket subclass mock)",
            "content tree fixed (harness build_site); menus are Bucktooth gophermap files written from the entries TLC enumerated",
            "text is ASCII; byte-class selectors (non-UTF-8) are C05/C06 territory",
            "icon digests and the access-key string are pinned in spec/Web.tla (not imported from the tree under test)"])
    finally:
        site.close()
