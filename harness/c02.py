"""C02 - protocol autodetection is deterministic, ordered and strict about TLS.

Design model: spec/Wire.tla (documented shapes + transcription of every canhandlerequest and of
getProtocol) checked by MC_C02_lines, and spec/WireSniff.tla (peek / decide) checked by MC_C02_sniff.
B1: the shipped protocol order and waptop are read from $VERIF_REPO/conf/pygopherd.conf and emitted as the
    constants module MC_C02_consts.tla that both the models and the trace specification extend.
B2: every case TLC enumerated (state dump) is concretised (gamma: class characters -> representative
    bytes, header kinds -> header lines) and pushed through the REAL ProtocolMultiplexer.getProtocol
    (shipped list, every protocol alone, every other list) resp. the REAL BaseServer.wrap_socket on a
    socketpair with a recording socket and a recording stand-in TLS context; and every case also goes, with the
    shipped list, through the REAL connection handler (World.request = GopherRequestHandler.handle, which reads
    the request line itself) - long lines (family L) additionally with every class alone.
B3: what was observed is written as traces and judged by TLC against spec/trace/TraceC02.tla.
This file contains gamma, the drivers and alpha only - no property logic."""
from __future__ import annotations

import configparser
import io
import json
import os
import re
import socket
import sys
import time

from harness import core, tlc
from harness.tlaparse import iter_dump_states

UNIVERSE = ["WAPProtocol", "GeminiProtocol", "HTTPProtocol", "HTTPSProtocol", "SpartanProtocol",
            "GopherPlusProtocol", "SecureGopherPlusProtocol", "GopherProtocol", "SecureGopherProtocol",
            "EnhancedGopherProtocol", "URLGopherPlus"]
BUILTIN_SHIPPED = UNIVERSE[:9]
FINDING_EMPTY_PLUS = "C02-gopherplus-empty-field"
FINDING_GLUED = "C02-wap-accept-glued"

# ---------------------------------------------------------------------------------------------
# gamma: abstract characters / header kinds -> concrete bytes (several representatives per class)
# ---------------------------------------------------------------------------------------------
CLASS_REPS = {
    "#": [b"\xff", b"\x80", b"\xc3"],                                   # HI: invalid UTF-8 -> lone surrogate
    "_": ["\u00a0".encode(), "\u2003".encode(), "\u0085".encode()],    # NB: Unicode blanks that strip() removes
    "^": [b"\x1c", b"\x0b", b"\x1f"],                                   # FS: ASCII control blanks
    "x": [b"x", b"q", b"B"],                                            # an ordinary ASCII letter
    "0": [b"0", b"5", b"9"],                                            # a digit
    "=": ["\u0663".encode(), "\uff13".encode(), "\u096d".encode()],      # UD: a Unicode decimal digit (valid UTF-8)
    "~": [b"_", b"_", b"_"],                                            # US: the ASCII underscore itself
}
# Header lines: NAME ":" VALUE EOL.  For the Accept kinds the VALUE spellings cover the position of the WML type in
# the list (first, only, middle, last), a blank / no blank after the colon, comma / comma-blank / blank separators
# and parameters.  gamma picks one spelling PER OCCURRENCE (stable hash of seed, case and position), so that every
# spelling is exercised many times within one run whatever the seed.
WML = "text/vnd.wap.wml"
ACCEPT_VALUES = {
    "AW": [" text/html, " + WML, " " + WML, " " + WML + ", text/html", " text/html," + WML + ",*/*",
           "text/html," + WML, " text/html " + WML, " */*, " + WML + ";q=0.5", "text/html, " + WML + ", image/gif",
           " " + WML + ",text/html;q=0.9", "  " + WML, " image/gif ," + WML,
           "\u00a0" + WML, " text/html\u2003" + WML, "text/html,\u00a0" + WML],      # Unicode blanks (valid UTF-8) are blanks
    "AG": [WML, WML + ",text/html", WML + ", */*;q=0.1", "\t" + WML, WML + ";q=1"],     # WML first, nothing (or a TAB) before it
    "AO": [" text/html", " */*", "", "text/html,image/gif", " text/html, application/xhtml+xml", " text/vnd.wap", " image/vnd.wap.wbmp",
           " text/html\udca0" + WML, " a,\udc85" + WML, "\udca0" + WML, " x\udcff" + WML],   # an invalid-UTF-8 byte glued to the WML type
}
ACCEPT_NAMES = ["Accept", "ACCEPT", "accept", "aCCept"]
EOLS = [b"\r\n", b"\n"]
HDR_REPS = {
    "XP": [b"x-wap-profile: http://example.com/p.xml\r\n", b"X-Wap-Profile: \"http://a/b\"\r\n", b"X-WAP-PROFILE: a:b\n",
           b"x-wap-profile:http://example.com/p.xml\r\n"],
    "XU": [b"x-up-devcap-max-pdu: 1024\r\n", b"X-Up-Devcap-Max-Pdu: 1\r\n", b"X-UP-DEVCAP-MAX-PDU:\n", b"x-up-devcap-max-pdu:2048\n"],
    "NC": [b"no colon here\r\n", b"HTTP/1.0 junk\r\n", b"x\n"],
    "BL": [b"\r\n", b"\n", b" \t\r\n", b"\xc2\xa0\r\n", b"\xe2\x80\x83 \n"],          # incl. lines of Unicode blanks (valid UTF-8)
    "HB": [b"\xa0\r\n", b"\x85\r\n", b"\xff\n", b"\xa0\x85\r\n", b" \xa0 \r\n"],
    "HX": [b"\xa0Accept: " + WML.encode() + b"\r\n", b"Accept\x85: text/html, " + WML.encode() + b"\r\n",
           b"\x85x-wap-profile: http://example.com/p.xml\r\n", b"x-up-devcap-max-pdu\xa0: 1024\n", b"\xffaccept:" + WML.encode() + b"\n"],
}
FILLER = [b"k", b"j", b"Z"]          # PAD "@": a run of `pad` filler letters (letters no token or class uses)
NREPS = 3
HSEED = 0          # set from chk.seed (and from the replay file)


def _pick(n, *key):
    import zlib
    return zlib.crc32(repr(key).encode("utf-8", "surrogateescape")) % n


def concretise_line(line: str, rep: int, pad: int = 0) -> bytes:
    return b"".join(FILLER[rep % len(FILLER)] * pad if c == "@" else
                    CLASS_REPS[c][rep % len(CLASS_REPS[c])] if c in CLASS_REPS else c.encode("ascii") for c in line)


def abstract_line(data: bytes):
    """alpha for the input (round-trip guard of gamma): decoded request -> (model string, length of the PAD run)."""
    s = data.decode(errors="surrogateescape")
    pad = 0
    m = re.search("k+|j+|Z+", s)
    if m:
        pad = m.end() - m.start()
        s = s[:m.start()] + "@" + s[m.end():]
    out = []
    for ch in s:
        o = ord(ch)
        if 0xDC80 <= o <= 0xDCFF:
            out.append("#")
        elif o >= 0x80:
            out.append("_" if ch.isspace() else "=" if ch.isdecimal() else "?")
        elif ch == "_":
            out.append("~")
        elif ch in "\x0b\x0c\x1c\x1d\x1e\x1f":
            out.append("^")
        elif ch in "qB":
            out.append("x")
        elif ch in "59":
            out.append("0")
        else:
            out.append(ch)
    return "".join(out), pad


def concretise_hdrs(case, rep: int):
    """-> (header lines as bytes, spelling ids such as 'AW3')"""
    out, ids = [], []
    hdrs = case["hdrs"]
    for pos, k in enumerate(hdrs):
        key = (HSEED, case["line"], case["tls"], tuple(hdrs), pos, rep) + ((case["pad"],) if case.get("pad") else ())
        if k in ACCEPT_VALUES:
            vals = ACCEPT_VALUES[k]
            i = _pick(len(vals), "v", *key)
            name = ACCEPT_NAMES[_pick(len(ACCEPT_NAMES), "n", *key)]
            out.append(name.encode() + b":" + vals[i].encode("utf-8", "surrogateescape") + EOLS[_pick(2, "e", *key)])
        else:
            i = _pick(len(HDR_REPS[k]), "h", *key)
            out.append(HDR_REPS[k][i])
        ids.append("%s%d" % (k, i))
    return out, ids


# ---------------------------------------------------------------------------------------------
# B1: constants from the working tree
# ---------------------------------------------------------------------------------------------
def read_conf():
    """(shipped class names, {class name: conf expression}, waptop, bound?)"""
    try:
        cp = configparser.ConfigParser()
        cp.read(os.path.join(core.REPO, "conf", "pygopherd.conf"))
        text = cp.get("protocols.ProtocolMultiplexer", "protocols")
        entries = re.findall(r"[A-Za-z_][\w.]*", text)
        names = [e.split(".")[-1] for e in entries]
        waptop = cp.get("protocols.wap.WAPProtocol", "waptop")
        if not entries:
            raise ValueError("empty protocol list")
        return names, dict(zip(names, entries)), waptop, True
    except Exception:
        return list(BUILTIN_SHIPPED), {}, "/wap", False


def tla(v) -> str:
    if isinstance(v, bool):
        return "TRUE" if v else "FALSE"
    if isinstance(v, int):
        return str(v)
    if isinstance(v, str):
        esc = {"\\": "\\\\", '"': '\\"', "\t": "\\t", "\n": "\\n", "\r": "\\r", "\f": "\\f"}
        return '"' + "".join(esc.get(c, c) for c in v) + '"'
    if isinstance(v, (list, tuple)):
        return "<<" + ", ".join(tla(x) for x in v) + ">>"
    if isinstance(v, (set, frozenset)):
        return "{" + ", ".join(sorted(tla(x) for x in v)) + "}"
    if isinstance(v, dict):
        return "[" + ", ".join("%s |-> %s" % (k, tla(x)) for k, x in v.items()) + "]"
    raise TypeError(v)


TOK_BASE = ["GET", "HEAD", "HTTP/", "gemini:", "/", "x", "0", " ", "\t", "+", "!", "$", "#", "_", "^", "\r"]
FAMB_LINES = dict(M={"GET", "HEAD", "get", "x"}, S={" ", "\t"}, P={"/wap", "/wap/x", "/wapx", "/wap?x", "/x", "x/wap", ""},
                  V={"HTTP/1.0", "http/1.0", "xHTTP/", "0"})
KINDS = {"AW", "AG", "AO", "XP", "XU", "NC", "BL"}
HIGH_KINDS = {"AW", "AO", "XP", "HB", "HX", "BL"}      # header blocks with bytes >= 0x80 (own small bundle)
# numeric-field spellings (Spartan length, HTTP version, Gemini port): sign, underscore, leading zeros, TAB / control blank inside the
# field, hex / float / exponent forms, Unicode digits, trailing junk - the documented numbers are plain ASCII digit runs
NUM_V = {"+0", "-0", "+00", "0~0", "\t0", "^0", "0\t", "00", "0x0", "0.0", "0e0", "=", "0=", "0+", "", "HTTP/+1.0", "HTTP/1~0", "HTTP/=.0"}
# family L: templates whose claim is decided by the END of the line; "@" = PAD run inside the selector / path
LONG_LINES = ["GET /@ HTTP/1.0", "HEAD /x/@ HTTP/1.0", "GET /wap/@ HTTP/1.0", "GET /@ xHTTP/", "GET /@\tHTTP/1.0",
              "@\t+", "/@\t$", "@\t!", "@\tx\t+", "@\tx", "@\t", "@", "x /@ 0", "x /@ x", "gemini://x/@"]
PADS_QUICK = [1000, 1100, 4000, 4200, 5000, 5300, 65000, 66000, 200000]      # straddling 1 KiB, 4 KiB, 5 KiB, 64 KiB, beyond
PADS_THOROUGH = PADS_QUICK + [1, 1021, 1022, 1023, 1024, 1025, 4090, 4096, 5110, 5120, 8192, 65530, 65536, 131072, 1000000]


def other_lists(shipped, tier):
    s = list(shipped)
    have = set(s)

    def keep(lst):
        return [p for p in lst if p in have or p in ("EnhancedGopherProtocol", "URLGopherPlus")]
    ls = [list(reversed(s)),
          keep(["HTTPProtocol", "WAPProtocol", "GopherPlusProtocol"]),
          keep(["WAPProtocol", "WAPProtocol", "HTTPProtocol", "HTTPSProtocol"]),
          keep(["SpartanProtocol", "SecureGopherPlusProtocol", "GopherPlusProtocol", "GopherProtocol"]),
          keep(["SecureGopherProtocol", "HTTPSProtocol", "GeminiProtocol"]),
          keep(["GopherProtocol", "SpartanProtocol", "HTTPProtocol"])]
    if tier == "thorough":
        ls += [keep(["URLGopherPlus", "EnhancedGopherProtocol", "SecureGopherProtocol"]),
               keep(["EnhancedGopherProtocol", "GopherPlusProtocol"])]
    return [l for l in ls if l]


def subset_orders(shipped):
    import itertools
    out = []
    for comb in itertools.combinations(list(shipped), 3):
        for perm in itertools.permutations(comb):
            out.append(list(perm))
    return out


def configs(tier, shipped):
    """Model configurations per tier: name -> dict of constants (bounds)."""
    big = dict(M=FAMB_LINES["M"], S=FAMB_LINES["S"], P=FAMB_LINES["P"], V=FAMB_LINES["V"])
    if tier == "quick":
        main = dict(
            lists=[list(shipped)] + other_lists(shipped, tier),
            tokens=TOK_BASE, na=3, terms_a={"\r\n", "\n", ""}, hdrs_a=[[]],
            famb=[dict(big, T={"\r\n", "\n"}, HK={"AW", "XP"}, HN=2),
                  dict(M={"GET", "x"}, S={" "}, P={"/wap", "/wapx", "/x", ""}, V={"HTTP/1.0", "0"}, T={"\r\n"}, HK=KINDS, HN=3),
                  dict(M={"GET"}, S={" "}, P={"/x"}, V={"HTTP/1.0"}, T={"\r\n"}, HK=HIGH_KINDS, HN=3),
                  dict(M={"x", "GET", "gemini://x:+0~0/x"}, S={" "}, P={"/x"}, V=NUM_V, T={"\r\n"}, HK={"AW"}, HN=0)],
            csel={"", "x"}, cfields={"", "+", "!", "$", "+x", "!x", "x", " ", "$x", "x+"}, cn=3,
            terms_c={"\r\n", ""}, hdrs_c=[[]],
            long=LONG_LINES, pads=PADS_QUICK, terms_l={"\r\n"}, hdrs_l=[[], ["AW", "XP"]])
        return {"main": main}
    main = dict(
        lists=[list(shipped)] + other_lists(shipped, tier),
        tokens=TOK_BASE + ["/wap", "7"], na=4, terms_a={"\r\n"}, hdrs_a=[[]],
        famb=[dict(big, T={"\r\n", "\n"}, HK=KINDS, HN=2),
              dict(M={"GET", "HEAD", "x"}, S={" "}, P={"/wap", "/wapx", "/wap?x", "/x", ""}, V={"HTTP/1.0", "0"}, T={"\r\n", "\n"},
                   HK=KINDS - {"NC", "XU"}, HN=4),
              dict(M={"GET", "HEAD"}, S={" "}, P={"/x", ""}, V={"HTTP/1.0"}, T={"\r\n", "\n"}, HK=HIGH_KINDS | {"AG", "XU"}, HN=4),
              dict(M={"x", "GET", "gemini://x:+0~0/x", "x\t"}, S={" ", "\t"}, P={"/x", "x"}, V=NUM_V | {"7", "+7~0", " 0"}, T={"\r\n", "\n", ""},
                   HK={"AW"}, HN=0)],
        csel={"", "x", "/x"}, cfields={"", "+", "!", "$", "+x", "!x", "x", " ", "$x", "x+", "_", "^"}, cn=3,
        terms_c={"\r\n", "\n", ""}, hdrs_c=[[], ["AW", "XP"]],
        long=LONG_LINES + ["GET /@?x HTTP/1.0", "@ x 0", "_@\t+", "GET /@ HTTP/1.0 "], pads=PADS_THOROUGH, terms_l={"\r\n", "\n", ""},
        hdrs_l=[[], ["AW", "XP"], ["AO", "XP"]])
    orders = dict(
        lists=[list(shipped)] + subset_orders(shipped),
        tokens=TOK_BASE, na=2, terms_a={"\r\n"}, hdrs_a=[[]],
        famb=[dict(big, T={"\r\n"}, HK={"AW", "XP", "BL"}, HN=2)],
        csel={"x"}, cfields={"", "+", "!", "$x", "x"}, cn=2, terms_c={"\r\n"}, hdrs_c=[[]],
        long=["GET /@ HTTP/1.0", "@\t+"], pads=[66000], terms_l={"\r\n"}, hdrs_l=[[]])
    return {"main": main, "orders": orders}


GLUED = False      # model follows the code's reading of "Accept:<WML first>" (set from the findings list)


def consts_module(c, shipped, waptop, raises, glued=None):
    glued = GLUED if glued is None else glued
    listed = []
    for l in c["lists"]:
        for p in l:
            if p not in listed:
                listed.append(p)
    famb = "<< " + ",\n            ".join(
        "[M |-> %s, S |-> %s, P |-> %s, V |-> %s, T |-> %s, HK |-> %s, HN |-> %d]"
        % (tla(b["M"]), tla(b["S"]), tla(b["P"]), tla(b["V"]), tla(b["T"]), tla(set(b["HK"])), b["HN"]) for b in c["famb"]) + " >>"
    body = [
        "---------------------------- MODULE MC_C02_consts ----------------------------",
        "\\* GENERATED by harness/c02.py for this run (B1: shipped order and waptop from conf/pygopherd.conf)",
        "C_WapTop == " + tla(waptop),
        "C_EmptyPlusFieldRaises == " + tla(bool(raises)),
        "C_GluedAcceptUnrecognised == " + tla(bool(glued)),
        "C_Shipped == " + tla(list(shipped)),
        "C_Lists == <<" + ",\n  ".join(tla(l) for l in c["lists"]) + ">>",
        "C_Listed == " + tla(listed),
        "C_TokensA == " + tla(set(c["tokens"])),
        "C_NA == %d" % c["na"],
        "C_TermsA == " + tla(set(c["terms_a"])),
        "C_HdrsA == {" + ", ".join(tla(h) for h in c["hdrs_a"]) + "}",
        "C_FamB == " + famb,
        "C_CSel == " + tla(set(c["csel"])),
        "C_CFields == " + tla(set(c["cfields"])),
        "C_CN == %d" % c["cn"],
        "C_TermsC == " + tla(set(c["terms_c"])),
        "C_HdrsC == {" + ", ".join(tla(h) for h in c["hdrs_c"]) + "}",
        "C_LongLines == " + tla(set(c["long"])),
        "C_Pads == {" + ", ".join(str(k) for k in sorted(c["pads"])) + "}",
        "C_TermsL == " + tla(set(c["terms_l"])),
        "C_HdrsL == {" + ", ".join(tla(h) for h in c["hdrs_l"]) + "}",
        "=============================================================================", ""]
    return "\n".join(body), listed


# ---------------------------------------------------------------------------------------------
# B2 driver (runs inside forked workers): the real getProtocol on mock plaintext / TLS connections
# ---------------------------------------------------------------------------------------------
_W = None          # per-process World
_ROOT = None       # one (empty) document root shared by all workers, created and removed by main()


def _world():
    global _W
    if _W is None:
        from harness import world
        _W = world.World(root=_ROOT) if _ROOT else world.World()
    return _W


def class_exprs(conf_exprs):
    """class name -> expression usable in the [protocols.ProtocolMultiplexer] list (introspection of the
    protocols package; the conf's own spelling wins for the shipped classes)."""
    import importlib
    import pygopherd.protocols as pkg
    out = {}
    for mod in getattr(pkg, "__all__", []):
        try:
            m = importlib.import_module("pygopherd.protocols." + mod)
        except Exception:
            continue
        for nm, obj in vars(m).items():
            if isinstance(obj, type) and obj.__module__ == m.__name__ and hasattr(obj, "canhandlerequest"):
                out.setdefault(nm, "%s.%s" % (mod, nm))
    out.update(conf_exprs)
    return out


def _connect(line_bytes, hdr_bytes, tls):
    from harness import world
    w = _world()
    rfile = io.BytesIO(line_bytes + b"".join(hdr_bytes))
    wfile = io.BytesIO()
    req = (world.MockSSLRequest if tls else world.MockRequest)(rfile, wfile)
    return world._Handler(req, world.CLIENT, w.server), rfile


def _detect(expr, line_bytes, hdr_bytes, tls):
    """One connection through the real getProtocol with the protocol list `expr`.
    Returns (class name | 'None' | 'crash', exception name or None, header lines consumed or -1)."""
    from pygopherd.protocols import ProtocolMultiplexer
    w = _world()
    w.config.set("protocols.ProtocolMultiplexer", "protocols", expr)
    h, rfile = _connect(line_bytes, hdr_bytes, tls)
    request = h.rfile.readline().decode(errors="surrogateescape")          # as server.py GopherRequestHandler.handle
    exc = None
    try:
        p = ProtocolMultiplexer.getProtocol(request, h.server, h, h.rfile, h.wfile, w.config)
        got = "None" if p is None else type(p).__name__
    except Exception as e:      # noqa: the observation IS the exception
        got, exc = "crash", type(e).__name__
    off = rfile.tell() - len(request.encode(errors="surrogateescape"))
    pos, acc = -1, 0
    for i in range(len(hdr_bytes) + 1):
        if off == acc:
            pos = i
            break
        if i < len(hdr_bytes):
            acc += len(hdr_bytes[i])
    return got, exc, pos


def _abs_got(got):
    return got if got in ("None", "crash") or got in UNIVERSE else "Other"


def run_batch(job):
    """job = (cases, rep, exprs) ; cases = [{line,tls,hdrs}] ; exprs = {'lists': [...], 'listed': [...]}"""
    cases, rep, exprs = job
    out = []
    conc = []
    for c in cases:
        pad = c.get("pad", 0)
        lb = concretise_line(c["line"], rep, pad)
        if abstract_line(lb) != (c["line"], pad):
            raise core.MachineryError("gamma/alpha round trip failed for %r pad=%d -> %r" % (c["line"], pad, lb[:200]))
        hb, hids = concretise_hdrs(c, rep)
        conc.append((lb, hb))
        got, exc, pos = _detect(exprs["lists"][0], lb, hb, c["tls"])
        alone, aexc = [], []
        for e in exprs["listed"]:
            g, x, _ = _detect("[%s]" % e, lb, hb, c["tls"])
            alone.append("crash" if g == "crash" else ("no" if g == "None" else "yes"))
            aexc.append(x)
        orders = [got]
        oexc = [exc]
        for e in exprs["lists"][1:]:
            g, x, _ = _detect(e, lb, hb, c["tls"])
            orders.append(_abs_got(g))
            oexc.append(x)
        data = lb + b"".join(hb)
        sgot, sexc = _serve(exprs["lists"][0], data, c["tls"])
        salone = []
        if pad:
            for e in exprs["listed"]:
                g, _x = _serve("[%s]" % e, data, c["tls"])
                salone.append("crash" if g == "crash" else ("no" if g == "None" else "yes"))
        out.append({"init": {"kind": "conn", "line": c["line"], "pad": pad, "tls": c["tls"], "hdrs": list(c["hdrs"])},
                    "events": [{"ev": "detect", "got": _abs_got(got), "again": None, "pos": pos},
                               {"ev": "alone", "r": alone},
                               {"ev": "orders", "got": orders},
                               {"ev": "served", "got": _abs_got(sgot), "alone": salone}],
                    "x": {"exc": exc, "raw_got": got, "alone_exc": aexc, "orders_exc": oexc, "served_raw": sgot, "served_exc": sexc,
                          "bytes": data[:160].decode("latin-1") + ("...(%d bytes)" % len(data) if len(data) > 160 else ""),
                          "rep": rep, "spellings": hids}})
    for i in range(len(cases) - 1, -1, -1):            # later in the process' life, in the opposite order
        lb, hb = conc[i]
        g, _x, _ = _detect(exprs["lists"][0], lb, hb, cases[i]["tls"])
        out[i]["events"][0]["again"] = _abs_got(g)
    return out


def _init_worker():
    """Each worker serves from its own (empty) document root: the directory handler writes a cache file there."""
    global _W
    from harness import world
    if _ROOT:
        root = os.path.join(_ROOT, "w%d" % os.getpid())
        os.makedirs(root, exist_ok=True)
        _W = world.World(root=root)
    else:
        _world()


_LOGCLS = re.compile(r"\[(\w+)/\w+\]")


def _serve(expr, data, tls):
    """The same bytes through the REAL connection handler (server.py GopherRequestHandler.handle reads the request
    line itself).  alpha: the answering class is taken from the server log ('addr [Class/Handler]: selector' or
    'addr [Class/None] EXCEPTION ...'); an exception that escapes the handler is 'crash'."""
    w = _world()
    w.config.set("protocols.ProtocolMultiplexer", "protocols", expr)
    r = w.request(data, tls=tls)
    if r.escaped is not None:
        return "crash", r.escaped
    for l in r.log:
        m = _LOGCLS.search(l)
        if m:
            return m.group(1), None
    return "None", None


# ---------------------------------------------------------------------------------------------
# sniff driver: the real BaseServer.wrap_socket on a socketpair
# ---------------------------------------------------------------------------------------------
class _RecSock(socket.socket):
    """Server-side end of the pair; records every recv the code under test makes."""
    log = None

    def _readable(self):
        try:
            return socket.socket.recv(self, 65536, socket.MSG_PEEK | socket.MSG_DONTWAIT)
        except (BlockingIOError, InterruptedError):
            return b""

    def recv(self, n, flags=0):
        r = socket.socket.recv(self, n, flags)
        self.log.append({"ev": "recv", "n": min(int(n), 10 ** 6), "peek": bool(flags & socket.MSG_PEEK), "ret": list(r),
                         "readable": list(self._readable())})
        return r


class _Wrapped:
    def __init__(self, sock):
        self.sock = sock


class _RecContext:
    """Stand-in for ssl.SSLContext: records the hand-over, consumes nothing."""
    log = None

    def wrap_socket(self, sock, *a, **k):
        self.log.append({"ev": "wrapcall", "readable": list(sock._readable())})
        return _Wrapped(sock)


_SNIFF_SERVERS = None


def _sniff_servers():
    global _SNIFF_SERVERS
    if _SNIFF_SERVERS is None:
        from pygopherd import initialization
        w = _world()
        rc = _RecContext()
        s = initialization.get_server(w.config, context=rc)
        s.server_close()
        _SNIFF_SERVERS = (w.server, s, rc)
    return _SNIFF_SERVERS


def run_sniff(case):
    plain, withctx, rc = _sniff_servers()
    server = withctx if case["ctx"] else plain
    a, b = socket.socketpair()
    events = []
    rs = _RecSock(b.family, b.type, b.proto, fileno=b.detach())
    rs.log = events
    rc.log = events
    exc = None
    try:
        if case["sent"]:
            a.sendall(bytes(case["sent"]))
        a.close()                                   # nothing the code does can block
        try:
            ret = server.wrap_socket(rs)
            events.append({"ev": "return", "wrapped": isinstance(ret, _Wrapped), "readable": list(rs._readable())})
        except Exception as e:      # noqa
            exc = type(e).__name__
    finally:
        rs.close()
    return {"init": {"kind": "sniff", "ctx": case["ctx"], "sent": list(case["sent"])}, "events": events,
            "x": {"exc": exc}}


# ---------------------------------------------------------------------------------------------
# B3: batched trace validation, several JVMs side by side
# ---------------------------------------------------------------------------------------------
_VAL_EXTRA = None


def _validate_part(part):
    off, traces = part
    os.environ.setdefault("VERIF_TLC_XMX", "3g")      # several validation JVMs run side by side: keep each one small
    try:
        r = tlc.validate_traces("TraceC02", "TraceC02.cfg", traces, extra_files=_VAL_EXTRA, timeout=1500, chunk=len(traces) + 1)
    except tlc.TLCError as e:
        if "timeout" in str(e):
            raise
        # a JVM killed from outside (the sandbox's OOM killer was observed doing that): one more attempt, same input
        r = tlc.validate_traces("TraceC02", "TraceC02.cfg", traces, extra_files=_VAL_EXTRA, timeout=1500, chunk=len(traces) + 1)
    for rj in r["rejected"]:
        rj["index"] += off
        rj.pop("trace", None)
    for d in r["drift"]:
        d["index"] += off
    return r


def validate(traces, consts_text, chunk=None):
    global _VAL_EXTRA
    _VAL_EXTRA = {"MC_C02_consts.tla": consts_text}
    nproc = int(os.environ.get("VERIF_PROCS") or 16)
    if chunk is None:          # one JVM start costs about 2.5 s, one trace about 1 ms: few, large, parallel chunks
        chunk = min(12000, max(2000, -(-len(traces) // nproc)))
    slim = [{"id": t["id"], "init": t["init"], "events": t["events"]} for t in traces]
    parts = [(o, slim[o:o + chunk]) for o in range(0, len(slim), chunk)]
    if len(parts) <= 1:
        xmx = os.environ.get("VERIF_TLC_XMX")
        try:
            rs = [_validate_part(p) for p in parts]
        finally:                                   # (in-process call: do not leak the small heap to the model-checking runs)
            if xmx is None:
                os.environ.pop("VERIF_TLC_XMX", None)
    else:
        import multiprocessing as mp
        procs = min(len(parts), nproc)
        with mp.get_context("fork").Pool(procs) as pool:
            rs = pool.map(_validate_part, parts, chunksize=1)
    tot = {"accepted": 0, "rejected": [], "drift": [], "states": 0, "generated": 0, "wall_s": 0.0, "cmd": ""}
    for r in rs:
        tot["accepted"] += r["accepted"]
        tot["rejected"] += r["rejected"]
        tot["drift"] += r["drift"]
        tot["states"] += r["states"]
        tot["generated"] += r["generated"]
        tot["wall_s"] += r["wall_s"]
        tot["cmd"] = r["cmd"] or tot["cmd"]
    return tot


# ---------------------------------------------------------------------------------------------
def _case_key(t):
    i = t["init"]
    if i["kind"] == "sniff":
        return "sniff ctx=%s sent=%s" % (i["ctx"], bytes(i["sent"]).hex())
    return "line=%s%s tls=%s hdrs=%s rep=%d" % (json.dumps(i["line"]), " pad=%d" % i["pad"] if i.get("pad") else "", i["tls"],
                                               ",".join(i["hdrs"]) or "-", t["x"]["rep"])


def _classify_input(line):
    """alpha of the INPUT (lexer only): TAB-field structure of the request line."""
    f = [p.strip(" \t\r\n^_") for p in line.split("\t")]
    return {"tab_fields": len(f), "last_tab_field_blank": len(f) >= 2 and f[-1] == ""}


def report(chk, traces, tv, cfgname, tier, lists):
    for rj in tv["rejected"]:
        t = traces[rj["index"]]
        key = "%s:%s" % (_case_key(t), rj["clause"])
        case = dict(t["init"])
        case["rep"] = t["x"].get("rep")
        detail = {"events": t["events"], "rejected_at_event": rj["at"], "observed": t["x"]}
        if t["init"]["kind"] == "conn":
            case.update(_classify_input(t["init"]["line"]))
            xs = [t["x"]["exc"]] + [e for e in t["x"]["alone_exc"] if e] + [e for e in t["x"]["orders_exc"] if e] + [t["x"].get("served_exc")]
            case["exc"] = next((e for e in xs if e), None)
            case["config"], case["tier"], case["hseed"] = cfgname, tier, HSEED
            case["glued_wml_first_accept"] = "AG" in t["init"]["hdrs"]
            case["got"] = t["events"][0]["got"]
            case["served"] = t["events"][3]["got"] if len(t["events"]) > 3 else None
            detail["lists"] = lists if len(lists) <= 12 else "%d lists of configuration %s/%s" % (len(lists), tier, cfgname)
        chk.violation(key, rj["clause"], case, detail)
    chk.note_drift([dict(d, key=_case_key(traces[d["index"]])) for d in tv["drift"]])


SLICE = 50000        # cases replayed and validated per round (bounds memory in the thorough tier)


def lines_run(chk, name, c, shipped, conf_exprs, waptop, raises, tier, reps, only_case=None):
    """model-check one configuration, replay its cases on the real code, validate the traces."""
    consts_text, listed = consts_module(c, shipped, waptop, raises)
    res = tlc.check_model("MC_C02_lines", "MC_C02_lines.cfg", extra_files={"MC_C02_consts.tla": consts_text},
                          dump=True, coverage=False, timeout=2400)     # (-coverage doubles the cost; vacuity is guarded below)
    t0 = time.time()
    try:
        if res["inv_violations"]:
            chk.model_violation("MC_C02_lines[%s]" % name, res["inv_violations"], res["out"][-2500:])
        cases = []
        fams = {}
        for st in iter_dump_states(res["dump"], wanted={"x", "phase", "fam"}):
            if st["phase"] == "in":
                x = st["x"]
                cases.append({"line": x["line"], "pad": int(x["pad"]), "tls": bool(x["tls"]), "hdrs": list(x["hdrs"])})
                fams[st["fam"]] = fams.get(st["fam"], 0) + 1
    finally:
        tlc.cleanup(res)
    cases.sort(key=lambda k: (k["line"], k["pad"], k["tls"], k["hdrs"]))
    if only_case is not None:
        cases = [only_case]
    t1 = time.time()
    # the code under test, in forked workers
    from harness.cachelib import pool_map
    _world()
    exprmap = class_exprs(conf_exprs)
    missing = [p for p in listed if p not in exprmap]
    if missing:
        raise core.MachineryError("C02: protocol classes not found in pygopherd.protocols: %s" % missing)
    exprs = {"lists": ["[%s]" % ", ".join(exprmap[p] for p in l) for l in c["lists"]], "listed": [exprmap[p] for p in listed]}
    st = dict(calls=0, served={}, long_served={}, spellings={}, aw_detected=set(), answered={}, contested=set(), slurped=0, traces=0, accepted=0, rejected=0, trace_states=0, samples=[],
              tv_cmd="", replay_s=0.0, validation_s=0.0)
    B = 400
    for o in range(0, len(cases), SLICE):
        sl = cases[o:o + SLICE]
        ta = time.time()
        jobs = [(sl[b:b + B], rep, exprs) for rep in reps for b in range(0, len(sl), B)]
        outs = [run_batch(jobs[0])] if len(jobs) == 1 else pool_map(run_batch, jobs, _init_worker)
        traces = []
        for job, out in zip(jobs, outs):
            for cse, t in zip(job[0], out):
                t["id"] = "%s-%07d" % (name, st["traces"] + len(traces))
                traces.append(t)
        tb = time.time()
        tv = validate(traces, consts_text)
        report(chk, traces, tv, name, tier, c["lists"])
        st["replay_s"] += tb - ta
        st["validation_s"] += time.time() - tb
        for t in traces:
            g = t["events"][0]["got"]
            st["answered"][g] = st["answered"].get(g, 0) + 1
            st["calls"] += 2 + len(t["events"][1]["r"]) + len(t["events"][2]["got"]) - 1 + 1 + len(t["events"][3]["alone"])
            sg = t["events"][3]["got"]
            st["served"][sg] = st["served"].get(sg, 0) + 1
            if t["init"]["pad"]:
                k = "%s@%d" % (sg, t["init"]["pad"])
                st["long_served"][k] = st["long_served"].get(k, 0) + 1
            if sum(1 for r in t["events"][1]["r"] if r == "yes") >= 2:
                st["contested"].add((t["init"]["line"], t["init"]["pad"], t["init"]["tls"], tuple(t["init"]["hdrs"])))
            if t["events"][0]["pos"] > 0:
                st["slurped"] += 1
                if g == "WAPProtocol":
                    st["aw_detected"].update(i for i in t["x"]["spellings"] if i[:2] in ("AW", "AG"))
            for i in t["x"]["spellings"]:
                st["spellings"][i] = st["spellings"].get(i, 0) + 1
        if not st["samples"]:
            st["samples"] = [{"id": t["id"], "init": t["init"], "bytes": t["x"]["bytes"], "events": t["events"]}
                             for t in traces[:1] + traces[len(traces) // 2:len(traces) // 2 + 2]]
        st["traces"] += len(traces)
        st["accepted"] += tv["accepted"]
        st["rejected"] += len(tv["rejected"])
        st["trace_states"] += tv["states"]
        st["tv_cmd"] = tv["cmd"] or st["tv_cmd"]
        del traces, outs
    timing = {"tlc_s": res["wall_s"], "dump_parse_s": round(t1 - t0, 1), "replay_s": round(st["replay_s"], 1),
              "trace_validation_s": round(st["validation_s"], 1)}
    return dict(res=res, cases=len(cases), fams=fams, st=st, listed=listed, consts=consts_text, timing=timing)


def sniff_run(chk, consts_text, only_case=None):
    res = tlc.check_model("MC_C02_sniff", "MC_C02_sniff.cfg", dump=True, coverage=True, timeout=600)
    try:
        if res["inv_violations"]:
            chk.model_violation("MC_C02_sniff", res["inv_violations"], res["out"][-2500:])
        cases = []
        for st in iter_dump_states(res["dump"], wanted={"spc", "ctx", "sent"}):
            if st["spc"] == "accepted":
                cases.append({"ctx": bool(st["ctx"]), "sent": list(st["sent"])})
    finally:
        tlc.cleanup(res)
    cases.sort(key=lambda k: (k["ctx"], k["sent"]))
    if only_case is not None:
        cases = [only_case]
    traces = [run_sniff(c) for c in cases]
    for n, t in enumerate(traces):
        t["id"] = "sniff-%04d" % n
    tv = validate(traces, consts_text)
    report(chk, traces, tv, "sniff", "-", [])
    return dict(res=res, cases=len(cases), traces=traces, tv=tv)


def main(chk, replay=None):
    global _ROOT
    import shutil
    _ROOT = tlc.new_scratch("c02root")
    try:
        return _main(chk, replay)
    finally:
        shutil.rmtree(_ROOT, ignore_errors=True)


def _main(chk, replay=None):
    shipped, conf_exprs, waptop, bound = read_conf()
    unknown = [p for p in shipped if p not in UNIVERSE]
    if unknown:
        raise core.MachineryError("C02: the shipped protocol list names classes the model does not know: %s "
                                  "(extend Universe/Shape in spec/Wire.tla)" % unknown)
    global GLUED, HSEED
    raises = any(f.get("id") == FINDING_EMPTY_PLUS for f in chk.known)
    GLUED = any(f.get("id") == FINDING_GLUED for f in chk.known)
    HSEED = chk.seed
    tier = chk.tier
    cfgs = configs(tier, shipped)
    reps = [chk.seed % NREPS] if tier == "quick" else [chk.seed % NREPS, (chk.seed + 1) % NREPS]
    only_conn = only_sniff = None
    if replay:
        with open(replay) as fp:
            rp = json.load(fp)
        c = rp["case"]
        if c.get("kind") == "sniff":
            only_sniff = {"ctx": c["ctx"], "sent": c["sent"]}
        elif c.get("kind") == "conn":
            only_conn = {"line": c["line"], "pad": c.get("pad", 0), "tls": c["tls"], "hdrs": c["hdrs"]}
            reps = [c.get("rep") or 0]
            HSEED = c.get("hseed", chk.seed)
            tier = c.get("tier") or tier
            cfgs = configs(tier, shipped)
            cfgs = {c.get("config", "main"): cfgs[c.get("config", "main")]}
        else:                                   # a model-level violation: re-run everything
            replay = None
    runs = {}
    if not (replay and only_sniff):
        for name, c in cfgs.items():
            runs[name] = lines_run(chk, name, c, shipped, conf_exprs, waptop, raises, tier, reps, only_case=only_conn)
    consts_text = consts_module(configs("quick", shipped)["main"], shipped, waptop, raises)[0]
    sn = None
    if not (replay and only_conn):
        sn = sniff_run(chk, consts_text, only_case=only_sniff)

    # ---- measured coverage, vacuity guards ---------------------------------------------------------
    answered = {}
    contested = set()
    for r in runs.values():
        for g, n in r["st"]["answered"].items():
            answered[g] = answered.get(g, 0) + n
        contested |= r["st"]["contested"]
    if not replay and not chk.violations:        # guards against a vacuous PASS (violations found are reported as such)
        never = [p for p in shipped if not answered.get(p)]
        if never:
            raise core.MachineryError("C02 vacuous: shipped protocols never detected on any case: %s" % never)
        if not contested:
            raise core.MachineryError("C02 vacuous: no case was claimed by two protocols")
        if not sum(r["st"]["slurped"] for r in runs.values()):
            raise core.MachineryError("C02 vacuous: no detection consumed a header line (WAP slurp never exercised)")
        used = set().union(*[set(r["st"]["spellings"]) for r in runs.values()])
        want = {"%s%d" % (k, i) for k, v in ACCEPT_VALUES.items() for i in range(len(v))}
        want |= {"%s%d" % (k, i) for k in ("HB", "HX", "BL") for i in range(len(HDR_REPS[k]))}
        if want - used:
            raise core.MachineryError("C02 vacuous: Accept spellings never generated: %s" % sorted(want - used))
        seen = set().union(*[r["st"]["aw_detected"] for r in runs.values()])
        undet = {w for w in want if w.startswith("AW")} - seen
        if undet:
            raise core.MachineryError("C02 vacuous: Accept spellings never decisive in a WAP auto-detection: %s" % sorted(undet))
        longs = {}
        for r in runs.values():
            for k, n in r["st"]["long_served"].items():
                longs[k] = longs.get(k, 0) + n
        need = {"%s@%d" % (p, k) for p in ("HTTPProtocol", "SpartanProtocol", "GopherPlusProtocol", "WAPProtocol") if p in shipped
                for k in cfgs["main"]["pads"]} if "main" in cfgs else set()
        if need - set(longs):
            raise core.MachineryError("C02 vacuous: long lines never answered through the connection handler by: %s" % sorted(need - set(longs))[:6])
        peeks = sum(1 for t in sn["traces"] for e in t["events"] if e["ev"] == "recv")
        wraps = sum(1 for t in sn["traces"] for e in t["events"] if e["ev"] == "wrapcall")
        if not peeks or not wraps:
            raise core.MachineryError("C02 vacuous: recording socket/context never exercised (recv=%d wrap=%d)" % (peeks, wraps))
    states = sum(r["res"]["distinct"] for r in runs.values()) + (sn["res"]["distinct"] if sn else 0)
    gen = sum(r["res"]["generated"] for r in runs.values()) + (sn["res"]["generated"] if sn else 0)
    accepted = sum(r["st"]["accepted"] for r in runs.values()) + (sn["tv"]["accepted"] if sn else 0)
    rejected = sum(r["st"]["rejected"] for r in runs.values()) + (len(sn["tv"]["rejected"]) if sn else 0)
    zero = sorted(k for k, v in (sn["res"].get("coverage", {}) if sn else {}).items() if v[0] == 0)
    samples = [x for r in runs.values() for x in r["st"]["samples"]]
    if sn:
        samples += [{"id": t["id"], "init": t["init"], "events": t["events"]} for t in sn["traces"][22 * 3 + 2:22 * 3 + 3] + sn["traces"][-1:]]
    nl = {n: len(c["lists"]) for n, c in cfgs.items()}
    cov = {
        "states": states, "transitions": gen, "exhaustive": True,
        "traces_validated_against_impl": accepted, "traces_rejected": rejected,
        "evaluations": sum(r["st"]["calls"] for r in runs.values()) + (len(sn["traces"]) if sn else 0),
        "distinct_nontrivial": len(contested),
        "rule": "evaluations = real getProtocol / GopherRequestHandler.handle / wrap_socket calls; non-trivial = distinct abstract cases (line, TLS?, "
                "header block) that at least two listed protocol classes claimed when asked alone on a fresh connection "
                "(so the configured order decides), counted from the recorded answers",
        "cases": {n: r["cases"] for n, r in runs.items()}, "families": {n: r["fams"] for n, r in runs.items()},
        "protocol_lists": nl, "representative_sets": reps,
        "answered_by": answered, "sniff_cases": sn["cases"] if sn else 0,
        "served_by_connection_handler": {k: sum(r["st"]["served"].get(k, 0) for r in runs.values())
                                         for k in sorted({k for r in runs.values() for k in r["st"]["served"]})},
        "long_line_cases": sum(sum(r["st"]["long_served"].values()) for r in runs.values()),
        "pad_lengths": {n: sorted(c["pads"]) for n, c in cfgs.items()},
        "samples": samples,
        "checker_cmd": " ; ".join([r["res"]["cmd"] for r in runs.values()] + [r["st"]["tv_cmd"] for r in list(runs.values())[:1]]
                                  + ([sn["res"]["cmd"]] if sn else [])),
        "trace_states": sum(r["st"]["trace_states"] for r in runs.values()) + (sn["tv"]["states"] if sn else 0),
        "model_coverage_zero": zero, "timing": {n: r["timing"] for n, r in runs.items()},
        "accept_spellings_used": {k: sum(r["st"]["spellings"].get(k, 0) for r in runs.values())
                                  for k in sorted({k for r in runs.values() for k in r["st"]["spellings"]}) if k[:2] in ("AW", "AG", "AO", "HB", "HX", "BL")},
        "model_follows_code_reading_of_glued_accept": GLUED,
        "constants_bound": bound, "shipped": shipped, "waptop": waptop, "model_follows_unrepaired_gopherplus": raises,
        "bindings": ["B1 shipped order + waptop from conf/pygopherd.conf", "B2 every TLC-enumerated case replayed through the real "
                     "getProtocol, the real connection handler (GopherRequestHandler.handle) / wrap_socket", "B3 TraceC02"],
    }
    assumptions = [
        "line length: one PAD run of filler letters inside the selector/path, lengths %s (main); the answering class of a run through the "
        "connection handler is read from the server log ([Class/Handler] of the request or exception line)" % sorted(cfgs[next(iter(cfgs))]["pads"]),
        "TLS-ness of a connection is presented to getProtocol as the tests do: a request object that is an ssl.SSLSocket instance "
        "(no real handshake); the sniff is exercised separately on a real socketpair with a recording stand-in for the SSL context",
        "lines are enumerated over class characters (HI, NB, FS, letter, digit) with %d representative set(s) per case; the "
        "documented shapes where RFC 1945 / Gopher+.txt are stricter than the server are the pinned permissive readings in spec/Wire.tla" % len(reps),
        "header lines are kinds in the model (Accept listing WML / listing WML first glued to the colon / not listing it, WAP "
        "profile headers, no-colon line, blank line); their spellings (position of WML in the list, blank after the colon, separators, "
        "name case, line ending) are chosen per occurrence by a stable hash; type names that merely begin with text/vnd.wap.wml "
        "(wmlscript, wmlc) are not generated",
    ]
    if not bound:
        assumptions.append("constants binding unavailable: conf/pygopherd.conf could not be read, built-in shipped list used")
    return chk.finish(cov, assumptions)


# ---------------------------------------------------------------------------------------------
def selftest():
    """Binding demonstration: a recorded trace is accepted; the same trace with one corrupted field, or with one
    event dropped, is rejected by TraceC02."""
    global _ROOT
    import shutil
    _ROOT = tlc.new_scratch("c02root")
    try:
        return _selftest()
    finally:
        shutil.rmtree(_ROOT, ignore_errors=True)


def _selftest():
    shipped, conf_exprs, waptop, _ = read_conf()
    c = configs("quick", shipped)["main"]
    consts_text, listed = consts_module(c, shipped, waptop, False)
    _world()
    exprmap = class_exprs(conf_exprs)
    exprs = {"lists": ["[%s]" % ", ".join(exprmap[p] for p in l) for l in c["lists"]], "listed": [exprmap[p] for p in listed]}
    base = run_batch(([{"line": "GET /x HTTP/1.0\r\n", "tls": False, "hdrs": ["AW", "XP"]}], 0, exprs))[0]
    sn = run_sniff({"ctx": True, "sent": [22, 47, 13, 10]})
    variants = {"recorded": base, "sniff-recorded": sn}
    v = json.loads(json.dumps(base)); v["events"][0]["got"] = "HTTPProtocol"; v["events"][0]["again"] = "HTTPProtocol"
    variants["got-corrupted"] = v
    v = json.loads(json.dumps(base)); v["events"][1]["r"][0] = "no"; variants["alone-corrupted"] = v
    v = json.loads(json.dumps(base)); del v["events"][1]; variants["event-dropped"] = v
    v = json.loads(json.dumps(base)); v["events"][0]["again"] = "GopherProtocol"; variants["again-corrupted"] = v
    v = json.loads(json.dumps(base)); v["events"][3]["got"] = "HTTPProtocol"; variants["served-corrupted"] = v
    lng = run_batch(([{"line": "GET /@ HTTP/1.0\r\n", "pad": 66000, "tls": False, "hdrs": []}], 0, exprs))[0]
    variants["long-recorded"] = lng
    v = json.loads(json.dumps(lng)); v["events"][3]["got"] = "GopherProtocol"; variants["long-served-as-if-truncated"] = v
    v = json.loads(json.dumps(lng)); v["events"][3]["alone"][2] = "no"; variants["long-alone-corrupted"] = v
    v = json.loads(json.dumps(sn)); v["events"][-1]["readable"] = v["events"][-1]["readable"][1:]; variants["sniff-consumed"] = v
    v = json.loads(json.dumps(sn)); v["events"][-1]["wrapped"] = False; variants["sniff-unwrapped"] = v
    v = json.loads(json.dumps(sn)); del v["events"][-1]; variants["sniff-return-dropped"] = v
    names = list(variants)
    traces = []
    for n in names:
        t = variants[n]
        t["id"] = n
        traces.append(t)
    tv = validate(traces, consts_text)
    bad = {names[r["index"]]: r["clause"] for r in tv["rejected"]}
    for n in names:
        print("%-22s %s" % (n, bad.get(n, "accepted")))
    ok = set(bad) == set(names) - {"recorded", "sniff-recorded", "long-recorded"}
    print("selftest", "OK" if ok else "FAILED")
    return 0 if ok else 1


if __name__ == "__main__":
    sys.exit(selftest())
