"""XCONF - configuration -> the server that is built (growth check).

gamma: (option table, failing call) cases enumerated by TLC from MC_XCONF -> a generated configuration file (+ the files
it names) and a fault to inject.  The REAL pygopherd.initialization.initialize() runs in a forked child with the
environment entry points (open, os.access, os.fork/setpgrp/chroot/set*id, socket bind/listen/getsockname/getfqdn,
ssl load_cert_chain, signal.signal) substituted by recorders.  alpha: recorded calls -> abstract events, the built
server -> the observation record.  All judgement is in spec/Config.tla via spec/trace/TraceXCONF.tla.
"""
from __future__ import annotations

import configparser
import copy
import json
import os
import shutil
import stat
import tempfile
import zlib

from harness import core, tlc
from harness.tlaparse import iter_dump_states

UID, GID = 4242, 4343
PORTS = [7070, 70, 7071]
ADV = 7777
TIMEOS = [60, 5, 300]
IFACE = "127.0.0.1"
SNAME = "gopher.example.com"
FQDN = "fqdn.verif.example"
TRUE_SPELLINGS = ["yes", "true", "on", "1", "Yes", "ON", "True"]
FALSE_SPELLINGS = ["no", "false", "off", "0", "No", "OFF", "False"]
FINDING_LIVEVIEW = "XCONF-encoding-live-view"

DEFAULT = {"conf": "ok", "tb": "yes", "mime": "p", "enc": "extend", "stype": "forking", "iface": "absent", "port": "valid",
           "adv": "absent", "sname": "absent", "timeo": "valid", "tls": "no", "cert": "ok", "detach": "no",
           "pidfile": "absent", "sec": "none", "interp": "no"}
ORDER = list(DEFAULT)

ENC_TEXT = {
    "deflist": "list(mimetypes.encodings_map.items())",
    "view": "mimetypes.encodings_map.items()",                      # the syntax the shipped file documents for "the default"
    "dict": "{'.q1' : 'enc1', '.gz' : 'gzip'}.items()",
    "tuples": "[('.q1', 'enc1'), ('.gz', 'gzip')]",
    "extend": "list(mimetypes.encodings_map.items()) + \\\nlist({'.q1' : 'enc1',\n'.q2': 'enc2'\n}.items())",
    "empty": "[]",
    "garbled": "[('.q1', 'enc1'",
}
ENC_PAIRS = {".q1": ("q1", "enc1"), ".q2": ("q2", "enc2"), ".gz": ("gz", "gzip"), ".Z": ("Z", "compress")}
STYPE_TEXT = {"forking": "ForkingTCPServer", "threading": "ThreadingTCPServer", "other": "TCPServer", "lower": "forkingtcpserver"}


def cfgstr(c):
    d = ["%s=%s" % (o, c[o]) for o in ORDER if c[o] != DEFAULT[o]]
    return ",".join(d) or "default"


def _spell(val, k):
    sp = TRUE_SPELLINGS if val else FALSE_SPELLINGS
    return sp[k % len(sp)]


def _write_config(repo, scratch, c, k):
    """gamma: option table -> configuration file and the files it names.  Returns the concrete values."""
    cp = configparser.ConfigParser()
    cp.read(os.path.join(repo, "conf", "pygopherd.conf"))
    s = "pygopherd"
    interp = c["interp"] == "yes"
    os.makedirs(os.path.join(scratch, "docroot"))
    os.makedirs(os.path.join(scratch, "run"))

    def P(*parts):              # a path below the scratch directory, spelled through %(vbase)s when the case says so
        return ("%(vbase)s/" + "/".join(parts)) if interp else os.path.join(scratch, *parts)

    if interp:
        cp.set(s, "vbase", scratch)
    info = {"scratch": scratch, "port": PORTS[k % len(PORTS)], "timeout": TIMEOS[(k // 3) % len(TIMEOS)], "mime": [],
            "pidfile": os.path.join(scratch, "run", "pygopherd.pid"),
            "cert": os.path.join(repo, "testdata", "demo.crt"), "key": os.path.join(repo, "testdata", "demo.key")}
    cp.set(s, "root", P("docroot"))
    cp.set("logger", "logmethod", "none")
    # tracebacks
    cp.remove_option(s, "tracebacks")
    if c["tb"] in ("yes", "no"):
        cp.set(s, "tracebacks", _spell(c["tb"] == "yes", k // 5))
    elif c["tb"] == "garbled":
        cp.set(s, "tracebacks", "maybe")
    # mimetypes: one file per letter; a present file defines its own marker type
    names = []
    for i, ch in enumerate(c["mime"], 1):
        name = "mime%d.types" % i
        path = os.path.join(scratch, name)
        if ch in "pu":
            with open(path, "w") as fp:
                fp.write("# verif\ntext/plain\t\ttxt\nx-verif/type%d\t\tvt%d\n" % (i, i))
            if ch == "u":
                os.chmod(path, 0)
        info["mime"].append(path)
        names.append(P(name))
    cp.set(s, "mimetypes", ":".join(names))
    cp.remove_option(s, "encoding")
    if c["enc"] in ENC_TEXT:
        cp.set(s, "encoding", ENC_TEXT[c["enc"]])
    # server
    cp.remove_option(s, "servertype")
    if c["stype"] in STYPE_TEXT:
        cp.set(s, "servertype", STYPE_TEXT[c["stype"]])
    cp.remove_option(s, "interface")
    if c["iface"] == "given":
        cp.set(s, "interface", IFACE)
    cp.remove_option(s, "port")
    if c["port"] == "valid":
        cp.set(s, "port", str(info["port"]))
    elif c["port"] == "garbled":
        cp.set(s, "port", "seventy")
    cp.remove_option(s, "advertisedport")
    if c["adv"] == "valid":
        cp.set(s, "advertisedport", str(ADV))
    elif c["adv"] == "garbled":
        cp.set(s, "advertisedport", "70a")
    cp.remove_option(s, "servername")
    if c["sname"] == "given":
        cp.set(s, "servername", SNAME)
    cp.remove_option(s, "timeout")
    if c["timeo"] == "valid":
        cp.set(s, "timeout", str(info["timeout"]))
    elif c["timeo"] == "garbled":
        cp.set(s, "timeout", "1m")
    # TLS
    cp.remove_option(s, "enable_tls")
    if c["tls"] in ("yes", "no"):
        cp.set(s, "enable_tls", _spell(c["tls"] == "yes", k // 7))
    elif c["tls"] == "garbled":
        cp.set(s, "enable_tls", "enabled")
    for o in ("tls_certfile", "tls_keyfile"):
        cp.remove_option(s, o)
    if c["cert"] == "ok":
        cp.set(s, "tls_certfile", info["cert"])
        cp.set(s, "tls_keyfile", info["key"])
    elif c["cert"] == "badfile":
        info["cert"] = os.path.join(scratch, "nothere.crt")
        cp.set(s, "tls_certfile", P("nothere.crt"))
        cp.set(s, "tls_keyfile", info["key"])
    # the steps other checks own: only switched on / off here
    cp.set(s, "detach", _spell(c["detach"] == "yes", k // 11))
    cp.remove_option(s, "pidfile")
    if c["pidfile"] == "given":
        cp.set(s, "pidfile", P("run", "pygopherd.pid"))
    cp.set(s, "usechroot", _spell(c["sec"] == "drop", k // 13))
    for o, v in (("setuid", "gopheruser"), ("setgid", "gophergroup")):
        cp.remove_option(s, o)
        if c["sec"] == "drop":
            cp.set(s, o, v)
    path = os.path.join(scratch, "pygopherd.conf")
    if c["conf"] in ("ok", "unreadable"):
        with open(path, "w") as fp:
            cp.write(fp)
        if c["conf"] == "unreadable":
            os.chmod(path, 0)
    elif c["conf"] == "garbage":
        with open(path, "w") as fp:
            fp.write("this is no configuration file\nport = 70\n")
    elif c["conf"] == "dir":
        os.makedirs(path)
    info["conf"] = path
    return info


def _child(info, c, fault, wfd):
    """Forked child: install the recorders, run the real initialize(), report events."""
    import builtins
    import errno
    import grp
    import io
    import mimetypes
    import pwd
    import signal
    import socket
    import socketserver
    import ssl
    import struct
    import sys

    dn = os.open(os.devnull, os.O_WRONLY)
    os.dup2(dn, 1)
    os.dup2(dn, 2)
    events = []
    hooks = {}
    scratch = info["scratch"] + os.sep
    fired = {"done": False}

    def rec(name, ok=True, host="", port="", which=0):
        hooks[name] = hooks.get(name, 0) + 1
        if name == fault and not fired["done"]:
            fired["done"] = True
            ok = False
            injected = True
        else:
            injected = False
        events.append({"ev": name, "ok": bool(ok), "host": host, "port": port, "which": which})
        return injected

    real_open = builtins.open
    real_access = os.access

    def denied(path):           # what the kernel says to an ordinary account: no read bit, no read (we run as uid 0)
        try:
            st = os.stat(path)
        except OSError:
            return False
        return path.startswith(scratch) and stat.S_ISREG(st.st_mode) and not (st.st_mode & 0o444)

    def access(path, mode, **kw):
        p = os.fsdecode(path) if isinstance(path, (str, bytes, os.PathLike)) else path
        if isinstance(p, str) and (mode & os.R_OK) and denied(p):
            return False
        return real_access(path, mode, **kw)

    def open_(file, mode="r", *a, **k):
        if isinstance(file, (str, bytes, os.PathLike)):
            p = os.fsdecode(file)
            writing = any(ch in mode for ch in "wax+")
            if p == info["pidfile"] and writing:
                if rec("pidfile"):
                    raise PermissionError(errno.EACCES, "injected: Permission denied", p)
            elif not writing and (p == info["conf"] or p in info["mime"]):
                name, which = ("readconf", 0) if p == info["conf"] else ("readmime", info["mime"].index(p) + 1)
                bad = denied(p) or not os.path.isfile(p)
                if rec(name, ok=not bad, which=which):
                    raise OSError(errno.EIO, "injected: Input/output error", p)
                if denied(p):
                    raise PermissionError(errno.EACCES, "Permission denied", p)
        return real_open(file, mode, *a, **k)

    builtins.open = open_
    io.open = open_
    os.access = access

    def priv(*a, **k):
        if rec("priv"):
            raise OSError(errno.EPERM, "injected: Operation not permitted")

    for nm in ("chroot", "chdir", "fchdir", "setgroups", "initgroups", "setregid", "setgid", "setresgid", "setegid",
               "setreuid", "setuid", "setresuid", "seteuid"):
        setattr(os, nm, priv)
    pwd.getpwnam = lambda n: pwd.struct_passwd((n, "x", UID, UID, "", "/", "/bin/false"))
    grp.getgrnam = lambda n: grp.struct_group((n, "x", GID, []))

    class Exit(SystemExit):
        pass

    def exit_(code=0):
        raise Exit(code)

    def fork():
        if rec("fork"):
            raise OSError(errno.EAGAIN, "injected: Resource temporarily unavailable")
        return 0                # the side of the fork that goes on to serve

    def setpgrp():
        if rec("setpgrp"):
            raise OSError(errno.EPERM, "injected: Operation not permitted")

    os.fork, os.setpgrp, os.setsid = fork, setpgrp, setpgrp
    os._exit = exit_
    sys.exit = exit_

    def sigsignal(signum, handler):
        nm = {int(signal.SIGHUP): "HUP", int(signal.SIGTERM): "TERM"}.get(int(signum), "other")
        if rec("signal", host=nm):
            raise OSError(errno.EINVAL, "injected: Invalid argument")
        return signal.SIG_DFL

    signal.signal = sigsignal

    bound = {}
    real_bind, real_listen, real_getsockname = socket.socket.bind, socket.socket.listen, socket.socket.getsockname

    def bind(self, addr):
        h, p = addr[0], addr[1]
        host = "any" if h in ("", "0.0.0.0") else ("iface" if h == IFACE else "other")
        if rec("bind", host=host, port="conf" if p == info["port"] else "other"):
            raise OSError(errno.EADDRINUSE, "injected: Address already in use")
        bound[id(self)] = (h or "0.0.0.0", p)
        return real_bind(self, ("" if host == "any" else "127.0.0.1", 0))        # never the configured port: machines are shared

    def getsockname(self):
        return bound.get(id(self)) or real_getsockname(self)

    def listen(self, *a):
        if rec("listen"):
            raise OSError(errno.EADDRINUSE, "injected: Address already in use")
        return real_listen(self, *a)

    socket.socket.bind, socket.socket.listen, socket.socket.getsockname = bind, listen, getsockname

    def getfqdn(name=""):
        hooks["getfqdn"] = hooks.get("getfqdn", 0) + 1
        return FQDN

    def noresolve(*a, **k):
        raise socket.gaierror(socket.EAI_NONAME, "verif: no name resolution in this environment")

    socket.getfqdn = getfqdn
    socket.getaddrinfo = socket.gethostbyname = socket.gethostbyaddr = socket.gethostbyname_ex = noresolve

    loaded = []
    real_load = ssl.SSLContext.load_cert_chain

    def load_cert_chain(self, certfile, keyfile=None, password=None):
        same = (os.path.realpath(os.fsdecode(certfile)) == os.path.realpath(info["cert"])
                and keyfile is not None and os.path.realpath(os.fsdecode(keyfile)) == os.path.realpath(info["key"]))
        err = None
        try:
            real_load(self, certfile, keyfile, password)
        except Exception as e:          # noqa: the real library refused the files
            err = e
        if rec("loadtls", ok=err is None, host="conf" if same else "other"):
            raise ssl.SSLError("injected: cannot load certificate")
        if err is not None:
            raise err
        loaded.append(self)

    ssl.SSLContext.load_cert_chain = load_cert_chain

    base_enc = dict(mimetypes.encodings_map)          # what Python ships, before pygopherd touches it

    def enc_tokens(lookup):
        toks = set()
        for ext, (tok, val) in ENC_PAIRS.items():
            got = lookup(ext)
            if got == val:
                toks.add(tok)
            elif got is not None:
                toks.add("other")
        rest = {e: v for e, v in base_enc.items() if e not in ENC_PAIRS}
        have = [e for e, v in rest.items() if lookup(e) == v]
        if rest and len(have) == len(rest):
            toks.add("dflt")
        elif have:
            toks.add("dfltpart")
        return sorted(toks)

    out = {"events": events, "exc": None, "hooks": hooks}
    try:
        from pygopherd import GopherExceptions, initialization
        core.assert_repo_bound()
        server = None
        try:
            server = initialization.initialize(info["conf"])
        except BaseException as e:        # noqa: start-up raised
            out["exc"] = type(e).__name__ + ": " + str(e)[:200]
            events.append({"ev": "abort", "ok": True, "host": "", "port": "", "which": 0})
        else:
            ob = {}
            ob["cls"] = ("forking" if isinstance(server, socketserver.ForkingMixIn) else
                         "threading" if isinstance(server, socketserver.ThreadingMixIn) else "other")
            nm = getattr(server, "server_name", None)
            ob["name"] = "given" if nm == SNAME else ("fqdn" if nm == FQDN else "other")
            sp = getattr(server, "server_port", None)
            ob["sport"] = "adv" if sp == ADV else ("port" if sp == info["port"] else "other")
            fresh = configparser.ConfigParser()
            with real_open(info["conf"]) as fp:
                fresh.read_file(fp)

            def table(cp):
                return {sec: {o: v for o, v in cp.items(sec, raw=True) if (sec, o) != ("pygopherd", "root")}
                        for sec in cp.sections()}

            sc = getattr(server, "config", None)
            ob["cfgsame"] = isinstance(sc, configparser.RawConfigParser) and table(sc) == table(fresh)
            ctx = getattr(server, "context", None)
            ob["ctx"] = "none" if ctx is None else ("loaded" if any(ctx is x for x in loaded) else "unloaded")
            try:
                tv = [struct.unpack("ll", server.socket.getsockopt(socket.SOL_SOCKET, o, 16))[0]
                      for o in (socket.SO_RCVTIMEO, socket.SO_SNDTIMEO)]
            except Exception:
                tv = [-1, -1]
            ob["timeo"] = "conf" if tv == [info["timeout"]] * 2 else ("none" if tv == [0, 0] else "other")
            ob["enc"] = enc_tokens(lambda e: mimetypes.encodings_map.get(e))
            ob["encEff"] = enc_tokens(lambda e: mimetypes.guess_type("a.txt" + e)[1])
            ob["types"] = [i for i in range(1, len(info["mime"]) + 1)
                           if mimetypes.guess_type("a.vt%d" % i)[0] == "x-verif/type%d" % i]
            ob["tb"] = "yes" if GopherExceptions.tracebacks is True else ("no" if GopherExceptions.tracebacks is False else "other")
            events.append({"ev": "serve", "ok": True, "host": "", "port": "", "which": 0, "obs": ob})
            try:
                server.server_close()
            except Exception:
                pass
    except BaseException as e:
        import traceback
        out["machinery"] = repr(e) + "\n" + traceback.format_exc()
    os.write(wfd, json.dumps(out).encode())
    real_exit(0)


real_exit = os._exit


def run_case(case):
    c, fault = case
    scratch = tempfile.mkdtemp(prefix="verif-xconf-", dir=tlc.scratch_root())
    try:
        k = zlib.crc32(("%s|%s" % (cfgstr(c), fault)).encode())
        info = _write_config(core.REPO, scratch, c, k)
        r, w = os.pipe()
        pid = os.fork()
        if pid == 0:
            os.close(r)
            try:
                _child(info, c, fault, w)
            finally:
                real_exit(3)
        os.close(w)
        data = b""
        while True:
            b = os.read(r, 65536)
            if not b:
                break
            data += b
        os.close(r)
        os.waitpid(pid, 0)
        if not data:
            raise core.MachineryError("XCONF child produced no output for %s fault=%s" % (cfgstr(c), fault))
        out = json.loads(data)
        if out.get("machinery"):
            raise core.MachineryError("XCONF child failed: %s" % out["machinery"])
        return out
    finally:
        for root, dirs, files in os.walk(scratch):
            for f in files:
                try:
                    os.chmod(os.path.join(root, f), 0o600)
                except OSError:
                    pass
        shutil.rmtree(scratch, ignore_errors=True)


MIME1 = ["p", "a", "u"]
BOUNDS = {
    "quick": {"K": 2, "KF": 1, "pi": "FALSE", "mime": ["p", "a", "u", "pa", "ap", "pp"]},
    "thorough": {"K": 2, "KF": 2, "pi": "TRUE", "mime": MIME1 + [a + b for a in MIME1 for b in MIME1] + ["pap", "apa", "aap", "ppp", "upa", "aaa"]},
}


def _cfgs(tier, defects):
    b = BOUNDS[tier]
    dset = "{%s}" % ", ".join('"%s"' % d for d in sorted(defects))
    mc = ("SPECIFICATION Spec\nCONSTANT Defects = %s\nCONSTANT K = %d\nCONSTANT KF = %d\nCONSTANT MimeDom = {%s}\nCONSTANT PairInvalid = %s\n"
          "INVARIANT StatesOk\nINVARIANT FailAborts\nINVARIANT InvalidRefused\nINVARIANT ValidServes\nINVARIANT ServingReady\n"
          "PROPERTY StepsOk\nCHECK_DEADLOCK FALSE\n" % (dset, b["K"], b["KF"], ", ".join('"%s"' % m for m in b["mime"]), b["pi"]))
    tr = "SPECIFICATION TSpec\nCONSTANT Defects = %s\nCONSTRAINT Record\nPOSTCONDITION Post\nCHECK_DEADLOCK FALSE\n" % dset
    return {"MC_XCONF_run.cfg": mc, "TraceXCONF_run.cfg": tr}


def _trace(c, fault, out):
    return {"id": "%s fault=%s" % (cfgstr(c), fault), "init": {"cfg": c, "fault": fault}, "events": out["events"],
            "case": {"cfg": c, "cfgstr": cfgstr(c), "fault": fault, "enc": c["enc"]}, "exc": out["exc"], "hooks": out["hooks"]}


def selftest_traces(traces):
    """Binding self-test: corrupted copies of recorded traces that TraceXCONF must reject."""
    out = []
    serving = [t for t in traces if t["events"][-1]["ev"] == "serve" and t["case"]["fault"] == "none"
               and t["case"]["enc"] != "view"]
    if not serving:
        return out
    t = serving[0]
    a = copy.deepcopy(t)
    a["events"][-1]["obs"]["cls"] = "other"                                  # one observed field corrupted
    b = copy.deepcopy(t)
    b["events"] = [e for e in b["events"] if e["ev"] != "listen"]            # one event dropped
    c = copy.deepcopy(t)
    c["events"].insert(0, {"ev": "fork", "ok": True, "host": "", "port": "", "which": 0})    # irreversible step first
    for nm, x in (("field", a), ("dropped", b), ("early-fork", c)):
        x["id"] = "selftest-%s: %s" % (nm, x["id"])
        x["selftest"] = True
        out.append(x)
    return out


def main(chk, replay=None):
    import time
    from concurrent.futures import ThreadPoolExecutor
    tier = chk.tier if chk.tier in BOUNDS else "quick"
    defects = {"liveview"} if any(f.get("id") == FINDING_LIVEVIEW for f in chk.known) else set()
    files = _cfgs(tier, defects)
    # 1. design model: every explored option table x every failing call
    res = tlc.check_model("MC_XCONF", "MC_XCONF_run.cfg", extra_files=files, dump=True, coverage=True, timeout=900)
    try:
        if res["inv_violations"]:
            chk.model_violation("MC_XCONF", res["inv_violations"], res["out"][-2000:])
        cases = []
        for st in iter_dump_states(res["dump"], wanted={"pc", "cfg", "fault", "phase"}):
            if st["pc"] == 1 and st["phase"] == "starting":
                cases.append((dict(st["cfg"]), st["fault"]))
    finally:
        tlc.cleanup(res)
    if replay:
        with open(replay) as fp:
            rp = json.load(fp)
        cases = [(rp["case"]["cfg"], rp["case"].get("fault", "none"))]
    cases = sorted(cases, key=lambda x: (cfgstr(x[0]), x[1]))
    # 2. spec -> code: the real initialize() on every case TLC enumerated
    t0 = time.time()
    pool = ThreadPoolExecutor(int(os.environ.get("VERIF_PROCS") or 8))
    outs = list(pool.map(run_case, cases))
    pool.shutdown()
    replay_s = time.time() - t0
    traces = [_trace(c, f, o) for (c, f), o in zip(cases, outs)]
    hooks = {}
    for t in traces:
        for k, v in t["hooks"].items():
            hooks[k] = hooks.get(k, 0) + v
    injected = sum(1 for t in traces if t["case"]["fault"] != "none" and any(not e["ok"] for e in t["events"]))
    served = sum(1 for t in traces if t["events"][-1]["ev"] == "serve")
    extra = [] if replay else selftest_traces(traces)
    # 3. code -> spec
    allt = traces + extra
    tv = tlc.validate_traces("TraceXCONF", "TraceXCONF_run.cfg", [{"id": t["id"], "init": t["init"], "events": t["events"]} for t in allt],
                             extra_files=files, timeout=900)
    rejected_self = set()
    for rj in tv["rejected"]:
        t = allt[rj["index"]]
        if t.get("selftest"):
            rejected_self.add(t["id"])
            continue
        chk.violation("%s:%s" % (t["id"], rj["clause"]), rj["clause"], t["case"],
                      {"events": t["events"], "rejected_at_event": rj["at"], "exception": t["exc"]})
    chk.note_drift([d for d in tv["drift"] if not allt[d["index"]].get("selftest")])
    if not replay:
        # vacuity guards (gate a PASS only)
        missing = [h for h in ("readconf", "readmime", "loadtls", "bind", "listen", "fork", "pidfile", "setpgrp", "signal", "priv", "getfqdn")
                   if not hooks.get(h)]
        if missing:
            raise core.MachineryError("XCONF: substitutes never exercised: %s" % missing)
        if injected == 0:
            raise core.MachineryError("XCONF: no fault was injected in any run")
        if len(rejected_self) != len(extra):
            raise core.MachineryError("XCONF: self-test traces not all rejected: %s of %d" % (sorted(rejected_self), len(extra)))
        if served == 0 and not chk.violations:
            raise core.MachineryError("XCONF: no run reached serving")
    nontrivial = len({json.dumps(t["events"], sort_keys=True) for t in traces})
    cov = {
        "states": res["distinct"], "transitions": res["generated"], "exhaustive": True,
        "traces_validated_against_impl": tv["accepted"], "evaluations": len(traces), "distinct_nontrivial": nontrivial,
        "rule": "cases = every initial state of MC_XCONF: option tables differing from the shipped defaults in at most K=%d of 16 "
                "options (every pair of option value classes) x, for tables with at most KF=%d changed options, every call of the "
                "coded program failing in turn; values rotate through every boolean spelling / several port and timeout numbers; "
                "non-trivial = distinct recorded event sequence (calls + built server)" % (BOUNDS[tier]["K"], BOUNDS[tier]["KF"]),
        "samples": [{"id": t["id"], "events": t["events"]} for t in traces[:2] + traces[-2:]],
        "checker_cmd": res["cmd"] + " ; " + tv["cmd"],
        "trace_states": tv["states"], "traces_rejected": len(tv["rejected"]) - len(rejected_self),
        "selftest_rejected": sorted(rejected_self), "faults_injected": injected, "served": served, "aborted": len(traces) - served,
        "hooks_exercised": hooks, "replay_wall_s": round(replay_s, 1), "tlc_model_wall_s": res["wall_s"], "tlc_trace_wall_s": tv["wall_s"],
        "defects_kept_in_model": sorted(defects),
        "model_coverage_zero": sorted(k for k, v in res.get("coverage", {}).items() if v[0] == 0),
        "bindings": ["B2 spec->code replay of every TLC initial state", "B3 code->spec TraceXCONF"],
    }
    return chk.finish(cov, [
        "open / os.access / os.fork / setpgrp / chroot+set*id / socket bind+listen+getsockname+getfqdn / ssl load_cert_chain / "
        "signal.signal substituted by recorders in a forked child; the socket is really bound, but to an ephemeral port",
        "we run as uid 0: 'unreadable' files are mode 000 and the open/access substitutes answer like the kernel does to an ordinary account",
        "no name is resolved: getfqdn answers a constant, getaddrinfo & co. refuse",
        "init_security, logger, pid file contents and signal handlers are judged by C19, XLOG and XSIG; here only their position",
    ])
