"""XMBOX (growth beyond the listed properties): mail folders as menus - pygopherd/handlers/mbox.py (Unix mbox files and
Maildir directories) and the argument selectors of handlers/virtual.py (`|/MBOX-MESSAGE/<n>`, `|/MAILDIR-MESSAGE/<n>`).

Design model: spec/Mailbox.tla (stores, writers, readers, NameOf, Serve, NumOutcome, recognition); case families in
spec/MailboxCases.tla; bounded model spec/MC_XMBOX.tla.  B2: every case TLC enumerated (state dump) is written into a World
document root literally as the model spells it (files as line sequences with their terminators, Maildir trees) and requested
through World.request in Gopher, Gopher+ (+, $, !), HTTP and Gemini; items are FOLLOWED by the reference lexed from the listing.
Maildir enumeration orders are handed out through the substituted os.listdir (envsub.ENV.listdir_order).  B3: the lexed answers
are validated by TLC against spec/trace/TraceXMBOX.tla, which names the failing clause.
This file only concretises cases (gamma), drives the server and lexes answers (alpha): no property logic."""
from __future__ import annotations

import html
import json
import os
import re
import urllib.parse

from harness import core, tlc
from harness.tlaparse import iter_dump_states

# ---------------------------------------------------------------------------------------------------
# tiers (alphabets of the case families; spelled into the constants module MC_XMBOX_consts)
def K(h, b, e="lf", f="std"):
    return {"h": h, "b": b, "e": e, "f": f}


QUICK = dict(
    kinds=[K("plain", "text"), K("none", "empty"), K("empty", "fromline"), K("fold", "text"), K("tabs", "eight"),
           K("enc", "gtfrom"), K("eight", "text"), K("long", "text"), K("lower", "nonl"), K("dup", "text", "crlf"),
           K("tight", "fromline", "crlf"), K("nohdr", "text"), K("plain", "rawfrom"), K("blank", "nonl", "crlf", "tz")],
    maxall=2,
    small=[K("plain", "text"), K("empty", "fromline"), K("lower", "nonl")], maxsmall=4,
    fplaces=["alt"], fords=["asc"], oplaces=["new", "alt"], ordpairs=[("asc", "desc")],
    numsizes=[0, 1, 3],
    nums=["zero", "neg", "next", "far", "word", "empty", "mixed", "space", "dec", "plus", "lead0", "d20", "d5000", "first", "last"],
    altnums=["first", "last", "next", "zero", "word"],
    fshapes=["std", "empty", "prose", "leadblank", "nodate", "tz", "nosec", "daemon", "extra", "glued", "extra2", "lower", "gt", "eight"],
    dshapes=["full", "notmp", "curonly", "newonly", "newfile", "plain"],
    fes=["G", "P", "D", "H", "M"], fams=["folder", "fronts", "order", "flav", "num", "recog"],
    hls=[("default", None)],            # (handler list of harness/world.py, families run under it: None = all)
)
THOROUGH = dict(QUICK)
THOROUGH.update(
    kinds=QUICK["kinds"] + [K("plain", "text", "lf", "eight"), K("fold", "eight", "crlf"), K("none", "rawfrom"), K("nohdr", "empty"),
                            K("enc", "text", "lf", "daemon"), K("long", "nonl", "lf", "nosec")],
    maxall=2,
    small=QUICK["small"] + [K("fold", "text"), K("plain", "rawfrom")], maxsmall=4,
    fplaces=["alt", "new"], fords=["asc", "rot"], oplaces=["new", "cur", "alt"],
    ordpairs=[("asc", "desc"), ("asc", "rot")],
    numsizes=[0, 1, 2, 4], hls=[("default", None), ("full", ["flav", "num", "recog"])],
)
TIERS = {"quick": QUICK, "thorough": THOROUGH}
WITNESS = dict(QUICK, kinds=[K("plain", "text"), K("nohdr", "text"), K("plain", "text", "lf", "eight")], maxall=2, small=[K("plain", "text")],
               maxsmall=2, numsizes=[1], fams=["folder", "order", "num"])
SWITCHES = ["SortedMaildir", "HeaderlessListed", "HugeNumberRefused", "From8Tolerated"]
WITNESS_EXPECT = {"NumberingOrderIndependentInv", "HeaderlessAnsweredInv", "NoSuchMessageInv", "From8AnsweredInv"}
INVARIANTS = ["RoundTripInv", "RawFromSplitsInv", "ServeIdempotentInv", "ListingMatchesRetrievalInv", "NumberedInv", "HeaderlessAnsweredInv",
              "From8AnsweredInv", "PermutationInv", "NumberingOrderIndependentInv", "FlavoursAgreeInv", "NoSuchMessageInv", "RecognitionInv"]
HUGE_DIGITS = 5000
MACHINERY = {"ClientMismatch", "unmatched", "Incomplete", "stuck"}


def tla_str(s):
    return '"' + s.replace("\\", "\\\\").replace('"', '\\"') + '"'


def tla_set(xs):
    return "{" + ", ".join(xs) + "}"


def tla_kind(k):
    return "[h |-> %s, b |-> %s, e |-> %s, f |-> %s]" % tuple(tla_str(k[a]) for a in "hbef")


def consts_module(t):
    q = tla_str
    lines = ["-------------------------- MODULE MC_XMBOX_consts --------------------------",
             "K_AllKinds == " + tla_set(tla_kind(k) for k in t["kinds"]),
             "K_SmallKinds == " + tla_set(tla_kind(k) for k in t["small"]),
             "K_FolderPlaces == " + tla_set(map(q, t["fplaces"])), "K_FolderOrds == " + tla_set(map(q, t["fords"])),
             "K_OrderPlaces == " + tla_set(map(q, t["oplaces"])),
             "K_OrdPairs == " + tla_set("<<%s, %s>>" % (q(a), q(b)) for a, b in t["ordpairs"]),
             "K_NumSizes == " + tla_set(map(str, t["numsizes"])), "K_NumSet == " + tla_set(map(q, t["nums"])),
             "K_AltNums == " + tla_set(map(q, t["altnums"])), "K_FileShapes == " + tla_set(map(q, t["fshapes"])),
             "K_DirShapes == " + tla_set(map(q, t["dshapes"])), "K_Fes == " + tla_set(map(q, t["fes"])),
             "K_Fams == " + tla_set(map(q, t["fams"])),
             "============================================================================="]
    return "\n".join(lines) + "\n"


def cfg_text(t, trace, switches=True):
    c = ["SPECIFICATION " + ("TSpec" if trace else "Spec"), "CONSTANTS"]
    c += ["  %s = %s" % (s, "TRUE" if switches else "FALSE") for s in SWITCHES]
    c += ["  AllKinds <- K_AllKinds", "  MaxAll = %d" % t["maxall"], "  SmallKinds <- K_SmallKinds", "  MaxSmall = %d" % t["maxsmall"],
          "  FolderPlaces <- K_FolderPlaces", "  FolderOrds <- K_FolderOrds", "  OrderPlaces <- K_OrderPlaces", "  OrdPairs <- K_OrdPairs",
          "  NumSizes <- K_NumSizes", "  NumSet <- K_NumSet", "  AltNums <- K_AltNums", "  FileShapes <- K_FileShapes",
          "  DirShapes <- K_DirShapes", "  Fes <- K_Fes", "  Fams <- K_Fams"]
    if trace:
        c += ["CONSTRAINT Record", "POSTCONDITION Post"]
    else:
        c += ["INVARIANT " + i for i in INVARIANTS]
    c.append("CHECK_DEADLOCK FALSE")
    return "\n".join(c) + "\n"


# ---------------------------------------------------------------------------------------------------
# text <-> bytes (the stand-ins of Mailbox.tla: "@" = byte 0xE9, "#" = one non-ASCII character of a listing)
def to_bytes(s):
    return b"".join(b"\xe9" if ch == "@" else ch.encode("ascii") for ch in s)


NL = {"lf": b"\n", "crlf": b"\r\n", "": b""}


def file_bytes(lines):
    return b"".join(to_bytes(l["s"]) + NL[l["nl"]] for l in lines)


def asc_bytes(b):
    out = []
    for x in b:
        if x == 0xE9:
            out.append("@")
        elif x == 9:
            out.append("\t")
        elif 0x20 <= x <= 0x7E and x not in (0x40, 0x23, 0x25):
            out.append(chr(x))
        else:
            out.append("%%%02X" % x)
    return "".join(out)


def asc_text(s):
    """A listing name / selector as decoded text -> ASCII with "#" for every non-ASCII character."""
    out = []
    for ch in s:
        o = ord(ch)
        if o > 0x7E:
            out.append("#")
        elif 0x20 <= o <= 0x7E and ch not in "@#%":
            out.append(ch)
        elif ch == "\t":
            out.append("\t")
        else:
            out.append("%%%02X" % o)
    return "".join(out)


def to_lines(b):
    parts = b.split(b"\n")
    lines = []
    for p in parts[:-1]:
        if p.endswith(b"\r"):
            lines.append({"s": asc_bytes(p[:-1]), "nl": "crlf"})
        else:
            lines.append({"s": asc_bytes(p), "nl": "lf"})
    if parts[-1]:
        lines.append({"s": asc_bytes(parts[-1]), "nl": ""})
    return lines


def dec(b):
    return b.decode("utf-8", "replace")


# ---------------------------------------------------------------------------------------------------
# the site: one World, rebuilt per case; Maildir enumeration under the harness's control
class Site:
    def __init__(self, hl):
        from harness import envsub, world
        self.envsub = envsub
        self.w = world.World(handlers=hl, overrides={("protocols.gemini.GeminiProtocol", "footer"): None})
        self.hl = hl
        self.requests = 0
        self.ord = "asc"
        self.hook_calls = 0
        self.enumerations = set()        # (subdir, order as handed out) for orders that are not the sorted one
        self.real_root = os.path.realpath(self.w.root)
        envsub.ENV.listdir_order = self._order

    def _order(self, path, names):
        base = os.path.basename(path.rstrip("/"))
        if base in ("cur", "new") and os.path.realpath(path).startswith(self.real_root):
            self.hook_calls += 1
            names = sorted(names)
            if self.ord == "desc":
                names = names[::-1]
            elif self.ord == "rot" and names:
                names = names[1:] + names[:1]
            if len(names) > 1 and names != sorted(names):
                self.enumerations.add(self.ord)
        return names

    def build(self, x):
        self.w.clear()
        self.w.mkdir(x["dir"])
        for d in x["disk"]["dirs"]:
            self.w.mkdir(x["dir"] + "/" + d)
        for f in x["disk"]["files"]:
            self.w.write(x["dir"] + "/" + f["path"], file_bytes(f["lines"]))

    def raw(self, data, tls=False):
        self.requests += 1
        return self.w.request(data, tls=tls)

    def close(self):
        self.envsub.ENV.listdir_order = None
        self.w.close()


# ---------------------------------------------------------------------------------------------------
# gamma: requests per front end.  `ref` = the reference as a client holds it (selector for the Gopher family, the
# literal href for HTTP / Gemini); wire() turns a selector the client made up itself into such a reference
def wire(fe, sel):
    return urllib.parse.quote(sel, safe="/") if fe in ("H", "M") else sel


SUFFIX = {"G": b"", "P": b"\t+", "D": b"\t$", "I": b"\t!"}


def send(site, fe, ref):
    data = ref.encode("ascii")
    if fe == "H":
        return site.raw(b"GET " + data + b" HTTP/1.0\r\n\r\n")
    if fe == "M":
        return site.raw(b"gemini://localhost" + data + b"\r\n", tls=True)
    return site.raw(data + SUFFIX[fe] + b"\r\n")


# ---------------------------------------------------------------------------------------------------
# alpha: lexers (total: anything in -> neutral records out)
_GERR = re.compile(rb"^3[^\t\r\n]*\t[^\t\r\n]*\terror\.host\t1\r\n$")
_HROW = re.compile(r'<A HREF="([^"]*)"><TT>(.*?)</TT></A>', re.S)


def exc_of(r):
    for line in r.log:
        m = re.search(r"EXCEPTION (\w+)", line)
        if m:
            return m.group(1)
    return ""


def menu_rows(payload):
    rows = []
    for line in payload.split(b"\r\n"):
        if not line or line == b".":
            continue
        f = dec(line).split("\t")
        if len(f) < 4 or not f[0]:
            rows.append({"t": "?", "name": asc_text(f[0]), "sel": ""})
        else:
            rows.append({"t": asc_text(f[0][0]), "name": asc_text(f[0][1:]), "sel": asc_text(f[1]), "ref": f[1]})
    return rows


def info_rows(payload):
    rows = []
    mime = ""
    for line in payload.split(b"\r\n"):
        if line.startswith(b"+INFO: "):
            rows += menu_rows(line[7:] + b"\r\n")
        elif line.startswith(b" ") and line.rstrip().endswith(b":") and not mime and b"/" in line:
            mime = asc_text(dec(line.strip()[:-1]))
    return rows, mime


def split_frame(fe, r):
    """-> (cls, ctype, payload)"""
    out = r.out
    if fe == "G":
        if not out:
            return ("none" if exc_of(r) else "ok"), "", b""
        return ("err" if _GERR.match(out) else "ok"), "", out
    if fe in ("P", "D", "I"):
        head, sep, rest = out.partition(b"\r\n")
        if not sep or not re.match(rb"^[+-]-?\d+$", head):
            return "none", "", b""
        if head.startswith(b"-"):
            return "err", "", rest
        if head == b"+-1" and rest.endswith(b".\r\n"):
            rest = rest[:-3]
        return "ok", "", rest
    if fe == "H":
        head, sep, body = out.partition(b"\r\n\r\n")
        m = re.match(rb"^HTTP/1\.[01] (\d\d\d) ", head)
        if not sep or not m:
            return "none", "", b""
        ct = re.search(rb"(?im)^Content-Type:\s*([^\r\n;]*)", head)
        status = int(m.group(1))
        return ("ok" if status == 200 else "err" if 400 <= status < 600 else "none"), asc_text(dec(ct.group(1).strip())) if ct else "", body
    if fe == "M":
        head, sep, body = out.partition(b"\r\n")
        m = re.match(rb"^(\d\d) ?(.*)$", head)
        if not sep or not m:
            return "none", "", b""
        status = int(m.group(1))
        if 20 <= status < 30:
            return "ok", asc_text(dec(m.group(2)).split(";")[0].strip()), body
        return ("err" if 40 <= status < 70 and not body else "none"), "", b""
    raise core.MachineryError("unknown front end %r" % fe)


def lex_list(fe, r):
    cls, ctype, payload = split_frame(fe, r)
    rows = []
    if cls == "ok":
        if fe in ("G", "P"):
            rows = menu_rows(payload)
        elif fe == "D":
            rows, _ = info_rows(payload)
        elif fe == "H":
            for href, inner in _HROW.findall(dec(payload)):
                rows.append({"t": "", "name": asc_text(html.unescape(inner)), "sel": asc_text(urllib.parse.unquote(href)), "ref": href})
        elif fe == "M":
            for line in dec(payload).split("\n"):
                if line.startswith("=> "):
                    ref, _, name = line[3:].partition(" ")
                    rows.append({"t": "", "name": asc_text(name), "sel": asc_text(urllib.parse.unquote(ref)), "ref": ref})
                elif line.strip():
                    rows.append({"t": "i", "name": asc_text(line), "sel": ""})
    return cls, ctype, rows


def pub(rows):
    return [{"t": x["t"], "name": x["name"], "sel": x["sel"]} for x in rows]


def ev_base(name, fe, sel, r, cls):
    return {"ev": name, "fe": fe, "sel": sel, "cls": cls, "escaped": r.escaped or "", "exc": exc_of(r)}


def do_list(site, fe, sel, name="list"):
    r = send(site, fe, wire(fe, sel))
    cls, ctype, rows = lex_list(fe, r)
    ev = ev_base(name, fe, sel, r, cls)
    ev.update(ctype=ctype, rows=pub(rows))
    return ev, rows


def do_get(site, fe, row, k):
    r = send(site, fe, row.get("ref", row["sel"]))
    cls, ctype, payload = split_frame(fe, r)
    ev = ev_base("get", fe, row["sel"], r, cls)
    ev.update(k=k, ctype=ctype, lines=to_lines(payload) if cls == "ok" else [])
    return ev


def do_info(site, sel, ref, name, k=0):
    r = send(site, "I", ref)
    cls, _ctype, payload = split_frame("I", r)
    rows, mime = info_rows(payload) if cls == "ok" else ([], "")
    ev = ev_base(name, "D", sel, r, cls)
    ev.update(k=k, rows=pub(rows), mime=mime)
    return ev


def do_fetch(site, fe, sel, name, wire_sel=None):
    """Request a selector the client composed itself; lexed as text (and, for `raw`, as menu too)."""
    r = send(site, fe, wire(fe, wire_sel if wire_sel is not None else sel))
    cls, ctype, payload = split_frame(fe, r)
    ev = ev_base(name, fe, sel, r, cls)
    ev.update(ctype=ctype, lines=to_lines(payload) if cls == "ok" else [])
    if name == "raw":
        ev["rows"] = pub(menu_rows(payload)) if cls == "ok" and payload and all(
            len(l.split(b"\t")) >= 4 for l in payload.split(b"\r\n") if l) else []
    return ev


# ---------------------------------------------------------------------------------------------------
# one case -> traces
def run_folder(site, case, fe):
    c, x = case["c"], case["x"]
    site.ord = c["ord"] if c["ord"] != "-" else "asc"
    fsel = x["mb"] if c["fl"] == "mbox" else x["md"]
    evs = []
    ev, _ = do_list(site, "G", x["dir"], "dir")
    evs.append(ev)
    ev, rows = do_list(site, fe, fsel)
    evs.append(ev)
    for k, row in enumerate(rows, 1):
        evs.append(do_get(site, fe, row, k))
    if fe == "D":
        for k, row in enumerate(rows, 1):
            evs.append(do_info(site, row["sel"], row.get("ref", row["sel"]), "info", k))
        evs.append(do_info(site, fsel, fsel, "self"))
    return evs


def run_fronts(site, case, fes):
    c, x = case["c"], case["x"]
    site.ord = c["ord"] if c["ord"] != "-" else "asc"
    fsel = x["mb"] if c["fl"] == "mbox" else x["md"]
    return [do_list(site, fe, fsel)[0] for fe in fes]


def run_order(site, case):
    c, x = case["c"], case["x"]
    evs = []
    for o in (c["a"], c["b"]):
        site.ord = o
        ev, rows = do_list(site, "G", x["md"])
        ev["ord"] = o
        evs.append(ev)
        for k, row in enumerate(rows, 1):
            g = do_get(site, "G", row, k)
            g["ord"] = o
            evs.append(g)
    site.ord = "asc"
    return evs


def run_flav(site, case):
    x = case["x"]
    site.ord = "asc"
    evs = []
    for fl, fsel in (("mbox", x["mb"]), ("maildir", x["md"])):
        ev, rows = do_list(site, "G", fsel)
        ev["fl"] = fl
        evs.append(ev)
        for k, row in enumerate(rows, 1):
            g = do_get(site, "G", row, k)
            g["fl"] = fl
            evs.append(g)
    return evs


def run_num(site, case, fe):
    c, x = case["c"], case["x"]
    site.ord = "asc"
    sel = x["sel"]
    ev = do_fetch(site, fe, sel, "num", wire_sel=sel.replace(x["huge"], "9" * HUGE_DIGITS))
    ev["digits"] = HUGE_DIGITS if x["huge"] in sel else 0
    ev["num"] = c["num"]
    return [ev]


def run_recog(site, case):
    c, x = case["c"], case["x"]
    site.ord = "asc"
    obj = x["mb"] if c["kind"] == "file" else x["md"]
    flag = "/MBOX-MESSAGE/" if c["kind"] == "file" else "/MAILDIR-MESSAGE/"
    ev, _ = do_list(site, "G", x["dir"], "dir")
    return [ev, do_fetch(site, "G", obj, "raw"), do_fetch(site, "G", obj + "|" + flag + "1", "msg1")]


def traces_of(site, case, fes):
    """-> list of (fe, events)"""
    fam = case["fam"]
    site.build(case["x"])
    if fam == "folder":
        return [(fe, run_folder(site, case, fe)) for fe in fes]
    if fam == "num":
        return [(fe, run_num(site, case, fe)) for fe in fes]
    if fam == "fronts":
        return [("*", run_fronts(site, case, fes))]
    if fam == "order":
        return [("G", run_order(site, case))]
    if fam == "flav":
        return [("G", run_flav(site, case))]
    if fam == "recog":
        return [("G", run_recog(site, case))]
    raise core.MachineryError("unknown family %r" % fam)


# ---------------------------------------------------------------------------------------------------
def plain(v):
    if isinstance(v, dict):
        return {str(a): plain(b) for a, b in v.items()}
    if isinstance(v, (list, tuple)):
        return [plain(x) for x in v]
    if isinstance(v, frozenset):
        return sorted(plain(x) for x in v)
    if isinstance(v, (bool, int)):
        return v
    return str(v)


def model_check(chk, t):
    files = {"MC_XMBOX_consts.tla": consts_module(t), "MC_XMBOX_run.cfg": cfg_text(t, False)}
    res = tlc.run_tlc("MC_XMBOX", "MC_XMBOX_run.cfg", extra_files=files, dump=True, timeout=1500)
    cases = []
    try:
        if res["inv_violations"]:
            chk.model_violation("MC_XMBOX", sorted(set(res["inv_violations"])), res["out"][-3000:])
            res.setdefault("distinct", 0)
            res.setdefault("generated", 0)
            return res, []
        if res["tlc_error"] or "distinct" not in res:
            raise tlc.TLCError("TLC failed on MC_XMBOX:\n%s" % (res["tlc_error"] or res["out"])[-3000:])
        for st in iter_dump_states(res["dump"], wanted={"fam", "c", "pc", "x"}):
            if st["pc"] != "done":
                continue
            cases.append({"fam": str(st["fam"]), "c": plain(st["c"]), "x": plain(st["x"])})
    finally:
        tlc.cleanup(res)
    cases.sort(key=lambda z: json.dumps([z["fam"], z["c"]], sort_keys=True))
    return res, cases


def witness(chk):
    """The switches mean something: with every named deviation AS CODED the model violates exactly the four clauses."""
    files = {"MC_XMBOX_consts.tla": consts_module(WITNESS), "MC_XMBOX_wit.cfg": cfg_text(WITNESS, False, switches=False)}
    res = tlc.run_tlc("MC_XMBOX", "MC_XMBOX_wit.cfg", extra_files=files, timeout=600, continue_=True)
    got = set(res["inv_violations"])
    if res["tlc_error"] and not got:
        raise tlc.TLCError("witness run failed:\n%s" % res["tlc_error"][-2000:])
    if got != WITNESS_EXPECT:
        raise core.MachineryError("witness run: as-coded switches violate %s, expected %s" % (sorted(got), sorted(WITNESS_EXPECT)))
    return res


def case_key(hl, case, fe):
    return "%s|%s|%s|%s" % (case["fam"], hl, fe, json.dumps(case["c"], sort_keys=True))


def flat_case(hl, case, fe):
    c = case["c"]
    d = {"fam": case["fam"], "fe": fe, "hl": hl}
    for a in ("fl", "place", "ord", "num", "sep", "cross", "n", "kind", "shape"):
        if a in c:
            d[a] = c[a]
    store = c.get("store") or []
    fl = c.get("fl", "")
    d["size"] = len(store)
    d["headerless"] = any(k["h"] == "nohdr" or (fl == "mbox" and k["b"] == "rawfrom") for k in store)
    d["from8"] = fl == "mbox" and any(k["f"] == "eight" for k in store)
    return d


def make_traces(site, hl, case, fes):
    out = []
    for fe, evs in traces_of(site, case, fes):
        if not evs:
            raise core.MachineryError("no events recorded for %s" % case_key(hl, case, fe))
        out.append({"id": case_key(hl, case, fe), "init": {"fam": case["fam"], "c": case["c"], "fe": fe}, "events": evs})
    return out


_SITE = None


def _pool_init(hl):
    global _SITE
    _SITE = Site(hl)


def _pool_task(arg):
    hl, fes, chunk = arg
    import traceback
    try:
        before = (_SITE.hook_calls, _SITE.requests)
        out = [make_traces(_SITE, hl, case, fes) for case in chunk]
        return ("ok", out, _SITE.hook_calls - before[0], _SITE.requests - before[1], sorted(_SITE.enumerations))
    except BaseException:          # a worker must always answer (a raising task can hang pool.map)
        return ("err", traceback.format_exc())


def run_cases(hl, fes, cases, procs):
    """Every case on the real server, in worker processes that each own one World; results in case order."""
    import multiprocessing as mp
    size = max(1, (len(cases) + procs * 6 - 1) // (procs * 6))
    chunks = [cases[i:i + size] for i in range(0, len(cases), size)]
    ctx = mp.get_context("fork")
    with ctx.Pool(min(procs, len(chunks)), initializer=_pool_init, initargs=(hl,)) as pool:
        try:
            res = pool.map_async(_pool_task, [(hl, fes, ch) for ch in chunks], chunksize=1).get(timeout=3000)
        except mp.TimeoutError:
            pool.terminate()
            raise core.MachineryError("worker pool timed out")
    bad = [r[1] for r in res if r[0] != "ok"]
    if bad:
        raise core.MachineryError("worker failed:\n" + bad[0])
    per_case = [trs for r in res for trs in r[1]]
    return per_case, sum(r[2] for r in res), sum(r[3] for r in res), set(o for r in res for o in r[4])


def validate(t, traces):
    files = {"MC_XMBOX_consts.tla": consts_module(t), "TraceXMBOX_run.cfg": cfg_text(t, True)}
    return tlc.validate_traces("TraceXMBOX", "TraceXMBOX_run.cfg", traces, extra_files=files, timeout=1500, chunk=2500)


def validate_parallel(t, traces, procs):
    """Several single-worker TLC runs side by side on slices (trace validation is one worker per JVM)."""
    from concurrent.futures import ThreadPoolExecutor
    n = max(1, min(procs, (len(traces) + 799) // 800))
    size = (len(traces) + n - 1) // n
    slices = [(i, traces[i:i + size]) for i in range(0, len(traces), size)]
    saved = os.environ.get("VERIF_TLC_XMX")
    os.environ["VERIF_TLC_XMX"] = os.environ.get("VERIF_TRACE_XMX", "3g")      # trace validation needs little heap
    try:
        with ThreadPoolExecutor(max_workers=n) as ex:
            parts = list(ex.map(lambda s: (s[0], validate(t, s[1])), slices))
    finally:
        if saved is None:
            os.environ.pop("VERIF_TLC_XMX", None)
        else:
            os.environ["VERIF_TLC_XMX"] = saved
    tv = {"accepted": 0, "rejected": [], "states": 0, "generated": 0, "wall_s": 0.0, "cmd": "", "drift": []}
    for off, p in parts:
        tv["accepted"] += p["accepted"]
        tv["states"] += p["states"]
        tv["generated"] += p["generated"]
        tv["wall_s"] = max(tv["wall_s"], p["wall_s"])
        tv["cmd"] = p["cmd"]
        for rj in p["rejected"]:
            rj["index"] += off
            tv["rejected"].append(rj)
        for d in p["drift"]:
            d["index"] += off
            tv["drift"].append(d)
    return tv


def selftest(t, traces, accepted_idx):
    """Binding demonstration: corrupted / truncated copies of ACCEPTED recorded traces must be rejected with their clause."""
    def pick(pred):
        for i in accepted_idx:
            if pred(traces[i]):
                return json.loads(json.dumps(traces[i]))
        return None
    muts = []
    tr = pick(lambda x: x["init"]["fam"] == "folder" and x["init"]["fe"] == "G" and x["init"]["c"]["fl"] == "mbox" and len(x["events"]) >= 4
              and x["events"][1]["rows"][0]["name"] != x["events"][1]["rows"][1]["name"])
    if tr:
        a = json.loads(json.dumps(tr))
        r = a["events"][1]["rows"]
        r[0]["name"], r[1]["name"] = r[1]["name"], r[0]["name"]
        muts.append(("StoreOrder", a))
        b = json.loads(json.dumps(tr))
        b["events"][2]["lines"][-1]["s"] += "x"
        muts.append(("RetrieveNth", b))
        d = json.loads(json.dumps(tr))
        del d["events"][-1]
        muts.append(("Incomplete", d))
        e = json.loads(json.dumps(tr))
        e["events"][1]["rows"][0]["name"] = "Other"
        muts.append(("NamedBySubject", e))
        f = json.loads(json.dumps(tr))
        f["events"][1]["rows"][1]["sel"] = f["events"][1]["rows"][0]["sel"]
        muts.append(("SelectorsNumbered", f))
        g = json.loads(json.dumps(tr))
        g["events"][0]["rows"] = [dict(z, t="0") for z in g["events"][0]["rows"]]
        muts.append(("Recognition", g))
    tr = pick(lambda x: x["init"]["fam"] == "num" and x["init"]["c"]["num"] == "next" and x["init"]["fe"] == "H")
    if tr:
        tr["events"][0]["cls"] = "ok"
        tr["events"][0]["lines"] = [{"s": "X-Id: m1", "nl": "lf"}]
        muts.append(("NoSuchMessage", tr))
    tr = pick(lambda x: x["init"]["fam"] == "fronts" and len(x["events"][0]["rows"]) >= 1)
    if tr:
        tr["events"][-1]["rows"][0]["name"] += "!"
        muts.append(("FrontEndsAgree", tr))
    tr = pick(lambda x: x["init"]["fam"] == "flav" and len(x["init"]["c"]["store"]) >= 1)
    if tr:
        tr["events"][-1]["lines"].append({"s": "extra", "nl": "lf"})
        muts.append(("FlavoursAgree", tr))
    tr = pick(lambda x: x["init"]["fam"] == "folder" and x["init"]["fe"] == "D" and len(x["events"]) >= 5)
    if tr:
        n = len(tr["events"][1]["rows"])
        tr["events"][2 + n]["rows"][0]["name"] = "Another"
        muts.append(("ListingMatchesRetrieval", tr))
    # an "order" trace whose second phase repeats the first is accepted; with two items swapped it is not
    src = next((x for x in traces if x["init"]["fam"] == "order" and len(x["init"]["c"]["store"]) == 2 and x["events"][0]["cls"] == "ok"), None)
    if src:
        ok = json.loads(json.dumps(src))
        half = len(ok["events"]) // 2
        for i in range(half):
            ok["events"][half + i] = dict(json.loads(json.dumps(ok["events"][i])), ord=ok["init"]["c"]["b"])
        muts.append((None, ok))
        bad = json.loads(json.dumps(ok))
        r = bad["events"][half]["rows"]
        r[0]["name"], r[1]["name"] = r[1]["name"], r[0]["name"]
        if r[0]["name"] != r[1]["name"]:
            muts.append(("NumberingOrderIndependent", bad))
    if len(muts) < 8:
        raise core.MachineryError("selftest: not enough recorded traces to corrupt (%d)" % len(muts))
    tv = validate(t, [m[1] for m in muts])
    got = {rj["index"]: rj["clause"] for rj in tv["rejected"]}
    bad = [(i, want, got.get(i)) for i, (want, _tr) in enumerate(muts) if got.get(i) != want]
    return len(muts), bad


def main(chk, replay=None):
    t = TIERS[chk.tier]
    procs = int(os.environ.get("VERIF_PROCS") or 6)
    cov = {"states": 0, "transitions": 0, "traces_validated_against_impl": 0, "evaluations": 0, "exhaustive": True, "samples": [],
           "per_family": {}, "checker_cmd": "", "runs": []}
    if replay:
        with open(replay) as fp:
            rp = json.load(fp)
        d = rp["detail"]
        t = TIERS[d["tier"]]
        site = Site(d["hl"])
        try:
            trs = [x for x in make_traces(site, d["hl"], d["case"], t["fes"]) if x["init"]["fe"] == d["fe"]]
        finally:
            site.close()
        tv = validate(t, trs)
        for rj in tv["rejected"]:
            chk.violation(rp["key"], rj["clause"], dict(flat_case(d["hl"], d["case"], d["fe"]), clause=rj["clause"]),
                          dict(d, at=rj["at"], trace=trs[rj["index"]]))
        cov.update(traces_validated_against_impl=tv["accepted"], evaluations=len(trs), exhaustive=False)
        return chk.finish(cov, ["replay of one stored case"])

    import time
    t0 = time.time()
    wit = witness(chk)
    t1 = time.time()
    res, cases = model_check(chk, t)
    cov["phase_s"] = {"witness": round(t1 - t0, 1), "model_check": round(time.time() - t1, 1)}
    if not cases and chk.violations:
        cov["exhaustive"] = False
        return chk.finish(cov, ["the bounded model violates an invariant; no replay"])
    cov.update(states=res["distinct"] + wit.get("distinct", 0), transitions=res["generated"] + wit.get("generated", 0), checker_cmd=res["cmd"])
    nontrivial = {"listings_with_items": 0, "items_followed": 0, "error_replies": 0, "maildir_listings": 0, "reordered_enumerations": 0,
                  "files_served_as_files": 0, "info_blocks": 0}
    drift = []
    first = None
    for hl, hfams in t["hls"]:
        t2 = time.time()
        mine = [case for case in cases if hfams is None or case["fam"] in hfams]
        per_case, hooks, nreq, enums = run_cases(hl, t["fes"], mine, procs)
        traces, owners = [], []
        for case, trs in zip(mine, per_case):
            for tr in trs:
                traces.append(tr)
                owners.append(case)
            cov["per_family"][case["fam"]] = cov["per_family"].get(case["fam"], 0) + 1
        for tr in traces:
            fam = tr["init"]["fam"]
            for ev in tr["events"]:
                if ev["ev"] == "list" and ev["cls"] == "ok" and ev["rows"]:
                    nontrivial["listings_with_items"] += 1
                    if "MAILDIR" in ev["rows"][0]["sel"]:
                        nontrivial["maildir_listings"] += 1
                elif ev["ev"] == "get" and ev["cls"] == "ok" and ev["lines"]:
                    nontrivial["items_followed"] += 1
                elif ev["ev"] == "num" and ev["cls"] == "err":
                    nontrivial["error_replies"] += 1
                elif ev["ev"] == "raw" and fam == "recog" and ev["cls"] == "ok" and not ev["rows"] and ev["lines"]:
                    nontrivial["files_served_as_files"] += 1
                elif ev["ev"] == "info" and ev["cls"] == "ok":
                    nontrivial["info_blocks"] += 1
        nontrivial["reordered_enumerations"] += len(enums)
        if hooks == 0:
            raise core.MachineryError("the substituted os.listdir never saw cur/ or new/ of a Maildir")
        t3 = time.time()
        tv = validate_parallel(t, traces, procs)
        cov["phase_s"]["real_runs_" + hl] = round(t3 - t2, 1)
        cov["phase_s"]["trace_validation_" + hl] = round(time.time() - t3, 1)
        cov["traces_validated_against_impl"] += tv["accepted"]
        cov["evaluations"] += len(traces)
        cov["runs"].append({"handlers": hl, "cases": len(mine), "traces": len(traces), "requests": nreq, "listdir_hook_calls": hooks,
                            "tlc_states": res["distinct"], "tlc_wall_s": res["wall_s"], "trace_states": tv["states"], "trace_wall_s": tv["wall_s"]})
        rejected = set()
        rank = {}                          # one of every (clause, family, front end) first: only the first 100 get a replay file
        for rj in sorted(tv["rejected"], key=lambda z: z["index"]):
            g = (rj["clause"], traces[rj["index"]]["init"]["fam"], traces[rj["index"]]["init"]["fe"])
            rank[g] = rj["rank"] = rank.get(g, 0) + 1
        for rj in sorted(tv["rejected"], key=lambda z: (z["rank"], z["index"])):
            case, tr = owners[rj["index"]], traces[rj["index"]]
            rejected.add(rj["index"])
            if rj["clause"] in MACHINERY:
                raise core.MachineryError("trace %s: %s at event %s\n%s" % (tr["id"], rj["clause"], rj["at"], json.dumps(tr["events"])[:2000]))
            fe = tr["init"]["fe"]
            chk.violation(tr["id"] + "|" + rj["clause"], rj["clause"], dict(flat_case(hl, case, fe), clause=rj["clause"]),
                          {"tier": chk.tier, "hl": hl, "fe": fe, "case": case, "at": rj["at"], "trace": tr})
        drift += [dict(d, hl=hl) for d in tv["drift"]]
        if os.environ.get("XMBOX_DUMP"):          # development aid: every rejection / drift with its trace
            with open(os.environ["XMBOX_DUMP"], "w") as fp:
                json.dump({"rejected": [{"clause": rj["clause"], "at": rj["at"], "trace": traces[rj["index"]]} for rj in tv["rejected"]],
                           "drift": [dict(d, trace=traces[d["index"]]) for d in tv["drift"]]}, fp)
        if first is None:
            first = (traces, [i for i in range(len(traces)) if i not in rejected])
            cov["samples"] = [{"id": z["id"][:300], "events": z["events"][:3]} for z in traces[:: max(1, len(traces) // 5)][:5]]
    chk.note_drift(drift)
    if min(nontrivial.values()) == 0:
        raise core.MachineryError("vacuous run: %r" % nontrivial)
    t4 = time.time()
    n, bad = selftest(t, first[0], first[1])
    cov["phase_s"]["selftest"] = round(time.time() - t4, 1)
    if bad and not chk.violations:
        raise core.MachineryError("selftest: corrupted traces not rejected as expected: %r" % bad)
    cov["selftest_corrupted_traces_rejected"] = n - len(bad)
    cov["distinct_nontrivial"] = sum(nontrivial.values())
    cov["nontrivial"] = nontrivial
    cov["rule"] = ("counted from the lexed answers: folder listings with at least one item, items followed to a non-empty text, error replies "
                   "to message selectors, Maildir listings, enumeration orders handed out that differ from the sorted one, look-alike files "
                   "served as files, Gopher+ item blocks")
    return chk.finish(cov, [
        "not one of the listed properties; clauses and their documentation sources are in the header of spec/Mailbox.tla",
        "requests are pushed through World.request (real GopherRequestHandler, in-memory socket; Gemini = ssl.SSLSocket subclass mock)",
        "mailboxes are written from the line sequences of the TLC state dump; 8-bit = the byte 0xE9; Gemini footer switched off",
        "Maildir enumeration order = the substituted os.listdir (envsub.ENV.listdir_order): sorted, reversed or rotated names",
        "the Python standard library (mailbox, email) is part of the system under test: its parsing is modelled over the alphabet used here only"])
