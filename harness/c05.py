"""C05 - listings only advertise what the server will serve (link closure).

Design model: spec/Links.tla (Target / Follow / Claim / Parse / Serve / Listing per protocol view) checked by
TLC through MC_C05 over every enumerated content tree x protocol view x handler list (QuoteOK, ClosureKnown,
NoCrash).  B1: protocol order, WAP prefix and Gemini query prefix are read from the working tree.
B2: the trees TLC enumerated (state dump, variable c) are materialised under a real document root and crawled
from the root menu through the real server, once per protocol view, with that protocol's own link lexer and
request syntax (harness/c05_lib.py).  B3: every crawl is validated by TLC against spec/trace/TraceC05.tla,
which re-derives each request with Links!Follow, judges Closure and compares listings and responses with the
model (drift).  No property logic in this file."""
from __future__ import annotations

import json
import os
import random
import time

from harness import core, tlc
from harness.tlaparse import iter_dump_states

TOK_Q = ["a", " ", "%", "?", "#", "|", "+", "&", "\"", "^", ":", "..", "%41", "wap", "GEMINI-QUERY"]
TIERS = {
    "quick": dict(tokens=TOK_Q, maxtok=2, shapes=["wapiti", "a b 1", "GEMINI-QUERYx", "URL:a"],
                  inner=["a", " ", "%", "?", "|", "^", "wap", "URL:a", "a b 1", "x:y", "a\rb"], kinds2=["file"],
                  deep=["{{"],
                  views=["G", "GP", "GD", "SG", "H", "HS", "W", "M", "S"], hls=["default", "full"],
                  full_only_kinds=("zip",), hi=[0xFF]),
    "thorough": dict(tokens=TOK_Q + ["=", "'", "<", "b 1", "\\"], maxtok=2,
                     shapes=["wapiti", "a b 1", "GEMINI-QUERYx", "URL:a", "a  2", "x y 10", "URL:a?b", "a%2Fb",
                             "PYGOPHERD-HTTPPROTO-ICONS"],
                     inner=["a", " ", "%", "?", "#", "|", "+", "&", "\"", "^", ":", "..", "%41", "URL:a", "a b 1", "x:y",
                            "text.gif", "wap", "GEMINI-QUERY", "a\rb", "a\fb", "\ra"], kinds2=["file", "mbox", "dir"],
                     deep=["{{", "}}", "{^{", "{%{"],
                     views=["G", "GP", "GD", "SG", "SGP", "SGD", "H", "HS", "W", "M", "S"], hls=["default", "full"],
                     full_only_kinds=None, hi=[0xFF, 0xE9]),
}

MC_CFG = """SPECIFICATION Spec
CONSTANTS
%(consts)s  Tokens <- K_Tokens
  MaxTok = %(maxtok)d
  Shapes <- K_Shapes
  InnerTokens <- K_InnerTokens
  Kinds2 <- K_Kinds2
  DeepNames <- K_DeepNames
  Views <- K_Views
  HLs <- K_HLs
INVARIANT QuoteOK
INVARIANT ClosureKnown
INVARIANT NoCrash
INVARIANT LengthsCovered
CHECK_DEADLOCK FALSE
"""
TRACE_CFG = """SPECIFICATION TSpec
CONSTANTS
%(consts)sCONSTRAINT Record
POSTCONDITION Post
CHECK_DEADLOCK FALSE
"""


_W = None
_K = None
_HL = "default"


def _init_worker():
    global _W
    from harness.world import World
    _W = World(handlers=_HL)


def _crawl_case(job):
    from harness import c05_lib as L
    case, views = job
    L.materialise(_W, case, _K.hi_byte)
    out = []
    for p in views:
        events, concrete = L.crawl(_W, p, _K)
        out.append((p, events, concrete))
    return out


def model_check(chk, t, k):
    cfg = MC_CFG % dict(consts=k.cfg_block(), maxtok=t["maxtok"])
    files = dict(k.tla_files({"Tokens": t["tokens"], "Shapes": t["shapes"], "InnerTokens": t["inner"], "Kinds2": t["kinds2"], "DeepNames": t["deep"],
                              "Views": t["views"], "HLs": t["hls"]}))
    files["MC_C05_run.cfg"] = cfg
    res = tlc.check_model("MC_C05", "MC_C05_run.cfg", extra_files=files, dump=True, timeout=2400)
    cases, deviations, computed, scope = {}, {}, 0, {}
    try:
        if res["inv_violations"]:
            chk.model_violation("MC_C05", res["inv_violations"], res["out"][-3000:])
        for st in iter_dump_states(res["dump"], wanted={"c", "p", "hl", "res"}):
            c = st["c"]
            cases[json.dumps(c, sort_keys=True)] = dict(c)
            if st["res"]["done"]:
                computed += 1
                scope[(json.dumps(c, sort_keys=True), str(st["p"]))] = bool(st["res"]["scope"])
                for f in st["res"]["fail"]:
                    deviations[f[2]] = deviations.get(f[2], 0) + 1
    finally:
        tlc.cleanup(res)
    return res, [cases[x] for x in sorted(cases)], deviations, computed, scope


def run_crawls(cases, t, k, hl, views, scope=None):
    """Crawl every case through every view in scope (scope: (case json, view) -> bool from the model; names a
    protocol cannot express are outside the property)."""
    global _HL, _K
    from harness import c05_lib as L
    _HL, _K = hl, k
    jobs = [(c, [p for p in views if scope is None or scope.get((json.dumps(c, sort_keys=True), p), True)])
            for c in cases]
    results = L.pool_map(_crawl_case, jobs, _init_worker)
    traces = []
    for case, per in zip(cases, results):
        for p, events, concrete in per:
            traces.append({"id": "%s|%s|%s" % (hl, p, json.dumps(case, sort_keys=True)),
                           "init": {"p": p, "c": case, "hl": hl}, "events": events, "concrete": concrete})
    return traces


def validate(traces, k, module="TraceC05", cfg_text=None):
    """Batched trace validation, several TLC processes side by side (each batch is one JVM, -workers 1)."""
    from concurrent.futures import ThreadPoolExecutor
    files = dict(k.tla_files())
    files[module + "_run.cfg"] = cfg_text or (TRACE_CFG % dict(consts=k.cfg_block()))
    slim = [{"id": tr["id"], "init": tr["init"], "events": tr["events"]} for tr in traces]
    par = max(1, min(int(os.environ.get("VERIF_PROCS") or 12), 12))
    size = max(200, min(2500, (len(slim) + par - 1) // par))
    offs = list(range(0, len(slim), size))

    def one(off):
        return off, tlc.validate_traces(module, module + "_run.cfg", slim[off:off + size], extra_files=files,
                                        timeout=3000, chunk=size)

    out = {"accepted": 0, "rejected": [], "drift": [], "states": 0, "generated": 0, "wall_s": 0.0, "cmd": ""}
    with ThreadPoolExecutor(max_workers=par) as ex:
        for off, tv in sorted(ex.map(one, offs), key=lambda x: x[0]):
            out["accepted"] += tv["accepted"]
            out["states"] += tv["states"]
            out["generated"] += tv["generated"]
            out["wall_s"] += tv["wall_s"]
            out["cmd"] = tv["cmd"]
            for r in tv["rejected"]:
                r["index"] += off
                out["rejected"].append(r)
            for d in tv["drift"]:
                d["index"] += off
                out["drift"].append(d)
    return out


def case_key(case):
    return "%s:%s/%s:%s" % (case["k"], case["n"], case.get("ik", "none"), case.get("m", ""))


def report(chk, traces, tv):
    for rj in tv["rejected"]:
        tr = traces[rj["index"]]
        ev = tr["events"][rj["at"] - 2] if rj["at"] >= 2 else {}
        link = ""
        if ev.get("ev") == "follow":
            link = ev["req"]["line"].rstrip("\r\n")
        key = "%s|%s|%s|%s|%s" % (rj["clause"], tr["init"]["p"], tr["init"]["hl"], case_key(tr["init"]["c"]), link)
        if rj["clause"] in ("ClientMismatch", "NotCrawled", "unmatched", "stuck"):
            raise core.MachineryError("C05 crawler and Links!Follow/IsLocal disagree (%s) at %s event %d: %s"
                                      % (rj["clause"], tr["id"], rj["at"] - 1, json.dumps(ev)[:600]))
        chk.violation(key, rj["clause"], {"p": tr["init"]["p"], "hl": tr["init"]["hl"], "c": tr["init"]["c"],
                                          "hi_byte": tr.get("hi_byte", 0xFF), "link": link},
                      {"events": tr["events"][:rj["at"]], "concrete": tr["concrete"][:rj["at"]]})
    chk.note_drift(tv["drift"])


def main(chk, replay=None):
    from harness import c05_lib as L
    # the string operators of Links.tla recurse once per character; long abstract strings (deep selectors, long search
    # strings) need a deeper Java stack than TLC's worker threads get by default
    os.environ.setdefault("JAVA_TOOL_OPTIONS", "-Xss512m")
    t = TIERS[chk.tier]
    k = L.Consts(hi_byte=t["hi"][0])
    # 1. design model, exhaustive within bounds; the cases it explored
    res, cases, deviations, computed, scope = model_check(chk, t, k)
    if replay:
        with open(replay) as fp:
            rp = json.load(fp)
        if rp["case"].get("model"):
            return chk.finish({"states": res["distinct"], "transitions": res["generated"], "exhaustive": True,
                               "checker_cmd": res["cmd"]}, ["replay of a model-level violation = re-running the model"])
        cases = [rp["case"]["c"]]
        plans = [(rp["case"]["hl"], [rp["case"]["p"]], cases, rp["case"].get("hi_byte", 0xFF))]
    else:
        random.Random(chk.seed).shuffle(cases)
        plans = []
        for hi in t["hi"]:
            for hl in t["hls"]:
                sub = cases
                if hl == "full" and t["full_only_kinds"]:
                    # quick tier: the full list differs from the shipped one only through ZIP/PYG/exec/TAL/compressed
                    # files: run it on every archive tree and on the single-token plain files and mailboxes
                    sub = [c for c in cases if c["k"] in t["full_only_kinds"] or c["k"] == "deep"
                           or (c["k"] in ("file", "mbox") and c["n"] in t["tokens"] + t["shapes"])]
                if hi != t["hi"][0]:
                    sub = [c for c in sub if "^" in c["n"] or "^" in c.get("m", "")]
                plans.append((hl, t["views"], sub, hi))
    # 2. crawl the real server, 3. validate with TLC
    traces, timing = [], [{"model_s": res["wall_s"]}]
    for hl, views, sub, hi in plans:
        kk = L.Consts(hi_byte=hi)
        t1 = time.time()
        part = run_crawls(sub, t, kk, hl, views, scope)
        for tr in part:
            tr["hi_byte"] = hi
        t2 = time.time()
        tv = validate(part, kk)
        timing.append({"hl": hl, "hi": hi, "cases": len(sub), "traces": len(part), "crawl_s": round(t2 - t1, 1),
                       "validate_s": round(time.time() - t2, 1)})
        report(chk, part, tv)
        traces.append((part, tv))
    alltr = [tr for part, _ in traces for tr in part]
    follows = sum(1 for tr in alltr for e in tr["events"] if e["ev"] == "follow")
    rootfail = sum(1 for tr in alltr if tr["events"][0]["ev"] == "rootfail")
    nontrivial = len({tr["id"] for tr in alltr if sum(1 for e in tr["events"] if e["ev"] == "follow") >= 2})
    if not replay and (follows == 0 or nontrivial == 0):
        raise core.MachineryError("C05: no link was followed - crawler or lexers not effective")
    accepted = sum(tv["accepted"] for _, tv in traces)
    cov = {
        "states": res["distinct"], "transitions": res["generated"], "exhaustive": True,
        "traces_validated_against_impl": accepted, "traces_rejected": sum(len(tv["rejected"]) for _, tv in traces),
        "evaluations": len(alltr), "distinct_nontrivial": nontrivial,
        "rule": "evaluation = one crawl (tree x protocol view x handler list x representative of the non-UTF-8 class) "
                "from the root menu; non-trivial = crawl in which at least two local links were followed back into the "
                "server (the subject entry and one more); trees = every case of MC_C05 (%d)" % len(cases),
        "links_followed": follows, "crawls_without_root_listing": rootfail,
        "model_cases": len(cases), "model_case_view_list_combinations": computed,
        "model_named_deviations": deviations,
        "samples": [{"init": tr["init"], "events": tr["events"][:4]} for tr in alltr[:2]],
        "checker_cmd": res["cmd"] + " ; " + (traces[0][1]["cmd"] if traces else ""),
        "trace_states": sum(tv["states"] for _, tv in traces),
        "constants_bound": k.bound, "proto_order": k.proto_order,
        "bindings": ["B1 protocol order/waptop/query prefix from the tree", "B2 TLC-enumerated trees crawled",
                     "B3 TraceC05"],
        "timing": timing,
        "tier_parameters": {x: t[x] for x in ("tokens", "maxtok", "shapes", "inner", "kinds2", "deep", "views", "hls", "hi")},
    }
    return chk.finish(cov, [
        "alpha = response classifiers and listing lexers of harness/c05_lib.py; a response counts as success only "
        "if the wire format says so and no exception escaped the connection handler; for plain Gopher (no status line) "
        "additionally the server log must show that a handler accepted the request; 'answered' also means answered by "
        "the protocol class that was asked (class name in the server log line of the request)",
        "the per-protocol client (request syntax, reference resolution) is harness code, but every request is "
        "re-derived by TLC from Links!Follow and a deviation stops the check as a machinery failure",
        "names: tokens over byte classes; '^' is materialised as the byte(s) listed in tier_parameters.hi",
        "advertised kind: Gopher type 1 = menu, other types = document; HTTP: the icon of the Gopher type (folder.gif = menu); "
        "WAP/Gemini/Spartan listings do not advertise a kind (success only)",
    ])


def selftest():
    """Binding demonstration: a recorded crawl is accepted; corrupting one field / dropping one event is rejected."""
    from harness import c05_lib as L
    k = L.Consts()
    case = {"k": "dir", "n": "a b", "ik": "file", "m": "?"}
    tr = run_crawls([case], TIERS["quick"], k, "default", ["H"])[0]
    import copy
    bad1 = copy.deepcopy(tr)
    f = [e for e in bad1["events"] if e["ev"] == "follow"][0]
    f["cls"] = "notfound"
    bad2 = copy.deepcopy(tr)
    bad2["events"] = [e for i, e in enumerate(bad2["events"]) if not (e["ev"] == "follow" and e["i"] == 2)]
    bad3 = copy.deepcopy(tr)
    f = [e for e in bad3["events"] if e["ev"] == "follow"][0]
    f["req"]["line"] = f["req"]["line"].replace("%20", "%2520")
    tv = validate([tr, bad1, bad2, bad3], k)
    got = {r["index"]: r["clause"] for r in tv["rejected"]}
    print("selftest C05: accepted=%d rejected=%s" % (tv["accepted"], got))
    assert tv["accepted"] == 1 and got == {1: "Closure", 2: "NotCrawled", 3: "ClientMismatch"}, got
    return True
