"""The real server, driven in memory (gamma/alpha support; no property logic).

One World = one document root + one configuration + one reusable server object (bound to port 0
and closed).  request() pushes raw bytes through the REAL pygopherd.server.GopherRequestHandler and
returns the bytes written, the log lines and whatever escaped the connection handler."""
from __future__ import annotations

import configparser
import io
import os
import shutil
import socket
import ssl
import sys
import tempfile
import time

from harness import core, envsub

envsub.install()          # before pygopherd is imported

from pygopherd import GopherExceptions, initialization, logger  # noqa: E402
import pygopherd.server  # noqa: E402

core.assert_repo_bound()

DEFAULT_HANDLERS = None   # the shipped list, read from conf (B1)
FULL_HANDLERS = """[url.HTMLURLHandler, gophermap.BuckGophermapHandler,
            mbox.MaildirFolderHandler, mbox.MaildirMessageHandler,
            UMN.UMNDirHandler, tal.TALFileHandler, html.HTMLFileTitleHandler,
            mbox.MBoxMessageHandler, mbox.MBoxFolderHandler,
            pyg.PYGHandler, scriptexec.ExecHandler, ZIP.ZIPHandler,
            file.CompressedFileHandler, file.FileHandler, url.URLTypeRewriter]"""
CLIENT = ("10.77.77.77", 7777)


class _Capture(io.BytesIO):
    """wfile whose contents survive close(); optionally fails the k-th write."""

    def __init__(self, fail_at=None, fail_exc=None, during=None):
        super().__init__()
        self.final = None
        self.writes = 0
        self.during = during          # called inside every write(), before the written object is consumed
        self.fail_at = fail_at
        self.fail_exc = fail_exc
        self.failed = 0

    def write(self, b):
        self.writes += 1
        if self.fail_at is not None and self.writes >= self.fail_at:
            self.failed += 1
            raise self.fail_exc()
        if self.during is not None:
            d, self.during = self.during, None      # (not re-entered by what it does)
            try:
                d()
            finally:
                self.during = d
        return super().write(b)

    def close(self):
        if self.final is None:
            self.final = self.getvalue()
        super().close()

    def value(self):
        return self.final if self.final is not None else self.getvalue()


class MockRequest(socket.SocketType):
    def __init__(self, rfile, wfile):  # noqa: deliberately no super().__init__
        self.rfile = rfile
        self.wfile = wfile

    def makefile(self, mode, *_a, **_k):
        return self.rfile if mode[0] == "r" else self.wfile


class MockSSLRequest(MockRequest, ssl.SSLSocket):
    pass


class _Handler(pygopherd.server.GopherRequestHandler):
    rbufsize = -1
    wbufsize = -1

    def __init__(self, request, client_address, server):  # noqa: no auto-handle
        self.request = request
        self.client_address = client_address
        self.server = server
        self.setup()


class Result:
    __slots__ = ("out", "log", "escaped", "wall", "writes")

    def __init__(self, out, log, escaped, wall, writes):
        self.out, self.log, self.escaped, self.wall, self.writes = out, log, escaped, wall, writes

    def exc_classes(self):
        import re
        return [m.group(1) for l in self.log for m in [re.search(r"EXCEPTION (\w+)", l)] if m]


def reset_lazies():
    """Module-level lazily initialised tables (HandlerMultiplexer.handlers/rootpath, base.rootpath,
    gopherentry.mapping/eaexts, UMN.extstrip): cleared so that a new configuration takes effect."""
    import importlib
    for modname, attrs in (("pygopherd.handlers.HandlerMultiplexer", ("handlers", "rootpath")),
                           ("pygopherd.handlers.base", ("rootpath",)),
                           ("pygopherd.gopherentry", ("mapping", "eaexts")),
                           ("pygopherd.handlers.UMN", ("extstrip",))):
        try:
            mod = importlib.import_module(modname)
        except Exception:
            continue
        for a in attrs:
            if hasattr(mod, a):
                setattr(mod, a, None)


_MIME_DONE = False


class World:
    def __init__(self, root=None, handlers="default", overrides=None, keep_root=False):
        self.own_root = root is None
        base = os.environ.get("VERIF_SCRATCH")
        if not (base and os.path.isdir(base)):
            base = "/dev/shm" if os.path.isdir("/dev/shm") else None
        self.root = root or tempfile.mkdtemp(prefix="verif-root-", dir=base)
        self.keep_root = keep_root
        cp = configparser.ConfigParser()
        cp.read(os.path.join(core.REPO, "conf", "pygopherd.conf"))
        global DEFAULT_HANDLERS
        DEFAULT_HANDLERS = cp.get("handlers.HandlerMultiplexer", "handlers")
        s = "pygopherd"
        cp.set(s, "root", self.root)
        cp.set(s, "port", "0")
        cp.set(s, "servername", "localhost")
        cp.set(s, "servertype", "ThreadingTCPServer")
        cp.set(s, "mimetypes", os.path.join(core.REPO, "conf", "mime.types"))
        cp.set(s, "usechroot", "no")
        cp.set(s, "tracebacks", "no")
        cp.set("logger", "logmethod", "none")
        if handlers == "full":
            cp.set("handlers.HandlerMultiplexer", "handlers", FULL_HANDLERS)
            cp.set("handlers.ZIP.ZIPHandler", "enabled", "true")
            cp.set("handlers.file.CompressedFileHandler", "decompressors", "{'gzip': 'zcat'}")
        elif handlers != "default":
            cp.set("handlers.HandlerMultiplexer", "handlers", handlers)
        for (sec, opt), val in (overrides or {}).items():
            if val is None:
                cp.remove_option(sec, opt)
            else:
                if not cp.has_section(sec):
                    cp.add_section(sec)
                cp.set(sec, opt, val)
        self.config = cp
        global _MIME_DONE
        self.logbuf = []
        logger.log = self.logbuf.append
        GopherExceptions.init(False)
        if not _MIME_DONE:
            initialization.init_mimetypes(cp)
            _MIME_DONE = True
        reset_lazies()
        self.server = initialization.get_server(cp)
        self.server.server_close()
        self.server.server_port = 70 if not cp.has_option(s, "advertisedport") else self.server.server_port
        logger.log = self.logbuf.append

    def request(self, data: bytes, tls=False, fail_at=None, fail_exc=None, stderr_quiet=True, during=None) -> Result:
        logger.log = self.logbuf.append
        del self.logbuf[:]
        rfile = io.BytesIO(data)
        wfile = _Capture(fail_at, fail_exc, during)
        req = (MockSSLRequest if tls else MockRequest)(rfile, wfile)
        escaped = None
        t0 = time.perf_counter()
        saved = sys.stderr
        if stderr_quiet:
            sys.stderr = io.StringIO()
        try:
            h = _Handler(req, CLIENT, self.server)
            try:
                h.handle()
            except BaseException as e:  # escaped the connection handler
                escaped = type(e).__name__
            finally:
                try:
                    h.finish()
                except BaseException as e:
                    if escaped is None and fail_at is None:
                        escaped = "finish:" + type(e).__name__
        finally:
            sys.stderr = saved
        return Result(wfile.value(), list(self.logbuf), escaped, time.perf_counter() - t0, wfile.writes)

    # -- tree helpers -----------------------------------------------------------------------
    def path(self, rel: str) -> str:
        return os.path.join(self.root, rel.lstrip("/"))

    def write(self, rel, data=b"", mode=None, mtime=None):
        p = self.path(rel)
        os.makedirs(os.path.dirname(p), exist_ok=True)
        with envsub.REAL["open"](p, "wb") as fp:
            fp.write(data if isinstance(data, bytes) else data.encode("utf-8", "surrogateescape"))
        if mode is not None:
            os.chmod(p, mode)
        if mtime is not None:
            os.utime(p, (mtime, mtime))
        return p

    def mkdir(self, rel):
        os.makedirs(self.path(rel), exist_ok=True)

    def clear(self):
        for n in envsub.REAL["listdir"](self.root):
            p = os.path.join(self.root, n)
            if os.path.isdir(p) and not os.path.islink(p):
                shutil.rmtree(p, ignore_errors=True)
            else:
                os.unlink(p)

    def close(self):
        if self.own_root and not self.keep_root:
            shutil.rmtree(self.root, ignore_errors=True)
