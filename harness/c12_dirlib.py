"""Shared gamma/alpha for the directory-pipeline properties C12 and C07 (spec/Dir.tla).

gamma: abstract directory (TLC state `d`) -> a real tree (regular files, directories, dangling links,
FIFOs, sockets, odd names, link files, .cap files), an enumeration order for the substituted
os.listdir, per-child faults injected through the substituted os.stat / open.
alpha: response bytes of each protocol -> (status, [ {sel, title} ]); log -> which child an error names.
B1: the ignore patterns and the handler list are read from $VERIF_REPO/conf/pygopherd.conf and turned
into TLC constants (spec/MC_C07_data.tla is regenerated at every run).
NO property logic here: whether a listing is acceptable is decided by TLC (TraceC12 / TraceC07)."""
from __future__ import annotations

import configparser
import errno
import html
import itertools
import os
import re
import shutil
import socket
import stat as statmod
import urllib.parse

from harness import core

DIR_HANDLERS = "[url.HTMLURLHandler, dir.DirHandler, file.FileHandler]"
PROTOS = ["G", "GP+", "GP$", "H", "GEM", "SP", "WAP"]
DANGLING_TARGET = "/nonexistent-verif-target"
FILTER_EDGE = ["docs\\readme.txt", "trailing.", "odd'name", "sp ace.txt", "semi;colon.txt"]


class HangForever(BaseException):
    """Raised by the substituted open() where the real call would block for ever (a FIFO without a writer
    opened for reading): the environment substitute makes the hang observable and deterministic."""


# ---------------------------------------------------------------------------------------------------
# B1: constants from the tree under test
# ---------------------------------------------------------------------------------------------------
def read_conf():
    path = os.path.join(core.REPO, "conf", "pygopherd.conf")
    cp = configparser.ConfigParser()
    cp.read(path)
    shipped = cp.get("handlers.dir.DirHandler", "ignorepatt")
    handlers = cp.get("handlers.HandlerMultiplexer", "handlers")
    buck = None
    with open(path) as fp:
        for line in fp:
            m = re.match(r"#\s*ignorepatt\s*=\s*(\S+)\s*$", line)
            if m:
                buck = m.group(1)
    import ast
    eaexts = list(ast.literal_eval(cp.get("GopherEntry", "eaexts")).keys())
    return {"shipped": shipped, "buck": buck, "handlers": handlers, "eaexts": eaexts,
            "cachefile": cp.get("handlers.dir.DirHandler", "cachefile")}


def parse_pattern(text: str):
    """The regex subset of the shipped pattern: alternation of literals with `.`, `\\x`, trailing `$`.
    Anything else is outside the subset the model covers: machinery failure, never a verdict."""
    alts, cur, anyp, i, end = [], [], [], 0, False

    def flush():
        nonlocal cur, anyp, end
        if not cur:
            raise core.MachineryError("ignorepatt has an empty alternative (matches everything): %r" % text)
        alts.append({"lit": "".join(cur), "any": list(anyp), "end": end})
        cur, anyp, end = [], [], False

    while i < len(text):
        c = text[i]
        if end and c != "|":
            raise core.MachineryError("ignorepatt: `$` not at the end of an alternative: %r" % text)
        if c == "\\":
            if i + 1 >= len(text) or text[i + 1].isalnum():
                raise core.MachineryError("ignorepatt: escape outside the modelled subset at %d: %r" % (i, text))
            cur.append(text[i + 1])
            i += 2
            continue
        if c == "|":
            flush()
        elif c == ".":
            cur.append(".")
            anyp.append(len(cur))
        elif c == "$":
            end = True
        elif c in "^*+?()[]{}":
            raise core.MachineryError("ignorepatt: metacharacter %r outside the modelled subset: %r" % (c, text))
        else:
            cur.append(c)
        i += 1
    flush()
    return alts


def probe_names(patterns: dict):
    """Names on both sides of every alternative: literal, literal+suffix, prefix+literal, one near miss per
    unescaped `.` (any character) and per escaped `.`; directory variants for whole-name alternatives."""
    out = {}

    def add(name, kind="file", core_=False):
        if name and name not in (".", "..") and "/" not in name and "\n" not in name:
            out[(name, kind)] = out.get((name, kind), False) or core_

    for alts in patterns.values():
        for a in alts:
            lit = a["lit"]
            slash = lit.startswith("/")
            base = lit[1:] if slash else lit
            off = 1 if slash else 0
            if not base:
                continue
            pre = "" if slash else "x"
            add(pre + base, core_=True)
            if not slash:
                add(base)
            add(pre + base + "x")
            add("x" + base)
            if slash and a["end"]:
                add(base, "dir")
            for pos in a["any"]:
                q = pos - 1 - off
                if q >= 0:
                    add(pre + base[:q] + ("x" if q == 0 and not pre else "-") + base[q + 1:], core_=True)
            for q, ch in enumerate(base):
                if ch == "." and (q + 1 + off) not in a["any"]:
                    add(pre + base[:q] + ("x" if q == 0 and not pre else "-") + base[q + 1:], core_=True)
    # names at the edge of the selector security filter that the filter ACCEPTS (visible, listable, retrievable):
    # one backslash, a trailing dot, a quote, a space, a single dot before a backslash-free odd character
    for name in FILTER_EDGE:
        add(name, core_=True)
    return sorted((n, k, c) for (n, k), c in out.items())


def tla_str(s: str) -> str:
    return '"' + s.replace("\\", "\\\\").replace('"', '\\"') + '"'


def data_module(conf=None) -> str:
    conf = conf or read_conf()
    pats = {"shipped": parse_pattern(conf["shipped"])}
    if conf.get("buck"):
        pats["buck"] = parse_pattern(conf["buck"])
    hl = conf["handlers"]
    first_dir = min((hl.find(x), x) for x in ("UMN.UMNDirHandler", "dir.DirHandler") if hl.find(x) >= 0)[1]
    lists = {"default": {"handler": "umn" if first_dir.startswith("UMN") else "dir",
                         "mbox": "mbox.MBoxFolderHandler" in hl, "html": "html.HTMLFileTitleHandler" in hl,
                         "buck": "gophermap.BuckGophermapHandler" in hl},
             "dir": {"handler": "dir", "mbox": False, "html": False, "buck": False}}

    def alt(a):
        return "[lit |-> %s, any |-> {%s}, end |-> %s]" % (tla_str(a["lit"]), ", ".join(str(x) for x in a["any"]),
                                                            "TRUE" if a["end"] else "FALSE")

    def b(x):
        return "TRUE" if x else "FALSE"

    lines = ["---------------------------- MODULE MC_C07_data ----------------------------",
             "(* GENERATED by harness/c12_dirlib.py from %s/conf/pygopherd.conf (binding B1) *)" % "$VERIF_REPO",
             "DataIgnorePatterns == ["]
    lines.append(",\n".join("  %s |-> <<\n    %s\n  >>" % (k, ",\n    ".join(alt(a) for a in v)) for k, v in pats.items()))
    lines.append("]")
    lines.append("DataLists == [")
    lines.append(",\n".join("  %s |-> [handler |-> %s, mbox |-> %s, html |-> %s, buck |-> %s]"
                            % (k, tla_str(v["handler"]), b(v["mbox"]), b(v["html"]), b(v["buck"])) for k, v in lists.items()))
    lines.append("]")
    lines.append("DataEaExts == <<%s>>" % ", ".join(tla_str(x) for x in conf["eaexts"]))
    lines.append("DataProbes == {")
    lines.append(",\n".join("  [name |-> %s, kind |-> %s, core |-> %s]" % (tla_str(n), tla_str(k), b(c)) for n, k, c in probe_names(pats)))
    lines.append("}")
    lines.append("=============================================================================")
    return "\n".join(lines) + "\n", pats, lists


# ---------------------------------------------------------------------------------------------------
# TLC state -> JSON-able case
# ---------------------------------------------------------------------------------------------------
def _rec(t):
    return dict(t) if isinstance(t, tuple) else dict(t)


def thaw_dir(d: dict) -> dict:
    """`d` as parsed by tlaparse (kids: frozenset of frozen records) -> plain dict, kids sorted by name."""
    kids = []
    for fk in d["kids"]:
        k = _rec(fk)
        k["blocks"] = [_rec(b) for b in k.get("blocks", ())]
        kids.append(k)
    kids.sort(key=lambda k: k["name"])
    sn = d["sniff"]
    return {"sb": d["sb"], "handler": d["handler"], "ign": d["ign"],
            "sniff": {"mbox": bool(sn["mbox"]), "html": bool(sn["html"])}, "kids": kids}


def kids_compact(case) -> str:
    def one(k):
        extra = [k["kind"]] + ([k["fault"] + (":" + k["errno"] if k.get("errno") else "")] if k["fault"] != "none" else []) + (["capx"] if k["capx"] else [])
        if k["blocks"]:
            extra.append("blocks=" + ";".join(
                "%s%s>%s%s%s%s" % ("./" if b["merge"] else "", b["tgt"], b["title"], "#%d" % b["num"] if b["num"] else "",
                                    "!X" if b["x"] else "", "@" + b["host"] if b["host"] else "") for b in k["blocks"]))
        return "%s(%s)" % (k["name"], ",".join(extra))
    return " ".join(one(k) for k in case["kids"])


BAD = [("./", "dotslash"), ("..", "dotdot"), ("//", "slashslash"), (".\\", "dotbs"), ("\\\\", "bsbs")]


def kid_label(case, name) -> str:
    """A stable label of the class of a child (used only in violation keys / known-finding matchers)."""
    k = next((x for x in case["kids"] if x["name"] == name), None)
    if k is None:
        return "unknown"
    shape = "html" if k["kind"] == "file" and name.endswith((".html", ".htm")) else k["kind"]
    dot = "dot-" if name.startswith(".") else ""
    if any(name != o["name"] and name.startswith(o["name"]) and name[len(o["name"]):].startswith(".") and "." not in name[len(o["name"]) + 1:]
           and o["kind"] == "file" for o in case["kids"]) and k["kind"] != "file":
        dot = "sidecar-"
    if k["kind"] in ("dangling", "loop", "thrufile", "fifo", "socket"):
        return dot + k["kind"]
    if k["fault"] != "none":
        return "%s%s%s:%s" % (dot, k["fault"], "-" + k["errno"] if k.get("errno") else "", shape)
    for sub, lab in BAD:
        if sub in name:
            return "name-%s:%s" % (lab, shape)
    for sub, lab in BAD:
        if sub in case["sb"] + "/" + name:
            return "path-%s:%s" % (lab, shape)
    return "%shealthy:%s%s" % (dot, shape, "-backslash" if "\\" in name else "")


# ---------------------------------------------------------------------------------------------------
# the real server on a real tree
# ---------------------------------------------------------------------------------------------------
ROOT_BASE = None      # per-run scratch directory (set by the parent before the pool forks; removed by the parent)


def new_root_base():
    global ROOT_BASE
    from harness import tlc
    ROOT_BASE = tlc.new_scratch("dirroots")
    return ROOT_BASE


def drop_root_base():
    global ROOT_BASE
    if ROOT_BASE:
        shutil.rmtree(ROOT_BASE, ignore_errors=True)
    ROOT_BASE = None


class DirWorld:
    def __init__(self, lst: str, ignorepatt: str):
        import tempfile
        from harness import envsub
        from harness.world import World
        self.envsub = envsub
        self.lst = lst
        root = tempfile.mkdtemp(prefix="r-", dir=ROOT_BASE) if ROOT_BASE else None
        self.w = World(root=root, handlers="default" if lst == "default" else DIR_HANDLERS,
                       overrides={("handlers.dir.DirHandler", "cachetime"): "0",
                                  ("handlers.dir.DirHandler", "ignorepatt"): ignorepatt.replace("%", "%%")})
        self.cachefile = self.w.config.get("handlers.dir.DirHandler", "cachefile")
        self.footers = [self.w.config.get(s, "footer") for s in ("protocols.gemini.GeminiProtocol", "protocols.gemini.SpartanProtocol")
                        if self.w.config.has_option(s, "footer")]
        self.waptop = self.w.config.get("protocols.wap.WAPProtocol", "waptop")
        self.case = None
        self.active = False
        self.kidpath = {}
        self.dirfs = self.w.root
        self.dirty = False
        envsub.ENV.listdir_order = self._on_listdir
        envsub.ENV.stat_fault = self._on_stat
        envsub.ENV.open_hook = self._on_open

    # ---- gamma: the tree --------------------------------------------------------------------------
    def build(self, case):
        self.case = case
        self.w.clear()
        self.dirfs = self.w.root + case["sb"]
        os.makedirs(self.dirfs, exist_ok=True)
        self.kidpath = {self.dirfs + "/" + k["name"]: k for k in case["kids"]}
        if any(k["capx"] for k in case["kids"]) and not any(k["name"] == ".cap" and k["kind"] == "dir" for k in case["kids"]):
            raise core.MachineryError("case hides an entry through .cap but has no .cap directory: %r" % (case,))
        for k in case["kids"]:
            self._make(k)
        self.dirty = False

    def _make(self, k):
        p = self.dirfs + "/" + k["name"]
        ropen = self.envsub.REAL["open"]
        if k["kind"] == "file":
            if k["blocks"]:
                data = link_text(k["blocks"])
            elif k["name"].startswith("."):
                data = b"# a comment, no link blocks\n"
            elif k["name"].endswith((".html", ".htm")):
                data = b"<html><body>no title element</body></html>\n"
            else:
                data = file_content(k["name"])
            with ropen(p, "wb") as fp:
                fp.write(data)
        elif k["kind"] in ("dir", "dirabs"):
            os.makedirs(p, exist_ok=True)
            with ropen(p + "/inner.txt", "wb") as fp:
                fp.write(b"inner\n")
            if k["kind"] == "dirabs":
                os.makedirs(p + "/.abstract", exist_ok=True)        # a DIRECTORY where the side-car of the directory would be
        elif k["kind"] == "dangling":
            os.symlink(DANGLING_TARGET, p)
        elif k["kind"] == "loop":
            os.symlink(k["name"], p)                                # points at itself: stat -> ELOOP
        elif k["kind"] == "thrufile":
            aux = self.w.root.rstrip("/") + ".aux"                  # a regular file OUTSIDE the document root
            if not os.path.lexists(aux):
                with ropen(aux, "wb") as fp:
                    fp.write(b"aux\n")
            os.symlink(aux + "/x", p)                               # through a regular file: stat -> ENOTDIR
        elif k["kind"] == "fifo":
            os.mkfifo(p)
        elif k["kind"] == "socket":
            s = socket.socket(socket.AF_UNIX)
            try:
                s.bind(p)
            finally:
                s.close()
        else:
            raise core.MachineryError("unknown kid kind %r" % (k,))
        if k["capx"]:
            with ropen(self.dirfs + "/.cap/" + k["name"], "wb") as fp:
                fp.write(b"Type=X\n")

    def _remove(self, p):
        was = self.active
        self.active = False
        try:
            st = self.envsub.REAL["lstat"](p)
            if statmod.S_ISDIR(st.st_mode):
                shutil.rmtree(p)
            else:
                os.unlink(p)
        except FileNotFoundError:
            pass
        finally:
            self.active = was
        self.dirty = True

    # ---- substitutes ------------------------------------------------------------------------------
    def _on_listdir(self, path, names):
        if not self.active or path.rstrip("/") != self.dirfs.rstrip("/"):
            return names
        order = [n for n in self.order if n in names] + sorted(n for n in names if n not in self.order)
        self.enum.append(list(order))
        # what was touched before the enumeration (the directory's own entry: sidecar look-ups such as
        # <dir>/.abstract) is not part of the pipeline the model describes
        self.pre, self.touches = self.pre + self.touches, []
        return order

    def _touch(self, path, op):
        if op == "open":
            # opening a FIFO nobody writes to blocks for ever, whoever asks and whenever: always made observable
            try:
                if statmod.S_ISFIFO(self.envsub.REAL["lstat"](path).st_mode):
                    self.hung = os.path.basename(path)
                    if self.active:
                        k = self.kidpath.get(path)
                        if k is not None:
                            self.fired.append([k["name"], "fifo", 0])
                            self.touches.append([k["name"], op, "blocks"])
                    return HangForever(self.hung)
            except OSError:
                pass
        if not self.active:
            return None
        k = self.kidpath.get(path)
        if k is None:
            # secondary probes of paths UNDER a child (child/gophermap, child/new, child/cur ...)
            for kp, kk in self.kidpath.items():
                if kk["fault"] == "esub" and path.startswith(kp + "/"):
                    self.fired.append([kk["name"], "esub", 0])
                    return OSError(getattr(errno, kk.get("errno") or "EACCES"), "injected", path)
            return None
        n = k["name"]
        c = self.count[n] = self.count.get(n, 0) + 1
        inj = ""
        f = k["fault"]
        en = getattr(errno, k.get("errno") or "EACCES")
        if (f == "vanish1" and c == 1) or (f == "vanish2" and c == 2):
            self._remove(path)
            inj = "vanish"
        ex = None
        if f == "estat" and op in ("stat", "lstat"):
            ex = OSError(en, os.strerror(en) + " (injected)", path)
            inj = errno.errorcode[en]
        if f == "eopen" and op == "open":
            ex = OSError(en, os.strerror(en) + " (injected)", path)
            inj = errno.errorcode[en]
        if inj:
            self.fired.append([n, f, c])
        self.touches.append([n, op, inj])
        return ex

    def _on_stat(self, path, follow):
        return self._touch(path, "stat" if follow else "lstat")

    def _on_open(self, path, mode):
        return self._touch(path, "open")

    # ---- one listing request + alpha ----------------------------------------------------------------
    def listing(self, proto, order, sel=None):
        case = self.case
        if self.dirty:
            self.build(case)
        try:
            os.unlink(self.dirfs + "/" + self.cachefile)
        except OSError:
            pass
        sel = sel or (case["sb"] or "/")
        data, tls = request_bytes(proto, sel, self.waptop)
        self.order, self.enum, self.touches, self.count, self.fired, self.hung, self.pre = list(order), [], [], {}, [], None, []
        self.active = True
        try:
            r = self.w.request(data, tls=tls)
        finally:
            self.active = False
        status, items = lex(proto, r.out, self.footers, self.waptop)
        if r.escaped is not None:
            status = "hang" if r.escaped == "HangForever" else "none"
            items = []
        culprit, cause = blame(r, case, self.hung)
        events = []
        for e in self.enum:
            events.append({"ev": "enum", "order": e})
        events.append({"ev": "touches", "names": collapse([t[0] for t in self.touches])})
        # control (observation on the implementation itself, never the text of the message): when the listing was NOT
        # answered, is the directory's own selector refused independently of its children?  The same directory with
        # every child removed is requested again through the same protocol form.
        selfref = False
        if status != "ok":
            selfref = self.control_bare(proto, sel)
        events.append({"ev": "response", "status": status, "listing": items, "culprit": culprit, "dirrefused": bool(selfref)})
        extra = {"raw": r.out[:500].decode("latin-1"), "log": r.log[-3:], "escaped": r.escaped, "touches": list(self.touches), "pre_touches": list(self.pre),
                 "fired": list(self.fired), "cause": cause, "culprit_label": kid_label(case, culprit) if culprit else ""}
        return events, extra

    def control_bare(self, proto, sel) -> bool:
        """True iff the directory, emptied of all its children, is still not answered with a success listing."""
        self.active = False
        for n in self.envsub.REAL["listdir"](self.dirfs):
            self._remove(self.dirfs + "/" + n)
        self.dirty = True
        data, tls = request_bytes(proto, sel, self.waptop)
        r = self.w.request(data, tls=tls)
        st, _items = lex(proto, r.out, self.footers, self.waptop)
        return r.escaped is not None or st != "ok"

    def probe_omitted(self, proto, items):
        """C12: every child WITHOUT an injected fault or special kind whose selector is not in the lexed listing is
        requested by its exact selector through the same protocol form (same World).  Whether an omission matters
        is decided by TLC (TraceC12); this only observes: served | refused | none."""
        listed = {x["sel"] for x in items}
        events, extras = [], []
        for k in self.case["kids"]:
            sel = self.case["sb"] + "/" + k["name"]
            if sel in listed or k["kind"] not in ("file", "dir", "dirabs") or k["fault"] != "none":
                continue
            data, tls = request_bytes(proto, sel, self.waptop)
            self.active = False
            r = self.w.request(data, tls=tls)
            got = "none" if r.escaped is not None or not r.out else ("refused" if is_refusal(proto, r.out) else "served")
            events.append({"ev": "fetch", "name": k["name"], "got": got})
            extras.append({"fetch": k["name"], "raw": r.out[:160].decode("latin-1"), "log": r.log[-2:]})
        return events, extras

    def fetch(self, name):
        """Exact-selector request for one child (Gopher): what came back, abstractly."""
        if self.dirty:                      # a control request emptied the directory: put the children back
            self.build(self.case)
        k = next(x for x in self.case["kids"] if x["name"] == name)
        sel = self.case["sb"] + "/" + name
        self.active = False
        # gamma: the request form must be able to CARRY the exact selector.  pygopherd strips every TAB-separated field
        # of a Gopher request line, so a selector with a leading / trailing blank cannot be expressed in Gopher at all
        # (`/d/note ` arrives as `/d/note`); such a child is requested through HTTP with the selector percent-encoded.
        via = "H" if name != name.strip() else "G"
        if via == "H":
            data, _tls = request_bytes("H", sel, self.waptop)
            r = self.w.request(data)
            head, sep, body = r.out.partition(b"\r\n\r\n")
            if r.escaped is not None:
                got = "none"
            elif k["kind"] == "file" and head.startswith(b"HTTP/1.0 200 OK") and sep and body == self._content(k):
                got = "content"
            elif is_refusal("H", r.out):
                got = "error"
            else:
                st, _i = lex("H", r.out, self.footers, self.waptop)
                got = "menu" if st == "ok" else "other"
            return {"ev": "fetch", "name": name, "got": got, "via": via}, {"raw": r.out[:200].decode("latin-1"), "log": r.log[-2:]}
        r = self.w.request(sel.encode("utf-8", "surrogateescape") + b"\r\n")
        if r.escaped is not None:
            got = "none"
        elif k["kind"] == "file" and r.out == self._content(k):
            got = "content"
        else:
            status, items = lex("G", r.out, self.footers, self.waptop)
            got = "menu" if status == "ok" and (r.out or k["kind"] in ("dir", "dirabs")) else ("error" if status in ("notfound", "error") else "other")
        return {"ev": "fetch", "name": name, "got": got}, {"raw": r.out[:200].decode("latin-1"), "log": r.log[-2:]}

    def _content(self, k):
        with self.envsub.REAL["open"](self.dirfs + "/" + k["name"], "rb") as fp:
            return fp.read()

    def close(self):
        self.envsub.ENV.reset()
        self.w.close()


def file_content(name: str) -> bytes:
    return b"content of " + name.encode("utf-8", "surrogateescape") + b"\n"


def link_text(blocks) -> bytes:
    out = []
    for b in blocks:
        lines = []
        if b["title"]:
            lines.append("Name=" + b["title"])
        if b["x"]:
            lines.append("Type=X")
        elif not b["merge"]:
            lines.append("Type=1")
        lines.append("Path=" + ("./" + b["tgt"] if b["merge"] else b["tgt"]))
        if b["host"]:
            lines.append("Host=" + b["host"])
            lines.append("Port=70")
        if b["num"]:
            lines.append("Numb=%d" % b["num"])
        out.append("\n".join(lines) + "\n")
    return "\n".join(out).encode()


def collapse(names):
    """Order in which the children were FIRST inspected."""
    out = []
    for n in names:
        if n not in out:
            out.append(n)
    return out


def request_bytes(proto, sel, waptop="/wap"):
    q = urllib.parse.quote(sel.encode("utf-8", "surrogateescape"))
    s = sel.encode("utf-8", "surrogateescape")
    if proto == "G":
        return s + b"\r\n", False
    if proto == "GP+":
        return s + b"\t+\r\n", False
    if proto == "GP$":
        return s + b"\t$\r\n", False
    if proto == "H":
        return b"GET " + q.encode() + b" HTTP/1.0\r\n\r\n", False
    if proto == "GEM":
        return b"gemini://localhost" + q.encode() + b"\r\n", True
    if proto == "SP":
        return b"localhost " + q.encode() + b" 0\r\n", False
    if proto == "WAP":
        return b"GET " + waptop.encode() + q.encode() + b" HTTP/1.0\r\n\r\n", False
    raise core.MachineryError("unknown protocol form %r" % proto)


# ---- lexers (alpha) -----------------------------------------------------------------------------------
_HROW = re.compile(r'<TR><TD>.*?</TD>\s*<TD>&nbsp;(?:<A HREF="([^"]*)">)?<TT>(.*?)</TT>', re.S)
_WROW = re.compile(r'<a (?:accesskey="[^"]*" )?href="([^"]*)">(.*?)</a><br/>', re.S)


def _errkind(text):
    return "notfound" if "does not exist" in text else "error"


def _menu(lines):
    items = []
    for line in lines:
        f = line.split("\t")
        if len(f) not in (4, 5) or not f[0]:
            return "none", []
        typ = f[0][0]
        if typ == "3":
            return _errkind(line), []
        if typ == "i":
            continue
        items.append({"sel": f[1], "title": f[0][1:]})
    return "ok", items


def _unq(u):
    return urllib.parse.unquote(u, errors="surrogateescape")


def lex(proto, out: bytes, footers=(), waptop="/wap"):
    """-> (status, items): status ok | notfound | error | none (no well-formed reply)."""
    try:
        text = out.decode("utf-8", "surrogateescape")
    except Exception:
        return "none", []
    if proto in ("G", "GP+", "GP$"):
        if proto != "G":
            head, sep, text = text.partition("\r\n")
            if not sep:
                return "none", []
            if head.startswith("--"):
                return _errkind(text), []
            if not re.fullmatch(r"\+(-\d+|\d+)", head):
                return "none", []
        if text == "":
            return "ok", []          # an empty menu (the caller separately knows whether anything escaped)
        if not text.endswith("\r\n"):
            return "none", []
        lines = text[:-2].split("\r\n")
        if proto == "GP$":
            lines = [ln[len("+INFO: "):] for ln in lines if ln.startswith("+INFO: ")]
        return _menu(lines)
    if proto == "H":
        if text.startswith("HTTP/1.0 404"):
            return _errkind(text), []
        head, sep, body = text.partition("\r\n\r\n")
        if not text.startswith("HTTP/1.0 200 OK\r\n") or not sep or "</HTML>" not in body:
            return "none", []
        items = []
        for m in _HROW.finditer(body):
            if m.group(1) is None:
                continue
            href = m.group(1)
            items.append({"sel": _unq(href) if href.startswith("/") else href, "title": html.unescape(m.group(2))})
        return "ok", items
    if proto in ("GEM", "SP"):
        head, sep, body = text.partition("\r\n")
        if not sep:
            return "none", []
        okhead, nf = ("20 text/gemini", "51 ") if proto == "GEM" else ("2 text/gemini", "4 ")
        if head != okhead:
            if re.match(r"\d+ ", head):
                return _errkind(head), []
            return "none", []
        for ft in footers:
            tail = "\n" + ft + "\n"
            if body.endswith(tail):
                body = body[:-len(tail)]
                break
        items = []
        for ln in body.split("\n"):
            if ln.startswith("=> ") or ln.startswith("=: "):
                parts = ln.split(" ", 2)
                url = parts[1]
                items.append({"sel": _unq(url) if url.startswith("/") else url, "title": parts[2] if len(parts) > 2 else ""})
        return "ok", items
    if proto == "WAP":
        if text.startswith("HTTP/1.0 200 Not Found"):
            return _errkind(text), []
        head, sep, body = text.partition("\r\n\r\n")
        if not text.startswith("HTTP/1.0 200 OK\r\n") or not sep or "</wml>" not in body:
            return "none", []
        items = []
        for m in _WROW.finditer(body):
            href = m.group(1)
            if href.startswith(waptop + "/"):
                href = href[len(waptop):]
            items.append({"sel": _unq(href) if href.startswith("/") else href, "title": html.unescape(m.group(2))})
        return "ok", items
    raise core.MachineryError("unknown protocol form %r" % proto)


def is_refusal(proto, out: bytes) -> bool:
    """Is this reply the protocol's error reply (filenotfound() of the protocol class)?"""
    text = out.decode("utf-8", "surrogateescape")
    if proto == "G":
        return text.startswith("3") and "\terror.host\t1" in text
    if proto in ("GP+", "GP$"):
        return text.startswith("--")
    if proto == "H":
        return text.startswith("HTTP/1.0 404")
    if proto == "GEM":
        return not text.startswith("20 ")
    if proto == "SP":
        return not text.startswith("2 ")
    if proto == "WAP":
        return text.startswith("HTTP/1.0 200 Not Found") or not text.startswith("HTTP/1.0 200")
    raise core.MachineryError("unknown protocol form %r" % proto)


_EXC = re.compile(r"EXCEPTION (\w+): (.*)$", re.S)


def blame(r, case, hung):
    """Which child does the error reply / log name, and which exception class was it (alpha; used for keys)."""
    if hung:
        return hung, "hang:open blocks"
    for line in r.log:
        m = _EXC.search(line)
        if not m:
            continue
        cls, msg = m.group(1), m.group(2)
        name = ""
        q = re.search(r"'(.*)' does not exist \((.*)\)", msg, re.S)
        if q:
            sel = q.group(1)
            pre = case["sb"] + "/"
            name = sel[len(pre):] if sel.startswith(pre) else ""
            return name, "%s:%s" % (cls, q.group(2))
        for k in case["kids"]:
            if ("/" + k["name"] + "'") in msg or msg.endswith("/" + k["name"]):
                name = k["name"]
        en = re.search(r"\[Errno (\d+)\]", msg)
        return name, "%s:%s" % (cls, errno.errorcode.get(int(en.group(1)), en.group(1)) if en else "")
    if r.escaped:
        return "", "escaped:" + r.escaped
    return "", ""


# ---------------------------------------------------------------------------------------------------
def _call(a):
    fn, item = a
    try:
        return ("ok", fn(item))
    except BaseException:           # a dying worker would hang the pool: report instead
        import traceback
        return ("err", traceback.format_exc()[-3000:])


def pool_map(fn, items, init_fn, procs=None, timeout=3000):
    import multiprocessing as mp
    procs = procs or int(os.environ.get("VERIF_PROCS") or 16)
    if len(items) <= 2:
        init_fn()
        res = [_call((fn, x)) for x in items]
    else:
        ctx = mp.get_context("fork")
        with ctx.Pool(procs, initializer=init_fn) as pool:
            try:
                res = pool.map_async(_call, [(fn, x) for x in items],
                                     chunksize=max(1, len(items) // (procs * 8) or 1)).get(timeout=timeout)
            except mp.TimeoutError:
                pool.terminate()
                raise core.MachineryError("worker pool timed out after %ds" % timeout)
    bad = [r[1] for r in res if r[0] != "ok"]
    if bad:
        raise core.MachineryError("worker failed:\n" + bad[0])
    return [r[1] for r in res]


def validate_parallel(module, cfg, traces, extra_files=None, jobs=None, chunk=3000, timeout=3000):
    """tlc.validate_traces over slices of the trace list, several TLC processes at a time (each validates its
    slice exactly as one sequential call would); results merged with global indices."""
    from concurrent.futures import ThreadPoolExecutor
    from harness import tlc
    jobs = jobs or max(1, min(4, int(os.environ.get("VERIF_PROCS") or 16) // 2))
    saved = os.environ.get("VERIF_TLC_XMX")
    os.environ["VERIF_TLC_XMX"] = os.environ.get("VERIF_TRACE_XMX", "3g")     # trace validation needs little heap
    slices = [(off, traces[off:off + chunk]) for off in range(0, len(traces), chunk)] or [(0, [])]

    def one(sl):
        off, part = sl
        try:
            tv = tlc.validate_traces(module, cfg, part, extra_files=extra_files, chunk=chunk, timeout=timeout)
        except tlc.TLCError:
            # several JVMs at once on a loaded box: a JVM that could not start is a machinery hiccup, retried once
            import time
            time.sleep(5)
            tv = tlc.validate_traces(module, cfg, part, extra_files=extra_files, chunk=chunk, timeout=timeout)
        for r in tv["rejected"]:
            r["index"] += off
        for dr in tv["drift"]:
            dr["index"] += off
        return tv

    try:
        with ThreadPoolExecutor(jobs) as ex:
            parts = list(ex.map(one, slices))
    finally:
        if saved is None:
            os.environ.pop("VERIF_TLC_XMX", None)
        else:
            os.environ["VERIF_TLC_XMX"] = saved
    out = {"accepted": 0, "rejected": [], "drift": [], "states": 0, "generated": 0, "wall_s": 0.0, "cmd": ""}
    for tv in parts:
        out["accepted"] += tv["accepted"]
        out["rejected"] += tv["rejected"]
        out["drift"] += tv["drift"]
        out["states"] += tv["states"]
        out["generated"] += tv["generated"]
        out["wall_s"] += tv["wall_s"]
        out["cmd"] = tv["cmd"] or out["cmd"]
    out["rejected"].sort(key=lambda r: r["index"])
    return out


def permutations(names):
    return [list(p) for p in itertools.permutations(sorted(names))]
