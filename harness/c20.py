"""C20 - a failing client connection is contained in its own handler.

Design model: spec/Server.tla (write path: WriteOk / WriteFail, CatchInProtocol, CatchInServer, Escape,
descriptors as state) bounded by spec/MC_C20.tla.  B1: for every response kind x protocol the number of
write() calls of a fault-free run on the REAL server is measured first and handed to TLC as part of the
case constants.  B2: TLC enumerates (case, failing write index k in 1..nw, error class); every closed
state is replayed: the k-th and every later write() to the client raises that class.  Observed: what
left handle(), the EXCEPTION log records and their position relative to the failure, descriptors open
before/after (/proc/self/fd after gc.collect()).  B3: spec/trace/TraceC20.tla judges every replay with
Server!C20Verdict (Contained, OwnClass, FilesClosed).  Thorough tier adds real loopback sockets that the
client resets mid-transfer.  No property logic here."""
from __future__ import annotations

import errno
import json
import os
import socket
import sys

from harness import core, tlc
from harness import c03
from harness.tlaparse import iter_dump_states

CLASSES = {
    "BrokenPipeError": lambda: BrokenPipeError(errno.EPIPE, "Broken pipe"),
    "ConnectionResetError": lambda: ConnectionResetError(errno.ECONNRESET, "Connection reset by peer"),
    "TimeoutError": lambda: socket.timeout("timed out"),            # one argument, errno None
}

# response kind -> (selector text, handler list it needs)
RELAY = ["gem", "tg", "th_get", "tgp_plus"]
KINDS = {
    "document": ("/big.txt", None), "menu": ("/d", None), "error page": ("/nofile", None),
    "mailbox message": ("/m.mbox|/MBOX-MESSAGE/1", None), "maildir message": ("/md|/MAILDIR-MESSAGE/2", None),
    "html document": ("/page.html", None), "gophermap menu": ("/gm", None), "mailbox menu": ("/m.mbox", None),
    "ZIP member": ("/z.zip/sub/inner.txt", "full"), "ZIP menu": ("/z.zip", "full"), "PYG document": ("/p.pyg", "full"),
    "URL page": ("/URL:http://x.org/", None), "root menu": ("/", None),
    # large decompressed documents over the RELAY branch of CompressedFileHandler (TLS: the stream is no plain
    # descriptor): decompressed sizes on both sides of the copy buffer (64 KiB) and of copy buffer + pipe (128 KiB);
    # third element = the frames this kind is requested through (relay needs TLS)
    "decompressed 60K (relay)": ("/gz/k60.txt.gz", "full", RELAY), "decompressed 70K (relay)": ("/gz/k70.txt.gz", "full", RELAY),
    "decompressed 130K (relay)": ("/gz/k130.txt.gz", "full", RELAY), "decompressed 200K (relay)": ("/gz/k200.txt.gz", "full", RELAY),
}
# protocol frame -> (line template, tls, tail)       (frames as in spec/MC_C03.tla LineOf)
FRAMES = {
    "g": ("%s\r\n", False, "none"), "gp_plus": ("%s\t+\r\n", False, "none"), "gp_info": ("%s\t!\r\n", False, "none"),
    "gp_dir": ("%s\t$\r\n", False, "none"), "h_get": ("GET %s HTTP/1.0\r\n", False, "blank"),
    "h_head": ("HEAD %s HTTP/1.0\r\n", False, "blank"), "w_get": ("GET /wap%s HTTP/1.0\r\n", False, "blank"),
    "gem": ("gemini://localhost%s\r\n", True, "none"), "s": ("localhost %s 0\r\n", False, "none"),
    "tg": ("%s\r\n", True, "none"), "th_get": ("GET %s HTTP/1.0\r\n", True, "blank"),
    "tgp_plus": ("%s\t+\r\n", True, "none"),
}
TIERS = {
    "quick": dict(frames=["g", "gp_plus", "h_get", "w_get", "gem", "s"],
                  kinds=["document", "menu", "error page", "mailbox message", "ZIP member", "html document",
                         "decompressed 70K (relay)", "decompressed 200K (relay)"], relay=["gem", "tg"],
                  info=["document", "mailbox message"], hls=["default", "full"], sockets=0),
    "thorough": dict(frames=["g", "gp_plus", "gp_dir", "h_get", "h_head", "w_get", "gem", "s", "tg", "th_get", "tgp_plus"],
                     kinds=list(KINDS), relay=RELAY, info=["document", "menu", "mailbox message", "ZIP member", "error page"],
                     hls=["default", "full"], sockets=12),
}
MC_CFG = """SPECIFICATION C20Spec
CONSTANTS
  ProtoOrder <- C_ProtoOrder
  HandlerLists <- C_HandlerLists
  Tree0 <- C_Tree
  MailCount <- C_MailCount
  Defects <- C_Defects
  Bytecode <- C_Bytecode
  Buffered <- C_Buffered
  OpsBound <- C_OpsBound
INVARIANT Contained
INVARIANT OwnClass
INVARIANT FilesClosed
INVARIANT DefectsBite
INVARIANT Injected
INVARIANT Terminates
CHECK_DEADLOCK FALSE
"""


def base_requests(tier):
    t = TIERS[tier]
    out = []
    for hl in t["hls"]:
        for kind in t["kinds"]:
            sel, need = KINDS[kind][:2]
            only = KINDS[kind][2] if len(KINDS[kind]) > 2 else None
            if need == "full" and hl != "full":
                continue
            if need is None and hl == "full" and kind not in ("document", "menu", "error page"):
                continue                              # the full list repeats only the three basic kinds
            for f in ([x for x in only if x in t["relay"]] if only else
                      list(t["frames"]) + (["gp_info"] if kind in t["info"] else [])):
                tpl, tls, tail = FRAMES[f]
                out.append({"line": tpl % sel, "tls": tls, "wap": False, "hl": hl, "tail": tail, "fk": 0, "fcls": "none",
                            "nw": 0, "id": "%s :: %s :: %s" % (f, sel, hl), "kind": kind, "frame": f})
    return out


def _measure(rq):
    ev, extra = c03.observe({k: rq[k] for k in ("line", "tls", "wap", "hl", "tail", "fk", "fcls", "nw", "id")}, "single",
                            count_fds=True)
    from harness import c03_lib as L
    L.remove_artefacts(c03._W.root, c03._KEEP)
    return extra["writes"], ev, extra


def _inject(rq):
    from harness import c03_lib as L
    ev, extra = c03.observe(rq, "single", count_fds=True, fail_exc=CLASSES[rq["fcls"]])
    L.remove_artefacts(c03._W.root, c03._KEEP)
    return ev, extra


def main(chk, replay=None):
    from harness import c03_lib as L
    t = TIERS[chk.tier]
    # the descriptor observation must see a descriptor that is open (vacuity guard for FilesClosed)
    import gc
    gc.collect()
    b4 = L.open_fds()
    probe = open(os.devnull, "rb")
    seen = L.fd_targets(L.open_fds() - b4)
    probe.close()
    if "/dev/null" not in seen or (L.open_fds() - b4):
        raise core.MachineryError("C20: /proc/self/fd snapshots do not show an open descriptor: %r" % (seen,))
    defects = L.known_defects(chk)
    lists = c03.read_conf_lists()
    tcfg = c03.TIERS["quick"]
    traces = []
    res = {"distinct": 0, "generated": 0, "cmd": "(replay)"}
    base_by_id = {}
    skipped = []
    if replay:
        with open(replay) as fp:
            rp = json.load(fp)
        c = rp["case"]
        (ev, extra), = c03._pool(_inject, [c["rq"]], c["hl"])
        traces.append({"id": c.get("trace_id", rp["key"]), "init": {"prop": "C20", "hl": c["hl"]}, "events": [ev],
                       "extras": [extra], "case": c})
        consts = c03.consts_module(L, lists, tcfg, defects, False, ["default"], 0)
    else:
        # 1. fault-free runs on the real server: number of write() calls per response (B1)
        base = base_requests(chk.tier)
        cases = []
        for hl in t["hls"]:
            sub = [b for b in base if b["hl"] == hl]
            for b, (nw, ev, extra) in zip(sub, c03._pool(_measure, sub, hl)):
                if nw == 0 or ev["esc"] != "none":
                    skipped.append({"id": b["id"], "writes": nw, "esc": ev["esc"]})
                    continue
                b = dict(b, nw=nw)
                base_by_id[b["id"]] = (b, ev, extra)
                cases.append(b)
        if not cases:
            raise core.MachineryError("C20: no fault-free run produced any write")
        consts = c03.consts_module(L, lists, tcfg, defects, False, ["default"], 0, c20cases=cases)
        # 2. design model: every write index x class, exhaustively
        res = tlc.check_model("MC_C20", "MC_C20_run.cfg", dump=True, timeout=1500, continue_=True,
                              extra_files={"MC_C03_consts.tla": consts, "MC_C20_run.cfg": MC_CFG})
        try:
            if res["inv_violations"]:
                chk.model_violation("MC_C20", sorted(set(res["inv_violations"])), res["out"][-3000:])
            jobs = {}
            for st in iter_dump_states(res["dump"], wanted={"pc", "rq", "site", "log", "esc", "mark"}):
                if st["pc"] == "closed":
                    rq = c03._rq(st["rq"])
                    jobs[(rq["id"], rq["fk"], rq["fcls"])] = (rq, st["site"], [r["cls"] for r in st["log"]], st["mark"])
        finally:
            tlc.cleanup(res)
        # 3. spec -> code: fail the k-th write of the real server with that class
        keys = sorted(jobs)
        for hl in t["hls"]:
            ks = [k for k in keys if jobs[k][0]["hl"] == hl]
            for k, (ev, extra) in zip(ks, c03._pool(_inject, [jobs[k][0] for k in ks], hl)):
                rq, site, mlog, mmark = jobs[k]
                b = base_by_id[rq["id"]][0]
                traces.append({"id": "%s k=%d/%d %s" % (rq["id"], rq["fk"], rq["nw"], rq["fcls"]),
                               "init": {"prop": "C20", "hl": hl}, "events": [ev], "extras": [extra],
                               "case": {"trace_id": "%s k=%d/%d %s" % (rq["id"], rq["fk"], rq["nw"], rq["fcls"]),
                                        "rq": rq, "hl": hl, "kind": b["kind"], "frame": b["frame"], "k": rq["fk"], "nw": rq["nw"],
                                        "fcls": rq["fcls"], "site": site, "model_log": mlog, "model_mark": mmark}})
        # 4. real sockets through the unmodified handler class (its own buffering): client gone before / while
        traces.extend(c03._pool(_socketpair_family, [0], "default")[0])
        # 5. real loopback server: the client resets the connection mid-transfer (thorough)
        if t["sockets"]:
            traces.extend(socket_cases(t["sockets"], lists))
    not_injected = [tr["id"] for tr in traces if tr["events"][0]["mark"] < 0 and tr["case"].get("k")]
    if not_injected and not replay:
        raise core.MachineryError("C20: the injected failure was never raised in %d runs, e.g. %s"
                                  % (len(not_injected), not_injected[:3]))
    # 5. code -> spec
    tv = L.validate_parallel("TraceC20", "TraceC20_run.cfg",
                             [{"id": tr["id"], "init": tr["init"], "events": tr["events"]} for tr in traces],
                             extra_files={"MC_C03_consts.tla": consts, "TraceC20_run.cfg": c03.TRACE_CFG})
    for rj in tv["rejected"]:
        tr = traces[rj["index"]]
        clause, _, site = rj["clause"].partition("@")
        tr["case"]["site"] = site or tr["case"].get("site", "none")
        chk.violation("%s:%s" % (tr["id"], clause), clause, tr["case"],
                      {"event": tr["events"][0], "extra": tr["extras"][0]})
    dr = [dict(d, id=traces[d["index"]]["id"]) for d in tv["drift"]]
    chk.note_drift(dr)
    drift_summary = {}
    for d in dr:
        drift_summary.setdefault("%s @ %s" % (d["what"], d["id"].split(" :: ")[0]), []).append(d["id"])
    protos = sorted({tr["events"][0]["proto"] for tr in traces})
    kinds = sorted({tr["case"].get("kind", "?") for tr in traces})
    two_records = sum(1 for tr in traces if len(tr["events"][0]["log"]) - max(tr["events"][0]["mark"], 0) >= 2)
    # vacuity of the CASE SPACE (judged on the model's own runs, never on how the code under test behaved): some
    # case must take the double-failure path (protocol catch logs, error reply fails, server catch logs)
    model_two = sum(1 for tr in traces if "model_mark" in tr["case"] and tr["case"]["model_mark"] >= 0
                    and len(tr["case"]["model_log"]) - tr["case"]["model_mark"] >= 2)
    if not replay and not chk.violations and (model_two == 0 or len(protos) < 4):
        raise core.MachineryError("C20: no case of the model takes the double-failure path / fewer than 4 protocol classes")
    nontrivial = len({(tr["case"].get("frame"), tr["case"].get("kind"), tr["case"].get("hl"), tr["case"].get("k"),
                       tr["case"].get("fcls")) for tr in traces if tr["events"][0]["mark"] >= 0})
    cov = {
        "states": res["distinct"], "transitions": res["generated"], "exhaustive": True,
        "traces_validated_against_impl": tv["accepted"], "traces_rejected": len(tv["rejected"]),
        "evaluations": len(traces), "distinct_nontrivial": nontrivial,
        "rule": "cases = every closed state of MC_C20: (response kind x protocol x handler list) x every write index of the "
                "measured fault-free run x {EPIPE, ECONNRESET, one-argument timeout}; non-trivial = distinct case in which the "
                "injected failure was actually raised by a write() of the real server",
        "samples": [{"id": tr["id"], "log": tr["events"][0]["log"], "mark": tr["events"][0]["mark"], "esc": tr["events"][0]["esc"],
                     "leaked": tr["extras"][0]["leaked"]} for tr in traces[::max(1, len(traces) // 4)][:4]],
        "checker_cmd": res["cmd"] + " ; " + tv["cmd"], "trace_states": tv["states"],
        "response_kinds": kinds, "protocol_classes_observed": protos, "defects_in_model": sorted(defects),
        "fault_free_runs": len(base_by_id), "skipped_no_python_write": skipped,
        "writes_per_response": {k: v[0]["nw"] for k, v in sorted(base_by_id.items())},
        "runs_with_two_records_after_failure": two_records, "model_cases_with_two_records_after_failure": model_two, "drift_summary":
            {k: {"n": len(v), "e.g.": v[:3]} for k, v in sorted(drift_summary.items())},
        "bindings": ["B1 measured write counts + conf lists + tree as TLC constants", "B2 TLC closed states replayed",
                     "B3 TraceC20"],
    }
    return chk.finish(cov, [
        "the client connection is an in-memory object whose write() raises from the k-th call on (every later write too: "
        "the connection is dead); responses produced by a subprocess writing to the descriptor directly (scripts, "
        "decompression over plain TCP) make no Python write() and are skipped (listed in the evidence)",
        "descriptor comparison: /proc/self/fd before the connection object exists and after it was released and "
        "gc.collect() ran, so only descriptors that outlive the request count",
        "socket.timeout('timed out') is TimeoutError with args == ('timed out',) and errno None",
        "TLS is the mock SSL socket class of the harness (protocol selection only)",
    ])


# ---- real sockets through the UNMODIFIED handler class (both tiers) -------------------------------------
SOCKETPAIR_CASES = [            # (frame, selector, when the client goes away)
    ("g", "/big.txt", "before"), ("g", "/d", "before"), ("g", "/nofile", "before"), ("g", "/m.mbox|/MBOX-MESSAGE/1", "before"),
    ("gp_plus", "/big.txt", "before"), ("gp_info", "/big.txt", "before"), ("gp_plus", "/nofile", "before"),
    ("h_get", "/d", "before"), ("h_get", "/nofile", "before"), ("w_get", "/d", "before"),
    ("s", "/big.txt", "before"), ("s", "/nofile", "before"),
    ("g", "/huge.bin", "while"), ("h_get", "/huge.bin", "while"), ("s", "/huge.bin", "while"),
]


def _socketpair_family(_job):
    """The real pygopherd.server.GopherRequestHandler, constructed exactly as socketserver does
    (request socket, client address, server): its own rbufsize / wbufsize, its own setup(), handle()
    and finish().  The request socket is one end of a socketpair; the client end sends the request and
    is closed before the handler runs ('before') or after reading a little of a reply too large for
    the socket buffers ('while').  The server end is a socket.socket subclass that notes the log
    length when a send first fails (environment, not code under test)."""
    import gc
    import socket as S
    import threading
    import pygopherd.server
    from harness import c03_lib as L
    from harness import world as W
    w = c03._W
    w.write("huge.bin", b"0123456789abcdef" * 400000)

    class RecSock(S.socket):
        marks = None

        def _note(self):
            if self.marks is not None and not self.marks:
                self.marks.append(len(w.logbuf))

        def send(self, *a, **k):
            try:
                return super().send(*a, **k)
            except OSError:
                self._note()
                raise

        def sendall(self, *a, **k):
            try:
                return super().sendall(*a, **k)
            except OSError:
                self._note()
                raise

    out = []
    for i, (f, sel, when) in enumerate(SOCKETPAIR_CASES):
        tpl, _tls, tail = FRAMES[f]
        data = L.concretise(tpl % sel, tail)
        proto, _raised = L.detect(w, data, False)
        W.logger.log = w.logbuf.append
        del w.logbuf[:]
        gc.collect()
        before = L.open_fds()
        a, b = S.socketpair()
        srv = RecSock(fileno=a.detach())
        srv.marks = []
        b.sendall(data)
        th = None
        if when == "before":
            b.close()
        else:
            def client(sock=b):
                try:
                    sock.recv(2000)
                finally:
                    sock.close()
            th = threading.Thread(target=client, daemon=True)
            th.start()
        esc = "none"
        saved = sys.stderr
        sys.stderr = open(os.devnull, "w")
        try:
            try:
                pygopherd.server.GopherRequestHandler(srv, W.CLIENT, w.server)        # setup(); handle(); finish()
            except BaseException as e:      # noqa: left the connection handler (handle() or finish())
                esc = type(e).__name__
        finally:
            sys.stderr.close()
            sys.stderr = saved
            srv.close()
        if th:
            th.join(10)
        gc.collect()
        recs = L.log_records(list(w.logbuf))
        raw = srv.marks[0] if srv.marks else None
        mark = sum(1 for r in recs[:raw] if r["ev"] == "log") if raw is not None else -1
        leaked = L.fd_targets(L.open_fds() - before)
        rq = {"line": tpl % sel, "tls": False, "wap": False, "hl": c03._HL, "tail": tail, "fk": 0,
              "fcls": "connection-failure", "nw": 0, "id": "socketpair %s :: %s :: client gone %s" % (f, sel, when)}
        ev = {"ev": "conn", "role": "socket", "rq": rq, "proto": proto, "frames": [],
              "log": [{"addr": r["addr"], "proto": r["proto"], "cls": r["cls"], "fam": r["fam"]} for r in recs if r["ev"] == "log"],
              "esc": esc, "ops": 0, "mark": mark, "nfds": len(leaked), "nproc": 0, "digest": "", "arts": []}
        out.append({"id": rq["id"], "init": {"prop": "C20", "hl": c03._HL}, "events": [ev],
                    "extras": [{"leaked": leaked, "log": list(w.logbuf)[:6], "writes": -1,
                                "wbufsize": pygopherd.server.GopherRequestHandler.wbufsize}],
                    "case": {"rq": rq, "hl": c03._HL, "kind": "real socketpair, client gone %s" % when, "frame": f,
                             "fcls": "connection-failure", "site": "socket", "k": i + 1}})
    L.remove_artefacts(w.root, c03._KEEP)
    return out


# ---- real loopback sockets: the client resets mid-transfer (thorough tier) ----------------------------
def socket_cases(n, lists):
    """A real ThreadingTCPServer of the tree under test on a loopback port; a client requests a large
    document / menu, reads a little, then resets the connection (SO_LINGER 0).  Observed through the
    same alpha: log records, what reached handle_error (escaped), descriptors."""
    import gc
    import struct
    import threading
    import time
    from harness import c03_lib as L
    from harness.world import World
    from pygopherd import initialization, logger
    out = []
    w = World(handlers="default")
    L.build_tree(w)
    w.write("huge.bin", b"0123456789abcdef" * 400000)          # 6.4 MB: cannot fit the socket buffers
    w.config.set("pygopherd", "servertype", "ThreadingTCPServer")
    srv = initialization.get_server(w.config)
    escaped = []
    srv.handle_error = lambda request, client_address: escaped.append(sys.exc_info()[0].__name__)
    logbuf = []
    logger.log = logbuf.append
    th = threading.Thread(target=srv.serve_forever, kwargs={"poll_interval": 0.05}, daemon=True)
    th.start()
    port = srv.socket.getsockname()[1]
    try:
        reqs = [("g", b"/huge.bin\r\n"), ("gp_plus", b"/huge.bin\t+\r\n"), ("h_get", b"GET /huge.bin HTTP/1.0\r\n\r\n"),
                ("s", b"localhost /huge.bin 0\r\n")]
        for i in range(n):
            f, data = reqs[i % len(reqs)]
            del logbuf[:], escaped[:]
            gc.collect()
            before = L.open_fds()
            c = socket.create_connection(("127.0.0.1", port))
            c.sendall(data)
            c.recv(1000 + 4096 * (i // len(reqs)))
            c.setsockopt(socket.SOL_SOCKET, socket.SO_LINGER, struct.pack("ii", 1, 0))
            c.close()                                           # RST
            deadline = time.time() + 20
            while time.time() < deadline and not any("EXCEPTION" in l for l in logbuf) and not escaped:
                time.sleep(0.02)
            settle = time.time() + 5            # the worker thread closes its socket and file after logging
            while time.time() < settle:
                gc.collect()
                if not (L.open_fds() - before):
                    break
                time.sleep(0.05)
            recs = [r for r in L.log_records(list(logbuf)) if r["ev"] == "log"]
            recs = [dict(r, addr="client" if r["addr"] == "127.0.0.1" else r["addr"]) for r in recs]
            if not recs and not escaped:
                raise core.MachineryError("C20 sockets: the reset was never noticed by the server (no record within 20 s)")
            cls = "connection-failure"          # the kernel chooses ECONNRESET / EPIPE per failing write
            leaked = [x for x in L.fd_targets(L.open_fds() - before) if "socket:" not in x or True]
            rq = {"line": data.split(b"\r\n")[0].decode() + "\r\n", "tls": False, "wap": False, "hl": "default",
                  "tail": "blank" if f == "h_get" else "none", "fk": 0, "fcls": cls, "nw": 0, "id": "socket %s #%d" % (f, i)}
            ev = {"ev": "conn", "role": "socket", "rq": rq, "proto": recs[0]["proto"] if recs else "none", "frames": [],
                  "log": [{"addr": r["addr"], "proto": r["proto"], "cls": r["cls"], "fam": r["fam"]} for r in recs],
                  "esc": escaped[0] if escaped else "none", "ops": 0, "mark": 0, "nfds": len(leaked), "nproc": 0, "digest": "", "arts": []}
            out.append({"id": rq["id"], "init": {"prop": "C20", "hl": "default"}, "events": [ev],
                        "extras": [{"leaked": leaked, "log": list(logbuf)[:6], "writes": -1}],
                        "case": {"rq": rq, "hl": "default", "kind": "document (real socket, client reset)", "frame": f,
                                 "fcls": cls, "site": "socket"}})
    finally:
        srv.shutdown()
        srv.server_close()
        w.close()
    return out


def selftest():
    """Binding demonstration: a recorded replay is accepted; with one log record's class corrupted,
    the record dropped, or a leaked descriptor added, TraceC20 rejects it and names the clause."""
    from harness import c03_lib as L
    lists = c03.read_conf_lists()
    rq = {"line": "/big.txt\r\n", "tls": False, "wap": False, "hl": "default", "tail": "none", "fk": 2,
          "fcls": "BrokenPipeError", "nw": 3, "id": "g :: /big.txt :: default"}
    (ev, _x), = c03._pool(_inject, [rq], "default")
    ex = {"MC_C03_consts.tla": c03.consts_module(L, lists, c03.TIERS["quick"], set(), False, ["default"], 0),
          "TraceC20_run.cfg": c03.TRACE_CFG}
    good = {"id": "good", "init": {"prop": "C20", "hl": "default"}, "events": [ev]}
    b1 = json.loads(json.dumps(good)); b1["id"] = "class-corrupted"; b1["events"][0]["log"][-1]["cls"] = "IndexError"
    b2 = json.loads(json.dumps(good)); b2["id"] = "records-dropped"; b2["events"][0]["log"] = b2["events"][0]["log"][:ev["mark"]]
    b3 = json.loads(json.dumps(good)); b3["id"] = "descriptor-leaked"; b3["events"][0]["nfds"] = 1
    b5 = json.loads(json.dumps(good)); b5["id"] = "child-left"; b5["events"][0]["nproc"] = 1
    b4 = json.loads(json.dumps(good)); b4["id"] = "escaped"; b4["events"][0]["esc"] = "BrokenPipeError"
    tv = tlc.validate_traces("TraceC20", "TraceC20_run.cfg", [good, b1, b2, b3, b4, b5], extra_files=ex)
    got = {r["trace"]["id"]: r["clause"].partition("@")[0] for r in tv["rejected"]}
    print("accepted:", tv["accepted"], "rejected:", got)
    return tv["accepted"] == 1 and got == {"class-corrupted": "OwnClass", "records-dropped": "OwnClass",
                                           "descriptor-leaked": "FilesClosed", "escaped": "Contained",
                                           "child-left": "FilesClosed"}


if __name__ == "__main__":
    sys.exit(0 if selftest() else 1)
