"""Environment substitution (DESIGN.md section 5): process-wide stand-ins for the functions through
which pygopherd touches its environment.  install() must run BEFORE pygopherd is imported so that
`from time import time`-style imports would also be covered.  Everything passes through unchanged
unless the controller ENV says otherwise.  No property logic here."""
from __future__ import annotations

import builtins
import io
import os
import time


class Env:
    def __init__(self):
        self.reset()

    def reset(self):
        self.clock = None            # virtual time.time() value, or None for the real clock
        self.clock_reads = 0
        self.listdir_order = None    # f(path:str, names:list) -> list
        self.listdir_calls = 0
        self.stat_fault = None       # f(path:str, follow:bool) -> Exception | None
        self.stat_calls = 0
        self.open_hook = None        # f(path:str, mode:str) -> None | Exception | file-like
        self.open_calls = 0
        self.unlink_hook = None      # f(op:str, path:str) -> None | Exception   (os.unlink/remove/rename/replace)
        self.mmap_hook = None        # f(fileno:int) -> None, called after a file mapping has been created


ENV = Env()
_installed = False
REAL = {}


def _s(path):
    if isinstance(path, bytes):
        return os.fsdecode(path)
    if isinstance(path, int):
        return "<fd %d>" % path
    return os.fspath(path) if not isinstance(path, str) else path


def install():
    global _installed
    if _installed:
        return
    _installed = True
    REAL.update(time=time.time, listdir=os.listdir, stat=os.stat, lstat=os.lstat, open=builtins.open,
                scandir=os.scandir, unlink=os.unlink, remove=os.remove, rename=os.rename, replace=os.replace)

    def vtime():
        ENV.clock_reads += 1
        if ENV.clock is None:
            return REAL["time"]()
        return float(ENV.clock)

    def listdir(path="."):
        names = REAL["listdir"](path)
        ENV.listdir_calls += 1
        if ENV.listdir_order is not None:
            isb = isinstance(path, bytes)
            sn = [os.fsdecode(n) if isb else n for n in names]
            sn = ENV.listdir_order(_s(path), list(sn))
            names = [os.fsencode(n) if isb else n for n in sn]
        return names

    def stat(path, *a, **k):
        ENV.stat_calls += 1
        if ENV.stat_fault is not None and not isinstance(path, int):
            ex = ENV.stat_fault(_s(path), k.get("follow_symlinks", True))
            if ex is not None:
                raise ex
        return REAL["stat"](path, *a, **k)

    def lstat(path, *a, **k):
        ENV.stat_calls += 1
        if ENV.stat_fault is not None:
            ex = ENV.stat_fault(_s(path), False)
            if ex is not None:
                raise ex
        return REAL["lstat"](path, *a, **k)

    def vopen(file, mode="r", *a, **k):
        ENV.open_calls += 1
        if ENV.open_hook is not None and not isinstance(file, int):
            r = ENV.open_hook(_s(file), mode)
            if isinstance(r, BaseException):
                raise r
            if r is not None:
                return r
        return REAL["open"](file, mode, *a, **k)

    def scandir(path="."):
        # enumeration through scandir counts as an enumeration too (order is left to the OS here);
        # the listdir observer is told about it with the names it will yield
        if ENV.listdir_order is not None and not isinstance(path, int):
            try:
                ENV.listdir_order(_s(path), list(REAL["listdir"](path if not isinstance(path, bytes) else os.fsdecode(path))))
            except OSError:
                pass
        ENV.listdir_calls += 1
        return REAL["scandir"](path)

    def _removal(op):
        def f(path, *a, **k):
            if ENV is not None and ENV.unlink_hook is not None and not isinstance(path, int):
                ex = ENV.unlink_hook(op, _s(path))
                if ex is not None:
                    raise ex
            return REAL[op](path, *a, **k)
        f.__name__ = op
        return f

    import mmap as _mmap
    REAL["mmap"] = _mmap.mmap

    class vmmap(_mmap.mmap):
        def __new__(cls, fileno, length, *a, **k):
            m = super().__new__(cls, fileno, length, *a, **k)
            if ENV.mmap_hook is not None and isinstance(fileno, int) and fileno >= 0:
                ENV.mmap_hook(fileno)
            return m

    vmmap.__name__ = vmmap.__qualname__ = "mmap"
    _mmap.mmap = vmmap
    os.unlink, os.remove, os.rename, os.replace = _removal("unlink"), _removal("remove"), _removal("rename"), _removal("replace")
    time.time = vtime
    os.scandir = scandir
    os.listdir = listdir
    os.stat = stat
    os.lstat = lstat
    builtins.open = vopen
    io.open = vopen
