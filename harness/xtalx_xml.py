"""XTALX part 2: XML templates (compileXMLTemplate / XMLTemplate.expand) and simpleTALUtils.ExpandMacros.

gamma: a case of spec/MC_XTALX.tla is rendered as XML text under its prefix binding `ns`; alpha: the real
program is abstracted like C17's (harness/c17_tal.py), the output bytes are decoded, split into declaration /
doctype line / body, the body is re-serialised by the independent tokenizer of C17 with <a/> written <a></a>.
No property logic here: spec/trace/TraceXtalx.tla judges."""
from __future__ import annotations

import html
import io
import re
import xml.parsers.expat

from harness import c17_tal

TAL_URI = "http://xml.zope.org/namespaces/tal"
METAL_URI = "http://xml.zope.org/namespaces/metal"
UNI_MODEL, UNI_REAL = "~E~", "é€ł"         # the model's marker for three non-ASCII characters (same length)
SINGLE = re.compile(r"<([A-Za-z_][\w:.-]*)((?:\s+[^<>=\s]+=\"[^\"<]*\")*)\s*/>")
NODUP = re.compile(r"(<([A-Za-z_][\w:.-]*)[^<>]* />)</\2>")
CHARREF = re.compile(r"&#(\d+);")
PREFIXES = ("tal:", "metal:", "t:", "m:", "u:", "v:", "xmlns:")


def _pref(name, inner):
    if not inner:
        return name
    return ("t:" + name[4:]) if name.startswith("tal:") else ("m:" + name[6:]) if name.startswith("metal:") else name


def render_nodes(nodes, exprs, ns, inner, depth=0):
    out = []
    for nd in nodes:
        if nd["k"] == "text":
            out.append(html.escape(nd["text"], quote=False))
        elif nd["k"] == "raw":
            out.append(nd["text"])
        else:
            decl = []
            inner_kids = inner
            if depth == 0 and ns in (1, 3):
                decl += ['xmlns:tal="%s"' % TAL_URI, 'xmlns:metal="%s"' % METAL_URI]
            if depth == 0 and ns in (2, 4):
                decl += ['xmlns:t="%s"' % TAL_URI, 'xmlns:m="%s"' % METAL_URI]
            if ns == 3 and nd["tag"] == "w" and not nd["tal"]:
                decl += ['xmlns:t="%s"' % TAL_URI, 'xmlns:m="%s"' % METAL_URI]
                inner_kids = True
            if ns == 4 and nd["tag"] == "w" and not nd["tal"]:
                decl += ['xmlns:u="%s"' % TAL_URI, 'xmlns:v="%s"' % METAL_URI]
            plain = ['%s="%s"' % (a["n"], html.escape(a["v"], quote=True)) for a in nd["atts"]]
            tal = ['%s="%s"' % (_pref(n, inner), html.escape(v, quote=True)) for n, v in (c17_tal.render_cmd(c, exprs) for c in nd["tal"])]
            atts = decl + ((tal + plain) if len(tal) % 2 else (plain + tal))
            head = "<" + " ".join([nd["tag"]] + atts)
            if not nd["kids"]:
                out.append(head + "/>")
            else:
                out.append(head + ">" + render_nodes(nd["kids"], exprs, ns, inner_kids, depth + 1) + "</%s>" % nd["tag"])
    return "".join(out)


def render(case):
    exprs = {}
    ns = case.get("ns", 0)
    text = render_nodes(case["tree"], exprs, ns, ns in (2, 4))
    return text.replace(UNI_MODEL, UNI_REAL), exprs


def _real_values(case):
    """context entries with the model's marker replaced by real non-ASCII characters"""
    import json
    return json.loads(json.dumps(case).replace(UNI_MODEL, UNI_REAL))


def _wf(text):
    p = xml.parsers.expat.ParserCreate()
    try:
        p.Parse(text.encode("utf-8"), True)
        return True
    except xml.parsers.expat.ExpatError:
        return False


def xml_canonical(body):
    body = SINGLE.sub(lambda m: "<%s%s></%s>" % (m.group(1), m.group(2), m.group(1)), body)
    return c17_tal.canonical(c17_tal.tokenize(body))


def split_output(raw, enc):
    """bytes -> (decodes, decl, dtl, body) with character references above 127 resolved and the marker restored"""
    try:
        text = raw.decode(enc)
        ok = True
    except (UnicodeDecodeError, LookupError):
        text, ok = raw.decode("latin-1"), False
    text = CHARREF.sub(lambda m: chr(int(m.group(1))) if int(m.group(1)) > 127 else m.group(0), text).replace(UNI_REAL, UNI_MODEL)
    decl = dtl = ""
    if text.startswith("<?xml"):
        decl, _, text = text.partition("\n")
    if text.startswith("<!DOCTYPE"):
        dtl, _, text = text.partition("\n")
    return ok, decl, dtl, text


def run_case(case, consts, kind="direct"):
    simpleTAL, simpleTALES = c17_tal.st_modules()
    text, exprs = render(case)
    init = {"tree": case["tree"], "ctx": case["ctx"], "py": False, "fam": case.get("fam", ""), "var": 0, "kind": kind,
            "ns": case.get("ns", 0), "enc": case.get("enc", "utf-8"), "sup": bool(case.get("sup", False)), "dt": case.get("dt", "")}
    final = {"ev": "end", "raised": "", "doc": "", "cdoc": "", "doc2": "", "toks": [], "after": c17_tal.EMPTY_SNAP, "canary": 0, "nsteps": 0,
             "decl": "", "dtl": "", "decodes": True, "wf": True, "wfnodup": True, "nuse": 0, "ntal": 0, "unobs": []}
    if kind == "tt":
        from simpletal import simpleTALUtils
        nd = case["tree"][0]
        init.update(prog=[], symt=[], macros=[], before=c17_tal.EMPTY_SNAP, compiled=True)
        try:
            final["doc"] = simpleTALUtils.tagAsText(nd["tag"], [(a["n"], a["v"]) for a in nd["atts"]])
        except Exception as e:                   # noqa: BLE001
            final["raised"] = type(e).__name__
        return {"text": text, "init": init, "events": [], "final": final}
    try:
        template = simpleTAL.compileXMLTemplate(text)
    except Exception as e:                       # noqa: BLE001
        init.update(prog=[], symt=[], macros=[], before=c17_tal.EMPTY_SNAP, compiled=False)
        final["raised"] = "compile:" + type(e).__name__
        return {"text": text, "init": init, "events": [], "final": final}
    prog, symt, macros = c17_tal.abstract_program(template, exprs, consts)
    for c in prog:
        c["oa"] = [a for a in c["oa"] if not a["n"].startswith(PREFIXES)]
    real = _real_values(case)
    can = c17_tal.Canary()
    init.update(prog=prog, symt=symt, macros=macros, before=c17_tal.EMPTY_SNAP, compiled=True)
    events = []
    if kind == "mx":
        from simpletal import simpleTALUtils
        ctx = c17_tal.build_context(real, template, {}, can.hit)
        try:
            res = simpleTALUtils.ExpandMacros(ctx, template)
            d, decl, dtl, body = split_output(res.encode("utf-8"), "utf-8")
            final.update(doc=body, wf=_wf(body), wfnodup=_wf(NODUP.sub(lambda m: m.group(1), body)), nuse=len(re.findall(r'\smetal:use-macro="', body)), ntal=len(re.findall(r'\stal:[a-z-]+="', body)))
        except Exception as e:                   # noqa: BLE001
            final["raised"] = type(e).__name__
        return {"text": text, "init": init, "events": events, "final": final}
    # (1) traced expansion of the body only -> opcode events (design level)
    ctx = c17_tal.build_context(real, template, {}, can.hit)
    out = io.StringIO()
    try:
        template.expand(ctx, out, suppressXMLDeclaration=True, interpreter=c17_tal._init_tracer(c17_tal.make_tracer(events, c17_tal.BUDGET), ctx, out))
    except c17_tal.StepBudget:
        final["raised"] = "StepBudget"
    except Exception as e:                       # noqa: BLE001
        final["raised"] = type(e).__name__
    final["doc"] = out.getvalue().replace(UNI_REAL, UNI_MODEL)
    # (2) the real XMLTemplate.expand with its own interpreter into a bytes file
    if not final["raised"]:
        ctx2 = c17_tal.build_context(real, template, {}, can.hit)
        o = io.BytesIO()
        try:
            template.expand(ctx2, o, outputEncoding=init["enc"], docType=init["dt"] or None, suppressXMLDeclaration=init["sup"])
            ok, decl, dtl, body = split_output(o.getvalue(), init["enc"])
            final.update(decodes=ok, decl=decl, dtl=dtl, wf=_wf(body), cdoc=xml_canonical(body), doc2=body)
        except Exception as e:                   # noqa: BLE001
            final["raised"] = "expand:" + type(e).__name__
    final["nsteps"] = len(events)
    final["unobs"] = sorted(c17_tal.UNOBSERVABLE)
    return {"text": text, "init": init, "events": events, "final": final}
