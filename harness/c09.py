"""C09 - gophermap files are rendered line for line as documented, in every protocol.

Design model: spec/Gophermap.tla (ImplEntries = handlers/gophermap.py as coded, RefEntries = DESIGN.md
Appendix E.2) checked by TLC on every gophermap of spec/MC_C09.tla.  B2: every gophermap TLC
evaluated is written to disk and its selector fetched through the real server in every protocol
(Gopher, Gopher+, HTTP, WAP, Gemini over (mock) TLS, Spartan).  B3: the lexed listings are judged by
TLC against RefEntries in spec/trace/TraceC09.tla.

gamma: gophermap record -> files + request bytes.  alpha: listing bytes -> rows.  No judgement here."""
from __future__ import annotations

import html
import json
import os
import random
import re
import urllib.parse

from harness import core, tlc
from harness.tlaparse import iter_dump_states

# Coded deviations that spec/Gophermap.tla follows; delete a name when /repo gets the fix:.
QUIRKS = []
if os.environ.get("VERIF_C09_QUIRKS") is not None:      # development: try the model without a quirk
    QUIRKS = [q for q in os.environ["VERIF_C09_QUIRKS"].split(",") if q]

MC_CFG = """SPECIFICATION Spec
CONSTANTS
  Quirks = {%(quirks)s}
  Tier = "%(tier)s"
INVARIANT AsDocumented
CHECK_DEADLOCK FALSE
"""
TRACE_CFG = """SPECIFICATION TSpec
CONSTANTS
  Quirks = {%(quirks)s}
CONSTRAINT Record
POSTCONDITION Post
CHECK_DEADLOCK FALSE
"""
SERVER = {"host": "this.example", "port": "7071"}
PROTOS = ["G", "GP", "H", "W", "GEM", "SP"]
TIMEOUTS = {"quick": 600, "thorough": 3000}
WAPTOP = "/wap"
GEMINI_QUERY = "/GEMINI-QUERY"

_W = None
_HANDLERS = "default"
_ROOTS = None          # parent-owned scratch directory holding the workers' document roots (removed by the parent)


def _cfg(text, tier=""):
    return text % {"quirks": ", ".join('"%s"' % q for q in QUIRKS), "tier": tier}


def _world():
    global _W
    if _W is None:
        from harness.world import World
        root = None
        if _ROOTS is not None:
            import tempfile
            root = tempfile.mkdtemp(prefix="root-", dir=_ROOTS)
        _W = World(root=root, handlers=_HANDLERS, overrides={
            ("handlers.dir.DirHandler", "cachetime"): "0",
            ("pygopherd", "servername"): SERVER["host"],
            ("pygopherd", "advertisedport"): SERVER["port"],
            ("protocols.gemini.GeminiProtocol", "footer"): None,
            ("protocols.gemini.SpartanProtocol", "footer"): None})
    return _W


# ---- gamma -------------------------------------------------------------------------------------------
TOKENS = (("{NUL}", "\x00"), ("{HI}", "\udcff"))       # model token <-> character (0xFF via surrogateescape)


def concretise(text):
    for tok, ch in TOKENS:
        text = text.replace(tok, ch)
    return text


def abstract(text):
    for tok, ch in TOKENS:
        text = text.replace(ch, tok)
    return text


def materialise(w, gm):
    w.clear()
    d = gm["dir"].strip("/")
    base = (d + "/") if d else ""
    if d:
        w.mkdir(d)
    # what local links may point at (existing targets are populated from the file system; a path THROUGH one
    # of the regular files cannot be stat()ed)
    for fx in gm["fixtures"]:
        if fx["k"] == "dir":
            w.mkdir(fx["p"])
        else:
            w.write(fx["p"], b"content of " + fx["p"].encode() + b"\n")
    text = "".join(concretise(l) + gm["eol"] for l in gm["lines"])
    if gm.get("open") and text.endswith(gm["eol"]):
        text = text[:-len(gm["eol"])]          # the final line is not terminated
    name = "gophermap" if gm["kind"] == "dir" else gm["sel"].rsplit("/", 1)[1]
    w.write(base + name, text)


def request_bytes(p, sel):
    q = urllib.parse.quote(sel)
    if p == "G":
        return sel.encode() + b"\r\n", False
    if p == "GP":
        return sel.encode() + b"\t+\r\n", False
    if p == "H":
        return b"GET " + q.encode() + b" HTTP/1.0\r\n\r\n", False
    if p == "W":
        return b"GET " + (WAPTOP + q).encode() + b" HTTP/1.0\r\n\r\n", False
    if p == "GEM":
        return b"gemini://" + SERVER["host"].encode() + q.encode() + b"\r\n", True
    if p == "SP":
        return SERVER["host"].encode() + b" " + q.encode() + b" 0\r\n", False
    raise ValueError(p)


# ---- alpha: one lexer per protocol -> rows {kind,type,name,form,sel,host,port,url} --------------------
def _row(kind, typ, name, form, sel="", host="", port="", url="", plus=False):
    return {"kind": kind, "type": typ, "name": abstract(name), "form": form, "sel": abstract(sel), "host": abstract(host),
            "port": port, "url": abstract(url), "plus": plus}


def _target(kind, name, href, strip_prefix=""):
    """A link target as written by a non-Gopher renderer -> row (canonical forms are named, not judged)."""
    if href.startswith("gopher://"):
        rest = href[len("gopher://"):]
        auth, _, path = rest.partition("/")
        host, _, port = auth.rpartition(":")
        path = urllib.parse.unquote(path, errors="surrogateescape")
        return _row(kind, path[:1], name, "gopher", path[1:], host, port)
    if href.startswith("/"):
        if strip_prefix and href.startswith(strip_prefix):
            href = href[len(strip_prefix):]
        return _row(kind, "?", name, "local", urllib.parse.unquote(href, errors="surrogateescape"))
    return _row(kind, "?", name, "url", url=href)


def lex_gopher(text, plus):
    if plus:
        first, sep, text = text.partition("\r\n")
        if not sep or not re.fullmatch(r"\+(-?\d+)", first):
            return None
    if text and not text.endswith("\r\n"):
        return None
    rows = []
    for line in text.split("\r\n")[:-1]:
        f = line.split("\t")
        if len(f) not in (4, 5) or not f[0] or (len(f) == 5 and f[4] != "+"):
            return None
        rows.append(_row("menu", f[0][0], f[0][1:], "fields", f[1], f[2], f[3], plus=(len(f) == 5)))
    return rows


_H_ROW = re.compile(r'<TD>&nbsp;(?:<A HREF="([^"]*)">)?<TT>(.*?)</TT>(?:</A>)?(?:<BR><FORM METHOD="GET" ACTION="([^"]*)">)?', re.S)


def lex_http(text):
    head, sep, body = text.partition("\r\n\r\n")
    if not sep or not head.startswith("HTTP/1.0 200 ") or "</TABLE>" not in body or "<TABLE" not in body:
        return None
    table = body.split("<TABLE", 1)[1].split("</TABLE>", 1)[0]
    rows = []
    for chunk in table.split("<TR><TD>")[1:]:
        m = _H_ROW.search(chunk)
        if not m:
            return None
        name = html.unescape(m.group(2))
        if m.group(3) is not None:
            rows.append(_target("search", name, html.unescape(m.group(3))))
        elif m.group(1) is not None:
            rows.append(_target("link", name, html.unescape(m.group(1))))
        else:
            rows.append(_row("info", "i", name, "none"))
    return rows


_W_SEARCH = re.compile(r'(.*?)<br/>\n  <input name="sr\d+"/>\n<anchor>Go\n  <go method="get" href="([^"]*)">\n'
                       r'    <postfield name="searchrequest" value="\$\(sr\d+\)"/>\n  </go>\n</anchor>\n<br/>\n', re.S)
_W_LINK = re.compile(r'(?:[0-9#*] <a accesskey="[0-9#*]" href="([^"]*)">|<a href="([^"]*)">)(.*?)</a><br/>\n', re.S)
_W_INFO = re.compile(r'(.*?)<br/>\n', re.S)


def lex_wap(text):
    head, sep, body = text.partition("\r\n\r\n")
    if not sep or not head.startswith("HTTP/1.0 200 ") or "text/vnd.wap.wml" not in head:
        return None
    m = re.search(r"<p>\n<b>.*?</b><br/>\n", body, re.S)
    if not m or not body.endswith("</p>\n</card>\n</wml>\n"):
        return None
    s = body[m.end():-len("</p>\n</card>\n</wml>\n")]
    rows, pos = [], 0
    while pos < len(s):
        end = s.find("<br/>\n", pos)
        if end < 0:
            return None
        chunk, after = s[pos:end], s[end + 6:]
        if "<a " in chunk:                                   # markup is escaped in names: this is an anchor
            m = _W_LINK.match(s, pos)
            if not m:
                return None
            rows.append(_target("link", html.unescape(m.group(3)), html.unescape(m.group(1) or m.group(2)), WAPTOP))
        elif after.startswith('  <input name="sr'):
            m = _W_SEARCH.match(s, pos)
            if not m:
                return None
            rows.append(_target("search", html.unescape(m.group(1)), html.unescape(m.group(2)), WAPTOP))
        else:
            m = _W_INFO.match(s, pos)
            rows.append(_row("info", "i", html.unescape(m.group(1)), "none"))
        pos = m.end()
    return rows


def lex_gemtext(text, status, spartan):
    first, sep, body = text.partition("\r\n")
    if not sep or first != status:
        return None
    if body and not body.endswith("\n"):
        return None
    rows = []
    for line in body.split("\n")[:-1]:
        if line.startswith("=> ") or (spartan and line.startswith("=: ")):
            parts = line.split(" ", 2)
            if len(parts) < 3:
                return None
            kind = "search" if line.startswith("=: ") else "link"
            url = parts[1]
            if not spartan and url.startswith(GEMINI_QUERY + "/"):
                kind, url = "search", url[len(GEMINI_QUERY):]
            rows.append(_target(kind, parts[2], url))
        else:
            rows.append(_row("info", "i", line, "none"))
    return rows


def lex(p, out: bytes):
    try:
        text = out.decode("utf-8", "surrogateescape")
    except Exception:
        return None
    if p in ("G", "GP"):
        return lex_gopher(text, p == "GP")
    if p == "H":
        return lex_http(text)
    if p == "W":
        return lex_wap(text)
    if p == "GEM":
        return lex_gemtext(text, "20 text/gemini", False)
    return lex_gemtext(text, "2 text/gemini", True)


def run_case(gm):
    w = _world()
    materialise(w, gm)
    events, extras = [], []
    for p in PROTOS:
        data, tls = request_bytes(p, gm["sel"])
        r = w.request(data, tls=tls)
        rows = lex(p, r.out)
        ok = rows is not None and r.escaped is None and not any("EXCEPTION" in l for l in r.log)
        events.append({"ev": "view", "p": p, "ok": ok, "rows": rows or []})
        extras.append({"raw": r.out[:1500].decode("latin-1"), "log": r.log[-2:], "escaped": r.escaped,
                       "served_by": [l for l in r.log if "Handler]" in l][:1]})
    return events, extras


def _init_worker():
    global _W
    _W = None


def case_key(gm):
    return "%s %s eol=%s%s|%s" % (gm["kind"], gm["sel"], json.dumps(gm["eol"]), "(open)" if gm.get("open") else "", json.dumps(gm["lines"]))


def _gm_for_trace(g):
    return {"kind": g["kind"], "sel": g["sel"], "dir": g["dir"], "lines": list(g["lines"]), "eol": g["eol"], "open": bool(g.get("open", False)),
            "srv": dict(g["srv"]), "fixtures": [{"p": f["p"], "k": f["k"]} for f in g["fixtures"]]}


def cases_from_tlc(tier):
    res = tlc.check_model("MC_C09", "MC_C09_run.cfg", extra_files={"MC_C09_run.cfg": _cfg(MC_CFG, tier)},
                          dump=True, timeout=TIMEOUTS[tier])
    cases = []
    try:
        for st in iter_dump_states(res["dump"], wanted={"gm", "phase", "res"}):
            if st["phase"] == "done":
                cases.append({"gm": _gm_for_trace(st["gm"]), "wf": st["res"]["wf"], "cls": st["res"]["cls"],
                              "model_judge": st["res"]["judge"]})
    finally:
        tlc.cleanup(res)
    cases.sort(key=lambda c: case_key(c["gm"]))
    return res, cases


def replay_cases(cases, handlers="default"):
    global _HANDLERS, _ROOTS
    import shutil
    from harness import cachelib
    _HANDLERS = handlers
    _ROOTS = tlc.new_scratch("c09roots")
    procs = int(os.environ.get("VERIF_PROCS") or 16)
    try:
        return cachelib.pool_map(run_case, [c["gm"] for c in cases], _init_worker, procs=procs)
    finally:
        shutil.rmtree(_ROOTS, ignore_errors=True)
        _ROOTS = None


def validate(traces, timeout=3000):
    from harness import c08_batch
    return c08_batch.validate("TraceC09", "TraceC09_run.cfg", _cfg(TRACE_CFG),
                              [{"id": t["id"], "init": t["init"], "events": t["events"]} for t in traces], timeout=timeout)


def selftest():
    """Binding demonstration: a recorded trace is accepted; corrupting one field of one protocol's view,
    dropping a row, or dropping a whole view makes TraceC09 reject it, naming the clause."""
    gm = {"kind": "dir", "sel": "/d", "dir": "/d", "eol": "\n", "open": False, "srv": dict(SERVER),
          "lines": ["hello world", "0Rel\tx", "1NoHost\t/abs\t\t7070", "hWeb\tURL:http://h.example/p", "0Thru\tx/extra",
                    "0Nul\tx{NUL}y"],
          "fixtures": [{"p": "/d/x", "k": "file"}, {"p": "/abs", "k": "dir"}]}
    global _W
    _init_worker()
    try:
        events, _ = run_case(gm)
    finally:
        if _W is not None:
            _W.close()
            _W = None
    init = {"gm": gm, "protos": PROTOS}
    variants = [{"id": "good", "init": init, "events": events}]

    def mut(name, f):
        ev = json.loads(json.dumps(events))
        f(ev)
        variants.append({"id": name, "init": init, "events": ev})

    mut("gopher-selector-corrupted", lambda ev: ev[0]["rows"][1].__setitem__("sel", "/x"))
    mut("http-port-corrupted", lambda ev: ev[2]["rows"][2].__setitem__("port", "7071"))
    mut("gemini-row-dropped", lambda ev: ev[4]["rows"].pop(0))
    mut("spartan-view-dropped", lambda ev: ev.pop())
    mut("info-became-link", lambda ev: ev[0]["rows"][0].__setitem__("type", "1"))
    tv = validate(variants)
    return {"accepted": tv["accepted"], "rejected": {r["trace"]["id"]: r["clause"] for r in tv["rejected"]}}


def _dbgkey(traces, rj):
    t = traces[rj["index"]]
    at = min(rj["at"] - 1, len(t["events"])) - 1
    return (t["case"]["cls"], rj["clause"], t["events"][at]["p"] if 0 <= at < len(t["events"]) else "?", t["case"]["gm"]["kind"])


def main(chk, replay=None):
    tier = chk.tier
    if replay:                       # exactly the stored case; the model is not re-run
        with open(replay) as fp:
            rp = json.load(fp)
        cases = [{"gm": dict(rp["case"]["gm"], fixtures=rp["case"]["gm"].get("fixtures", [])), "wf": rp["case"]["wf"],
                  "cls": rp["case"]["cls"]}]
        res = {"distinct": 0, "generated": 0, "cmd": "(replay: model not run)"}
        n_wf = int(bool(rp["case"]["wf"]))
    else:
        res, cases = cases_from_tlc(tier)
        if res["inv_violations"]:
            chk.model_violation("MC_C09", res["inv_violations"], res["out"][-3000:])
        n_wf = sum(1 for c in cases if c["wf"])
        if not cases or n_wf == 0:
            raise core.MachineryError("C09: TLC produced no well-formed gophermap (cases=%d)" % len(cases))
    handler_lists = ["default"] if tier == "quick" or replay else ["default", "full"]
    if replay and rp["case"].get("handlers"):
        handler_lists = [rp["case"]["handlers"]]
    traces = []
    for hl in handler_lists:
        results = replay_cases(cases, hl)
        for c, (events, extras) in zip(cases, results):
            traces.append({"id": "%s:%s" % (hl, case_key(c["gm"])), "init": {"gm": c["gm"], "protos": PROTOS},
                           "events": events, "case": c, "extras": extras, "handlers": hl})
    # machinery guards: the gophermap handler must have served the listings; every protocol must have been lexed
    served = sum(1 for t in traces for ex in t["extras"] if any("BuckGophermapHandler" in s for s in ex["served_by"]))
    lexed = {p: sum(1 for t in traces if t["case"]["wf"] for e in t["events"] if e["p"] == p and e["ok"]) for p in PROTOS}
    if served == 0 or (not replay and min(lexed.values()) == 0):
        raise core.MachineryError("C09: gophermap handler / lexers not exercised: served=%d lexed=%r" % (served, lexed))
    tv = validate(traces, timeout=TIMEOUTS[tier])
    for rj in tv["rejected"]:
        t = traces[rj["index"]]
        c = t["case"]
        at = min(rj["at"] - 1, len(t["events"])) - 1
        p = t["events"][at]["p"] if 0 <= at < len(t["events"]) else "?"
        key = "%s|%s|%s|%s" % (rj["clause"], p, t["handlers"], case_key(c["gm"]))
        chk.violation(key, rj["clause"],
                      {"gm": c["gm"], "wf": c["wf"], "cls": c["cls"], "proto": p, "handlers": t["handlers"]},
                      {"view": t["events"][at] if 0 <= at < len(t["events"]) else None,
                       "raw": t["extras"][at]["raw"] if 0 <= at < len(t["extras"]) else None,
                       "log": t["extras"][at]["log"] if 0 <= at < len(t["extras"]) else None})
    if os.environ.get("VERIF_DEBUG"):                 # development aid: rejections by (input class, clause, ..)
        import collections
        dbg = collections.Counter()
        for rj in tv["rejected"]:
            dbg[_dbgkey(traces, rj)] += 1
        print("DEBUG rejections:", sorted(dbg.items(), key=str))
    chk.note_drift(tv["drift"])
    wf_traces = [t for t in traces if t["case"]["wf"]]
    nontrivial = {t["id"] for t in wf_traces if any("\t" in l for l in t["case"]["gm"]["lines"])
                  and all(e["ok"] for e in t["events"])}
    if not replay and not nontrivial:
        raise core.MachineryError("C09: no gophermap with a link line was rendered in every protocol")
    by_cls = {}
    for c in cases:
        by_cls[c["cls"]] = by_cls.get(c["cls"], 0) + 1
    rnd = random.Random(chk.seed)
    samples = [{"gm": t["case"]["gm"], "gopher_view": t["events"][0]["rows"], "http_view": t["events"][2]["rows"]}
               for t in rnd.sample(wf_traces, min(2, len(wf_traces)))]
    cov = {
        "states": res["distinct"], "transitions": res["generated"], "exhaustive": True,
        "traces_validated_against_impl": tv["accepted"], "traces_rejected": len(tv["rejected"]),
        "evaluations": sum(len(t["events"]) for t in traces), "distinct_nontrivial": len(nontrivial),
        "rule": "cases = every gophermap of MC_C09 (all line shapes alone in every context x terminator, all pairs "
                "%sof shapes at depth 1, pairs in a *.gophermap file), each fetched in %s per handler list %s; evaluations = "
                "listings fetched and lexed; well-formed = %d of %d gophermaps; non-trivial = well-formed gophermap with at "
                "least one link line whose listing was lexed in all protocols"
                % ("and triples " if tier == "thorough" else "", PROTOS, handler_lists, n_wf, len(cases)),
        "samples": samples, "checker_cmd": res["cmd"] + " ; " + tv["cmd"], "trace_states": tv["states"], "trace_chunks_retried": tv["retried"],
        "well_formed": n_wf, "input_classes": by_cls, "listings_lexed_per_protocol": lexed, "quirks_modelled": QUIRKS,
        "bindings": ["B2 every TLC-evaluated gophermap replayed on disk, fetched in every protocol", "B3 TraceC09"],
    }
    return chk.finish(cov, [
        "alpha = per-protocol listing lexers (Gopher/Gopher+ menu lines, HTTP table rows, WML lines, gemtext lines) "
        "naming the link form (fields / local href / gopher:// URL / other URL); canonical comparison is in Gophermap.tla",
        "Gemini is fetched with the mock TLS request object of harness/world.py; gemini/spartan footers are switched off",
        "reference reading = DESIGN.md Appendix E.2; not compared: Gopher+ flag, MIME column, attributes from the file system",
    ])
