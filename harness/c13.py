"""C13 - generated HTML, WML and Gopher+ blocks cannot be subverted by data.

Design model: spec/Render.tla via MC_C13 (echo sites with context and transformation as coded;
combo = protocol x source of the data; every data string up to the tier's length over
< > & " ' CR LF a).  B2: every done-state of the model is one case: gamma plants the data where the
combo says it really comes from (request selector / query, file or directory name, HTML <title>,
mail Subject raw and RFC 2047, sidecar files, gophermap and link-file fields, text file lines),
wrapped in sentinels so that alpha can find the echoes, and fetches the page through the REAL
server; the same is done for the inert twin the model computed.  alpha: independent tokenizers
(html.parser.HTMLParser, expat for WML, a Gopher+ line classifier), the HTTP header list, the raw
echoes, and for twins the context of every echo.  B3: TraceC13 judges (BlocksUnforgeable,
SkeletonStable, HeadersServerChosen, EchoesEscaped) and compares the echoes with the model's
(design level, drift).  No property logic in this file."""
from __future__ import annotations

import base64
import html
import html.parser
import json
import os
import re
import urllib.parse
import xml.parsers.expat

from harness import core, envsub, tlc
from harness.tlaparse import iter_dump_states

MC_CFG = """SPECIFICATION Spec
CONSTANTS
  MaxLen = %(maxlen)d
  MaxEnc = %(maxenc)d
  ComboIds <- AllIds
INVARIANT Inert
INVARIANT TwinInert
INVARIANT ContentPrefixed
INVARIANT NoHeaderSite
INVARIANT IdsUnique
INVARIANT LiteralUnreachable
CHECK_DEADLOCK FALSE
"""
WITNESS_CFG = """SPECIFICATION Spec
CONSTANTS
  MaxLen = 1
  MaxEnc = 0
  ComboIds <- AllIds
INVARIANT W_RawSitesInert
CHECK_DEADLOCK FALSE
"""
TIERS = {
    "quick": dict(maxlen=3, maxenc=2, tls_srcs=(), lists=["default"]),
    "thorough": dict(maxlen=4, maxenc=3, tls_srcs=("sel404", "urlsel", "dirname", "filename", "gmapurl"), lists=["default"]),
}
S0, S1 = "zq", "qz"                      # sentinels around every planted segment
FIXED_MTIME = 1_000_000_000
SEPS = {"none": "", "lf": "\n", "crlf": "\r\n"}
LINE_SRC = {                              # line-based sources: (file, template per segment i with wrapped text W, seps)
    "abstract": ("dc/f.q1.abstract", lambda i, W: W),
    "keywords": ("dc/f.q1.keywords", lambda i, W: W),
    "ask": ("dc/f.q1.ask", lambda i, W: W),
    "3d": ("dc/f.q1.3d", lambda i, W: W),
    "textline": ("dc/t.q1", lambda i, W: W),
    "gmapname": ("dc/gophermap", lambda i, W: "0%s\t/dc/f.q1" % W),
    "gmapsel": ("dc/gophermap", lambda i, W: "0x%d\t%s" % (i, W)),
    "gmapnoname": ("dc/gophermap", lambda i, W: "0\t/dc/%s" % W),                 # empty display string
    "linknoname": ("dc/.Links", lambda i, W: "Numb=%d\nPath=/dc/%s\nType=0\n" % (i, W)),     # no Name= line
    "gmapurl": ("dc/gophermap", lambda i, W: "hx%d\tURL:http://h/%s" % (i, W)),
    "gmaphost": ("dc/gophermap", lambda i, W: "1x%d\t/s%d\t%s\t70" % (i, i, W)),
    "gmap7": ("dc/gophermap", lambda i, W: "7x%d\t/%s" % (i, W)),
    "gmap7host": ("dc/gophermap", lambda i, W: "7x%d\t/s%d\t%s\t70" % (i, i, W)),
    "linkname": ("dc/.Links", lambda i, W: "Name=%s\nNumb=%d\nPath=/dc/l%d\nType=0\n" % (W, i, i)),
    "linkurl": ("dc/.Links", lambda i, W: "Name=x%d\nNumb=%d\nPath=URL:http://h/%s\nType=h\n" % (i, i, W)),
    "linkhost": ("dc/.Links", lambda i, W: "Name=x%d\nNumb=%d\nPath=/s%d\nHost=%s\nPort=70\nType=1\n" % (i, i, i, W)),
}
MBOX_HEAD = "From alice@example.org Sat Jan  3 01:05:34 1996\nFrom: alice@example.org\nSubject: %s\n\nBody.\n\n"


# ---- gamma ------------------------------------------------------------------------------------------
def _enc(s: str) -> bytes:
    return s.encode("utf-8", "surrogateescape")


def _fillers(rel, pad):
    """`pad` ordinary links in front of the data, so that the data is link number pad+1 of the menu."""
    if rel.endswith("gophermap"):
        return "".join("0f%d\t/dc/f.q1\n" % j for j in range(1, pad + 1))
    return "".join("Name=f%02d\nNumb=%d\nPath=/dc/f.q1\nType=0\n\n" % (j, j, ) for j in range(1, pad + 1))


def _title_refs(W):
    """HTML text for W with CR / LF written as numeric character references (decimal and hexadecimal)."""
    out, n = [], 0
    for ch in W:
        if ch == "\r":
            out.append("&#13;")
        elif ch == "\n":
            n += 1
            out.append("&#10;" if n % 2 else "&#x0a;")
        else:
            out.append(html.escape(ch))
    return "".join(out)


TITLE_SHAPES = {
    "htmltitle": lambda W: "<html><head><title>%s</title></head><body>x</body></html>\n" % html.escape(W),
    "htmltitleref": lambda W: "<html><head><title>%s</title></head><body>x</body></html>\n" % _title_refs(W),
    "htmltitle2": lambda W: "<html><head><title>t1</title><title>%s\n</head><body>x</body></html>\n" % _title_refs(W),
    "htmltitleafter": lambda W: "<html><head><title>t1</title>%s\n</head><body>x</body></html>\n" % _title_refs(W),
    "htmltitleopen": lambda W: "<html><head><title>%s\n</head><body>x</body></html>\n" % _title_refs(W),
}


def _lines_content(d, seps, tmpl, first=1):
    out, seg, i = [], "", first
    for ch in d:
        if ch in seps:
            out.append(tmpl(i, S0 + seg + S1))
            out.append(ch)
            seg, i = "", i + 1
        else:
            seg += ch
    out.append(tmpl(i, S0 + seg + S1))
    return "".join(out) + "\n"


def plant(w, combo, d):
    """Build the document root for (combo, d); returns (request bytes, tls)."""
    proto, src, seps = combo["proto"], combo["src"], SEPS[combo["seps"]]
    W = S0 + d + S1
    pfx = combo.get("pfx", "")
    w.clear()
    path, query, gp = "/dc", "", None
    if src != "dirname" and not pfx:
        w.mkdir("dc")
        w.write("dc/f.q1", b"hello\n")
    if src == "sel404":
        path = "/" + W + "-absent"
    elif src == "query":
        path, query = "/nofile-absent", "?searchrequest=" + urllib.parse.quote(W, safe="")
    elif src == "urlsel":
        path = "/URL:http://h/" + W
    elif src == "dirname":                       # at the document root: the selector is "/" + prefix + name
        w.mkdir(pfx + W)
        w.write(pfx + W + "/f.q1", b"hello\n")
        path, gp = "/" + pfx + W, "/\t$"
    elif src == "filename" and pfx:              # reserved prefix: the file sits at the root so that the selector starts with it
        w.write(pfx + W + ".q1", b"hello\n")
        path, gp = "/", "/\t$"
    elif src == "filename":
        w.write("dc/" + W + ".q1", b"hello\n")
    elif src in TITLE_SHAPES:
        w.write("dc/t.html", _enc(TITLE_SHAPES[src](W)))
    elif src == "subject":
        w.write("dc/m.mbox", _enc(MBOX_HEAD % W.replace("\r", "\r ").replace("\n", "\n ")))
        path, gp = "/dc/m.mbox", "/dc/m.mbox\t$"
    elif src == "subject2047":
        w.write("dc/m.mbox", _enc(MBOX_HEAD % ("=?utf-8?b?%s?=" % base64.b64encode(_enc(W)).decode())))
        path, gp = "/dc/m.mbox", "/dc/m.mbox\t$"
    elif src in LINE_SRC:
        rel, tmpl = LINE_SRC[src]
        pad = combo.get("pad", 0)
        w.write(rel, _enc(_fillers(rel, pad) + _lines_content(d, seps, tmpl, first=pad + 1)))
        if src == "textline":
            path = "/dc/t.q1"
        if src in ("abstract", "keywords", "ask", "3d"):
            gp = "/dc/f.q1\t!"
    else:
        raise core.MachineryError("C13: unknown source %r" % src)
    for dirpath, _dirs, files in os.walk(w.root, topdown=False):
        for n in files:
            os.utime(os.path.join(dirpath, n), (FIXED_MTIME, FIXED_MTIME))
        os.utime(dirpath, (FIXED_MTIME, FIXED_MTIME))
    if proto == "gplus":
        return _enc((gp or "/dc\t$") + "\r\n")
    prefix = "/wap" if proto == "wap" else ""
    return _enc("GET %s%s%s HTTP/1.0\r\nHost: localhost\r\n\r\n" % (prefix, urllib.parse.quote(_enc(path), safe="/"), query))


# ---- alpha: independent tokenizers ------------------------------------------------------------------
class _HtmlSkel(html.parser.HTMLParser):
    def __init__(self):
        super().__init__(convert_charrefs=True)
        self.toks = []

    def handle_starttag(self, tag, attrs):
        self.toks.append("<" + " ".join([tag] + [k for k, _ in attrs]))

    def handle_startendtag(self, tag, attrs):
        self.toks.append("<" + " ".join([tag] + [k for k, _ in attrs]) + " /")

    def handle_endtag(self, tag):
        self.toks.append("</" + tag)

    def handle_comment(self, data):
        self.toks.append("<!--")

    def handle_decl(self, decl):
        self.toks.append("<!" + decl.split(None, 1)[0].lower() if decl.split() else "<!")

    def handle_pi(self, data):
        self.toks.append("<?")

    def unknown_decl(self, data):
        self.toks.append("<![")


def html_skeleton(body: str):
    p = _HtmlSkel()
    try:
        p.feed(body)
        p.close()
    except Exception as e:                         # the tokenizer itself gave up: part of the skeleton
        p.toks.append("!tokenizer:" + type(e).__name__)
    return p.toks


def wml_skeleton(body: bytes):
    toks = []
    p = xml.parsers.expat.ParserCreate()
    p.ordered_attributes = True
    p.StartElementHandler = lambda name, attrs: toks.append("<" + " ".join([name] + attrs[0::2]))
    p.EndElementHandler = lambda name: toks.append("</" + name)
    try:
        p.Parse(body, True)
    except xml.parsers.expat.ExpatError:
        toks.append("!not-well-formed")
    return toks


_ECHO = re.compile(re.escape(S0) + "(.*?)" + re.escape(S1), re.S)
_NL = re.compile(r"\r\n|\r|\n")


def _ctx_at(body: str, pos: int) -> str:
    lt, gt = body.rfind("<", 0, pos), body.rfind(">", 0, pos)
    if lt > gt:
        return "dqattr" if body.count('"', lt, pos) % 2 == 1 else "tag"
    return "text"


def observe(out: bytes, proto: str) -> dict:
    """Response bytes -> abstract page.  ctxs is meaningful for inert twins only (used as the oracle)."""
    if proto == "gplus":
        text = out.decode("utf-8", "replace")
        first, sep, rest = text.partition("\r\n")
        if not sep or not (first.startswith("+") or first.startswith("--")):
            return {"kind": "none", "hdrs": [], "skel": [], "echoes": [], "ctxs": []}
        skel = []
        lines = re.split(r"\r?\n", rest)
        if lines and lines[-1] == "":
            lines = lines[:-1]
        for ln in lines:
            if ln.startswith("+") and ":" in ln:
                skel.append("h:" + ln.split(":", 1)[0])
            elif ln.startswith(" "):
                skel.append("c")
            else:
                skel.append("o")
        echoes = _ECHO.findall(rest)
        return {"kind": "gplus" if first.startswith("+") else "gplus-error", "hdrs": [first], "skel": skel,
                "echoes": echoes, "ctxs": ["gline"] * len(echoes)}
    head, sep, body = out.partition(b"\r\n\r\n")
    if not sep or not head.startswith(b"HTTP/"):
        return {"kind": "none", "hdrs": [], "skel": [], "echoes": [], "ctxs": []}
    htext = head.decode("utf-8", "replace")
    hdrs = _NL.split(htext)
    ctype = ""
    for h in hdrs[1:]:
        k, _, v = h.partition(":")
        if k.strip().lower() == "content-type":
            ctype = v.strip().lower()
    btext = body.decode("utf-8", "replace")
    if ctype.startswith("text/html"):
        kind, skel = "html", html_skeleton(btext)
    elif ctype.startswith("text/vnd.wap.wml"):
        kind, skel = "wml", wml_skeleton(body)
    else:
        kind, skel = "other", []
    echoes = _ECHO.findall(htext) + _ECHO.findall(btext)
    ctxs = ["header"] * len(_ECHO.findall(htext)) + [_ctx_at(btext, m.start()) for m in _ECHO.finditer(btext)]
    return {"kind": kind, "hdrs": hdrs, "skel": skel, "echoes": echoes, "ctxs": ctxs}


# ---- one case on the real server ----------------------------------------------------------------------
_W = {}
_TWINS = {}
COMBOS = {}


def _world(hl):
    """hl = handler list name, optionally followed by '+noextstrip' (UMN extstrip = none: the only shipped-handler
    configuration in which an HTML <title> becomes a listing name; with extstrip the file name replaces it)."""
    from harness.world import World
    if hl not in _W:
        name, _, opt = hl.partition("+")
        ov = {("handlers.UMN.UMNDirHandler", "extstrip"): "none"} if opt == "noextstrip" else None
        _W[hl] = World(handlers=name, overrides=ov)
    return _W[hl]


def list_for(src, hl):
    return hl + "+noextstrip" if src.startswith("htmltitle") else hl


def fetch(hl, cb, d, tls):
    combo = COMBOS[cb]
    w = _world(hl)
    req = plant(w, combo, d)
    r = w.request(req, tls=tls)
    return r, observe(r.out, combo["proto"])


def twin_of(hl, cb, d, tls):
    k = (hl, cb, d, tls)
    if k not in _TWINS:
        _r, o = fetch(hl, cb, d, tls)
        _TWINS[k] = {"kind": o["kind"], "hdrs": o["hdrs"], "skel": o["skel"], "ctxs": o["ctxs"]}
    return _TWINS[k]


def run_case(job):
    hl, cb, d, tls = job["list"], job["cb"], job["d"], job["tls"]
    r, o = fetch(hl, cb, d, tls)
    ev = {"ev": "page", "kind": o["kind"], "hdrs": o["hdrs"], "skel": o["skel"], "echoes": o["echoes"],
          "twins": [twin_of(hl, t, job["twin"], tls) for t in job["twins"]]}
    return {"init": {"cb": cb, "d": d}, "events": [ev],
            "raw": {"out": r.out[:4000].decode("utf-8", "replace"), "log": r.log[-3:], "escaped": r.escaped}}


def _names(d):
    nm = {"<": "LT", ">": "GT", "&": "AMP", '"': "DQ", "'": "SQ", "\r": "CR", "\n": "LF", "a": "a"}
    out = []
    for ch in d:                                    # metacharacters by name, runs of other characters as they are
        if ch in nm and ch != "a":
            out.append(nm[ch])
        elif out and out[-1][:1] in "%&#;0123456789abcdefghijklmnopqrstuvwxyzABCDEFGHIJKLMNOPQRSTUVWXYZ" and out[-1] not in nm.values():
            out[-1] += ch
        else:
            out.append(ch)
    return ".".join(out) or "empty"


def case_id(job):
    return "%s%s|list=%s|d=%s" % (job["cb"], "/tls" if job["tls"] else "", job["list"], _names(job["d"]))


def abstract_case(job):
    c = COMBOS[job["cb"]]
    return {"cb": job["cb"], "d": job["d"], "dname": _names(job["d"]), "proto": c["proto"], "src": c["src"], "pfx": c.get("pfx", ""), "pad": c.get("pad", 0), "tls": job["tls"],
            "list": job["list"], "twin": job["twin"], "twins": job["twins"], "rawsite": job["rawsite"],
            "has_lf": "\n" in job["d"], "has_dq": '"' in job["d"]}


def load_combos():
    """The combo table is read from the model (spec/Render.tla) through TLC, not duplicated here."""
    text = ("---- MODULE MC_C13_combos ----\nEXTENDS Render\nVARIABLE x\nInit == x = AllCombos\nNext == UNCHANGED x\n"
            "Spec == Init /\\ [][Next]_x\n====\n")
    res = tlc.check_model("MC_C13_combos", "MC_C13_combos.cfg", dump=True, timeout=300,
                          extra_files={"MC_C13_combos.tla": text, "MC_C13_combos.cfg": "SPECIFICATION Spec\nCHECK_DEADLOCK FALSE\n"})
    try:
        for st in iter_dump_states(res["dump"]):
            for c in st["x"]:
                c = dict(c)
                COMBOS[c["id"]] = c
    finally:
        tlc.cleanup(res)
    if len(COMBOS) < 10:
        raise core.MachineryError("C13: combo table not read from the model")


def _job(job):
    return run_case(job)


def _run_jobs(jobs):
    from harness import cachelib
    from harness import world as _wm
    results = [None] * len(jobs)
    for hl in sorted({j["list"] for j in jobs}):
        idx = [i for i, j in enumerate(jobs) if j["list"] == hl]
        part = [jobs[i] for i in idx]
        outs = [run_case(p) for p in part] if len(part) <= 4 else cachelib.pool_map(_job, part, None)
        for i, o in zip(idx, outs):
            results[i] = o
        for w in _W.values():
            w.close()
        _W.clear()
        _TWINS.clear()
        _wm.reset_lazies()
    return results


def _round_robin(rejected, group):
    """Order rejections so that every (clause, combo) group gets its first members reported (and their replay
    files written) before any group's later members: core keeps replay files for the first 100 only."""
    seen, keyed = {}, []
    for rj in rejected:
        g = group(rj)
        seen[g] = seen.get(g, 0) + 1
        keyed.append((seen[g], rj["index"], rj))
    return [rj for _n, _i, rj in sorted(keyed, key=lambda t: (t[0], t[1]))]


def main(chk, replay=None):
    t = TIERS[chk.tier]
    load_combos()
    res = tlc.check_model("MC_C13", "MC_C13_run.cfg", extra_files={"MC_C13_run.cfg": MC_CFG % t}, dump=True, timeout=2400)
    jobs = []
    try:
        if res["inv_violations"]:
            chk.model_violation("MC_C13", res["inv_violations"], res["out"][-3000:])
        for st in iter_dump_states(res["dump"], wanted={"cb", "d", "st", "out"}):
            if st["st"] != "done":
                continue
            o = st["out"]
            for hl in t["lists"]:
                c = COMBOS[st["cb"]]
                base = {"cb": st["cb"], "d": st["d"], "twin": o["twin"], "twins": list(o["twins"]), "rawsite": o["rawsite"],
                        "list": list_for(c["src"], hl), "tls": False}
                jobs.append(base)
                if c["proto"] == "http" and c["src"] in t["tls_srcs"]:
                    jobs.append(dict(base, tls=True))
    finally:
        tlc.cleanup(res)
    # the named deviations must be real in the model too (witness: expected to be violated)
    wit = tlc.run_tlc("MC_C13", "MC_C13_wit.cfg", extra_files={"MC_C13_wit.cfg": WITNESS_CFG}, timeout=600)
    if "W_RawSitesInert" not in wit["inv_violations"]:
        chk.notes.append("witness W_RawSitesInert not violated: the model has no raw site any more")
    jobs.sort(key=case_id)
    if replay:
        with open(replay) as fp:
            rc = json.load(fp)["case"]
        jobs = [{"cb": rc["cb"], "d": rc["d"], "twin": rc["twin"], "twins": rc["twins"], "rawsite": rc.get("rawsite", ""),
                 "list": rc["list"], "tls": rc["tls"]}]
    if not jobs:
        raise core.MachineryError("C13: TLC produced no cases")
    results = _run_jobs(jobs)
    traces = [{"id": case_id(j), "init": r["init"], "events": r["events"]} for j, r in zip(jobs, results)]
    tv = tlc.validate_traces("TraceC13", "TraceC13.cfg", traces, timeout=3000, chunk=3000)
    for rj in _round_robin(tv["rejected"], lambda rj: (rj["clause"], jobs[rj["index"]]["cb"])):
        j, r = jobs[rj["index"]], results[rj["index"]]
        chk.violation("%s|%s" % (rj["clause"], case_id(j)), rj["clause"], abstract_case(j),
                      {"event": {k: v for k, v in r["events"][0].items()}, "raw": r["raw"]})
    chk.note_drift(tv["drift"])
    by_combo = {}
    for rj in tv["rejected"]:
        k = "%s %s" % (rj["clause"], jobs[rj["index"]]["cb"])
        by_combo[k] = by_combo.get(k, 0) + 1
    drift_by_combo = {}
    for dr in tv["drift"]:
        k = "%s: %s" % (jobs[dr["index"]]["cb"], dr["what"])
        drift_by_combo[k] = drift_by_combo.get(k, 0) + 1
    # measured coverage / vacuity guards
    kinds = {}
    echo_cases = 0
    for r in results:
        e = r["events"][0]
        kinds[e["kind"]] = kinds.get(e["kind"], 0) + 1
        echo_cases += 1 if e["echoes"] else 0
    nontrivial = len({json.dumps([r["events"][0]["kind"], r["events"][0]["skel"], r["events"][0]["echoes"]]) for r in results
                      if r["events"][0]["echoes"]})
    if not replay and (echo_cases < len(results) // 2 or not all(kinds.get(k) for k in ("html", "wml", "gplus"))):
        raise core.MachineryError("C13 vacuous: pages by kind %s, cases with echoes %d of %d" % (kinds, echo_cases, len(results)))
    cov = {
        "states": res["distinct"], "transitions": res["generated"], "exhaustive": True,
        "traces_validated_against_impl": tv["accepted"], "traces_rejected": len(tv["rejected"]),
        "evaluations": len(traces), "distinct_nontrivial": nontrivial,
        "rule": "one case per done-state of MC_C13 (%d combos x every data string of length <= %d over < > & \" ' CR LF a, and of <= %d tokens over the "
                "encoded forms %%3C %%22 %%26 %%0A %%253C %%2522 &lt; &quot; &#60; and a)%s; "
                "non-trivial = distinct (page kind, skeleton, raw echoes) among the cases whose data was echoed at all "
                "(%d cases); pages by kind: %s" % (len(COMBOS), t["maxlen"], t["maxenc"], " + TLS variants" if t["tls_srcs"] else "",
                                                   echo_cases, kinds),
        "samples": [{"id": tr["id"], "events": tr["events"]} for tr in traces[:1] + traces[len(traces) // 2:len(traces) // 2 + 1]],
        "checker_cmd": res["cmd"] + " ; " + tv["cmd"], "trace_states": tv["states"],
        "rejections_by_clause_and_combo": by_combo, "drift_by_combo": drift_by_combo,
        "witness_raw_sites_violated": "W_RawSitesInert" in wit["inv_violations"],
        "bindings": ["B2 every done-state of MC_C13 replayed on the real server (data planted at its real source)",
                     "B3 TraceC13 (oracle for structure = implementation on inert data of the same shape)"],
    }
    return chk.finish(cov, [
        "alpha: html.parser.HTMLParser (HTML), expat (WML, strict), line classifier (Gopher+; lines split at CRLF or LF); "
        "echoes are found by the sentinels zq..qz; their contexts are read off the inert twin's page",
        "data alphabet < > & \" ' CR LF a; other characters with meaning in WML ($) or URLs (%) are not enumerated",
        "file and directory names containing CR/LF are created on the real file system (tmpfs)",
    ])


def selftest():
    """Binding demonstration: a recorded trace is accepted; with one recorded field corrupted (an attribute added to
    the skeleton, an unescaped echo, an extra header line) or the page event dropped, TraceC13 rejects it."""
    import copy
    load_combos()
    job = {"cb": "http/filename", "d": "<\"", "twin": "aa", "twins": ["http/filename"], "rawsite": "", "list": "default", "tls": False}
    r = run_case(job)
    good = {"id": "good", "init": r["init"], "events": r["events"]}
    b1 = copy.deepcopy(good)
    b1["id"] = "skeleton"
    i = [k for k, tok in enumerate(b1["events"][0]["skel"]) if tok.startswith("<a ")][-1]
    b1["events"][0]["skel"][i] += " onclick"
    b2 = copy.deepcopy(good)
    b2["id"] = "echo"
    b2["events"][0]["echoes"][-1] = "<\""
    b3 = copy.deepcopy(good)
    b3["id"] = "header"
    b3["events"][0]["hdrs"].append("Set-Cookie: x")
    b4 = copy.deepcopy(good)
    b4["id"] = "dropped"
    b4["events"] = []
    tv = tlc.validate_traces("TraceC13", "TraceC13.cfg", [good, b1, b2, b3, b4])
    got = {rj["trace"]["id"]: rj["clause"] for rj in tv["rejected"]}
    print("selftest accepted=%d rejected=%s drift=%s" % (tv["accepted"], got, tv["drift"]))
    assert tv["accepted"] == 1 and got == {"skeleton": "SkeletonStable", "echo": "EchoesEscaped", "header": "HeadersServerChosen",
                                           "dropped": "unmatched"}, got
    return 0
