"""C07 - a listing is exactly the visible entries, once each, in a stable order.

Design model: spec/Dir.tla via MC_C07 (filter with the ignore pattern as DATA on selectorbase/name, UMN
diversion of dot-files during enumeration, reading the link files, sort, resolve, merge link files, entrycmp
sort; every permutation of the OS enumeration order).  B1: the shipped ignorepatt, the documented buck-only pattern
and the handler list are read from the tree and become TLC constants; the probe names are derived from
the pattern's alternatives.  B2: every initial state of MC_C07 (GenSpec dump) is built as a real tree and
listed through the real server once per permutation (substituted os.listdir), then every child is
requested by exact selector.  B3: one trace per directory, judged by TLC against TraceC07 (Exact,
OrderFree - the implementation against itself across permutations -, StillRetrievable).
No property logic in this file."""
from __future__ import annotations

import json

from harness import core, tlc
from harness import c12_dirlib as dl
from harness.tlaparse import iter_dump_states

MC_CFG = """SPECIFICATION %(spec)s
CONSTANTS
  IgnorePatterns <- DataIgnorePatterns
  EaExts <- DataEaExts
  SkipUnservable = TRUE
  SortedLinks = %(sorted)s
  DotRuleAll = %(dotrule)s
  Suites <- %(suites)s
%(props)s
CHECK_DEADLOCK FALSE
"""
TR_CFG = """SPECIFICATION TSpec
CONSTANTS
  IgnorePatterns <- DataIgnorePatterns
  EaExts <- DataEaExts
  SkipUnservable = TRUE
  SortedLinks = TRUE
  DotRuleAll = %(dotrule)s
CONSTRAINT Record
POSTCONDITION Post
CHECK_DEADLOCK FALSE
"""
PROPS = "INVARIANT Exact\nINVARIANT OrderFree\nINVARIANT StepsAreFolds\nINVARIANT WellFormed"
DOTRULE = "TRUE"          # literal reading of the property text (lead's decision); FALSE = documented configuration semantics
TIERS = {"quick": dict(suites="SuitesQuick"), "thorough": dict(suites="SuitesThorough")}
ASSUMPTIONS = [
    "os.listdir substituted process-wide before pygopherd is imported: it hands out the permutation TLC chose; os.stat/open "
    "substituted only to record which children are inspected",
    "directory cache switched off (cachetime 0, cache file removed before every listing)",
    "listings requested through plain Gopher (the per-protocol views are C06's subject); lexer = harness/c12_dirlib.py",
    "regex subset of the ignore pattern: alternation of literals with `.`, escaped characters, trailing `$`; anything else "
    "in conf/pygopherd.conf is a machinery failure; file names contain no newline",
    "DotRuleAll = TRUE: dot-files are never visible whatever the handler (literal reading); metadata hiding (.cap, link "
    "blocks with Type=X) is UMN semantics; a regular file `gophermap` under the default list (Bucktooth takes the directory "
    "over: not a listing of the directory handlers) is excluded from the directories and named in MC_C07",
]

_DW = None
_PATTERNS = None


def _cfg(t, spec="Spec", sorted_="TRUE", props=PROPS, suites=None):
    return MC_CFG % dict(spec=spec, sorted=sorted_, props=props, suites=suites or t["suites"], dotrule=DOTRULE)


def _world(lst, ign):
    global _DW
    if _DW is None or (_DW.lst, _DW.ign) != (lst, ign):
        if _DW is not None:
            _DW.close()
        _DW = dl.DirWorld(lst, _PATTERNS[ign])
        _DW.ign = ign
    return _DW


def _init_worker():
    global _DW
    _DW = None


def _job(job):
    case, orders, mode = job
    dw = _world(case["list"], case["ign"])
    dw.build(case)
    events, extras = [], []
    for o in orders:
        ev, ex = dw.listing("G", o)
        events += ev
        extras.append({"order": o, "raw": ex["raw"], "log": ex["log"], "escaped": ex["escaped"]})
    for k in case["kids"]:
        ev, ex = dw.fetch(k["name"])
        events.append(ev)
        extras.append({"fetch": k["name"], "raw": ex["raw"], "log": ex["log"]})
    events.append({"ev": "end", "mode": mode})
    return events, extras


def cases_from_tlc(t, data_text, lists):
    res = tlc.check_model("MC_C07", "Gen_C07_run.cfg", dump=True, timeout=1500,
                          extra_files={"Gen_C07_run.cfg": _cfg(t, spec="GenSpec", props=""), "MC_C07_data.tla": data_text})
    cases = []
    try:
        for st in iter_dump_states(res["dump"], wanted={"d", "pc"}):
            if st["pc"] != "start":
                continue
            c = dl.thaw_dir(st["d"])
            c["list"] = next(k for k in ("default", "dir") if (lists[k]["handler"], lists[k]["mbox"], lists[k]["html"])
                             == (c["handler"], c["sniff"]["mbox"], c["sniff"]["html"]))
            cases.append(c)
    finally:
        tlc.cleanup(res)
    cases.sort(key=lambda c: (c["list"], c["ign"], c["sb"], dl.kids_compact(c)))
    return cases, res["distinct"]


def _tid(c):
    return "%s|%s|%s|%s" % (c["sb"] or "/", c["list"], c["ign"], dl.kids_compact(c))


def selftest(traces, extra):
    """Binding demonstration: corrupted copies of accepted traces must be rejected by TraceC07."""
    good = [t for t in traces if t["ok"] and len([e for e in t["events"] if e["ev"] == "response"]) >= 2
            and len(t["events"][2]["listing"]) >= 2
            and any(e["ev"] == "fetch" for e in t["events"])][:3]
    if not good:
        return {"ran": False}
    bad = []
    for t in good:
        def cp(tag):
            return json.loads(json.dumps({"id": t["id"] + tag, "init": t["init"], "events": t["events"]}))
        a = cp("#swapped")                  # one permutation answers in another order
        resp = [i for i, e in enumerate(a["events"]) if e["ev"] == "response"]
        a["events"][resp[1]]["listing"] = a["events"][resp[1]]["listing"][::-1]
        b = cp("#dropped-listing")          # one permutation was never driven
        del b["events"][resp[-1] - 2:resp[-1] + 1]
        c = cp("#extra-entry")              # a listed entry that is not in the directory
        for i in resp:
            c["events"][i]["listing"] = c["events"][i]["listing"] + [{"sel": t["init"]["d"]["sb"] + "/ghost-entry", "title": "ghost"}]
        d = cp("#no-fetch")                 # hidden children never probed (only meaningful if something is hidden)
        d["events"] = [e for e in d["events"] if e["ev"] != "fetch"]
        e_ = cp("#dup")
        kidsels = {t["init"]["d"]["sb"] + "/" + k["name"] for k in t["init"]["d"]["kids"]}
        for i in resp:
            e_["events"][i]["listing"] = e_["events"][i]["listing"] + [x for x in e_["events"][i]["listing"] if x["sel"] in kidsels][:1]
        bad += [a, b, c, e_] + ([d] if t["hidden"] else [])
    tv = dl.validate_parallel("TraceC07", "TraceC07_run.cfg", bad, extra_files=extra)
    if tv["accepted"] != 0:
        rej = {r["trace"]["id"] for r in tv["rejected"]}
        raise core.MachineryError("C07 selftest: TraceC07 accepted %d corrupted traces: %s"
                                  % (tv["accepted"], [b_["id"] for b_ in bad if b_["id"] not in rej]))
    return {"ran": True, "corrupted": len(bad), "rejected": len(tv["rejected"]),
            "clauses": sorted({r["clause"] for r in tv["rejected"]})}


def main(chk, replay=None):
    global _PATTERNS
    t = TIERS[chk.tier]
    conf = dl.read_conf()
    _PATTERNS = {"shipped": conf["shipped"], "buck": conf["buck"]}
    if not conf["buck"]:
        raise core.MachineryError("C07: the documented buck-only ignorepatt comment was not found in conf/pygopherd.conf")
    data_text, _pats, lists = dl.data_module(conf)
    extra = {"MC_C07_data.tla": data_text, "TraceC07_run.cfg": TR_CFG % dict(dotrule=DOTRULE)}
    # 1. design model of the code (link files read in name order): Exact, OrderFree on every permutation of every directory;
    #    witness: with link files read in enumeration order (the tree before 5b6ecc2) OrderFree must FAIL in the model
    res = tlc.check_model("MC_C07", "MC_C07_run.cfg", coverage=True, timeout=3000,
                          extra_files=dict(extra, **{"MC_C07_run.cfg": _cfg(t)}))
    if res["inv_violations"]:
        chk.model_violation("MC_C07", res["inv_violations"], res["out"][-3000:])
    wit = tlc.run_tlc("MC_C07", "MC_C07_wit.cfg", timeout=1500, extra_files=dict(extra, **{
        "MC_C07_wit.cfg": _cfg(t, sorted_="FALSE", props="INVARIANT OrderFree", suites="SuitesQuick")}))
    wit2 = tlc.run_tlc("MC_C07", "MC_C07_wit2.cfg", timeout=1500, extra_files=dict(extra, **{
        "MC_C07_wit2.cfg": _cfg(t, props="INVARIANT W_NothingHidden", suites="SuitesQuick")}))
    if "OrderFree" not in wit["inv_violations"] or "W_NothingHidden" not in wit2["inv_violations"]:
        raise core.MachineryError("C07: vacuity witnesses not reached:\n%s" % (wit["out"][-1500:] + wit2["out"][-1500:]))
    # 2. cases from TLC
    if replay:
        with open(replay) as fp:
            rp = json.load(fp)
        cases, gen_states = [rp["case"]["d"]], 0
    else:
        cases, gen_states = cases_from_tlc(t, data_text, lists)
    # 3. the real server: every permutation of every directory, then every child by exact selector
    jobs = [(c, dl.permutations([k["name"] for k in c["kids"]]), "all") for c in cases]
    dl.new_root_base()
    try:
        results = dl.pool_map(_job, jobs, _init_worker)
    finally:
        dl.drop_root_base()
    traces = []
    for (c, orders, _m), (events, extras) in zip(jobs, results):
        d = {k: c[k] for k in ("sb", "handler", "ign", "sniff", "kids")}
        traces.append({"id": _tid(c), "init": {"d": d}, "events": events, "extras": extras, "norders": len(orders),
                       "case": {"d": c, "handler": c["handler"], "list": c["list"], "ign": c["ign"], "sel": c["sb"] or "/"}})
    enums = sum(1 for tr in traces for e in tr["events"] if e["ev"] == "enum")
    # vacuity guard: wherever every listing request was answered, every permutation must have been handed out by the
    # substituted os.listdir (a request that dies before it enumerates is an observation for TLC, not a machinery matter)
    short = []
    for tr in traces:
        resp = [e for e in tr["events"] if e["ev"] == "response"]
        if resp and all(e["status"] == "ok" for e in resp):
            handed = len({tuple(e["order"]) for e in tr["events"] if e["ev"] == "enum"})
            if handed < tr["norders"]:
                short.append((tr["id"], handed, tr["norders"]))
    # (the guard on `short` only gates a PASS, below: code that stops enumerating - a listing kept between requests - is
    # for TLC to judge first; a run that is rejected by a property clause is a verdict, not a machinery failure)
    # 4. TLC judges every trace
    tv = dl.validate_parallel("TraceC07", "TraceC07_run.cfg",
                             [{"id": tr["id"], "init": tr["init"], "events": tr["events"]} for tr in traces], extra_files=extra)
    rejected = set()
    classes = {}
    for rj in tv["rejected"]:
        tr = traces[rj["index"]]
        rejected.add(rj["index"])
        ev = tr["events"][rj["at"] - 2] if 0 <= rj["at"] - 2 < len(tr["events"]) else {}
        key = "%s|%s" % (rj["clause"], tr["id"])
        kcl = "%s|%s|%s" % (rj["clause"], tr["case"]["list"], tr["case"]["ign"])
        classes[kcl] = classes.get(kcl, 0) + 1
        chk.violation(key, rj["clause"], tr["case"],
                      {"rejected_at_event": rj["at"], "event": ev, "first_listing": next((e for e in tr["events"] if e["ev"] == "response"), None),
                       "enum_of_rejected": tr["events"][rj["at"] - 4] if rj["at"] >= 4 else None})
    chk.note_drift([x for x in tv["drift"] if x["index"] not in rejected])
    if not replay and not tv["rejected"] and (enums == 0 or short):
        raise core.MachineryError("C07: the substituted os.listdir did not hand out every permutation: %s" % (short[:3] or "never called"))
    for i, tr in enumerate(traces):
        tr["ok"] = i not in rejected
        lst = next((e["listing"] for e in tr["events"] if e["ev"] == "response"), [])
        listed = {x["sel"] for x in lst}
        tr["hidden"] = [k["name"] for k in tr["case"]["d"]["kids"] if tr["case"]["d"]["sb"] + "/" + k["name"] not in listed]
    st = selftest(traces, extra) if not replay else {"ran": False}
    # measured coverage: non-trivial = a directory in which something was kept out of the listing AND something listed
    nontrivial = len({tr["id"] for tr in traces if tr["hidden"] and len(tr["hidden"]) < len(tr["case"]["d"]["kids"])})
    if not replay and nontrivial == 0:
        raise core.MachineryError("C07: no directory with both hidden and listed entries was exercised")
    cov = {
        "states": res["distinct"], "transitions": res["generated"], "exhaustive": True,
        "traces_validated_against_impl": tv["accepted"], "traces_rejected": len(tv["rejected"]),
        "evaluations": enums, "distinct_nontrivial": nontrivial,
        "rule": "cases = every initial state of MC_C07 (suites %s: base entries + probe names derived from the shipped ignore "
                "pattern, metadata directories); each directory is listed once per permutation of its names (evaluations = "
                "listings) and every child fetched by exact selector; non-trivial = distinct directory in which at least one "
                "child was kept out of the listing and at least one was listed" % t["suites"],
        "samples": [{"id": tr["id"], "events": tr["events"][:3] + tr["events"][-3:]} for tr in traces[:2]],
        "checker_cmd": res["cmd"] + " ; " + tv["cmd"],
        "directories": len(traces), "listings": enums, "generation_states": gen_states, "trace_states": tv["states"],
        "rejection_classes": classes, "witness_enum_order_model_violates": wit["inv_violations"], "selftest": st,
        "probe_names": len(dl.probe_names(_pats)), "patterns": {k: len(v) for k, v in _pats.items()},
        "bindings": ["B1 ignorepatt (shipped + documented buck-only) and handler list from conf", "B2 every TLC initial state "
                     "built, every permutation listed", "B3 TraceC07"],
    }
    return chk.finish(cov, ASSUMPTIONS)
