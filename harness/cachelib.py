"""Shared gamma/alpha for the directory-cache properties (C10, C11, C14): drives the real server
along a behaviour of spec/Cache.tla and abstracts what it observes.  No judgement here."""
from __future__ import annotations

import html
import os
import re

from harness import envsub
from harness.world import World

BASE = 1_000_000_000          # virtual epoch (whole seconds): tick k  <->  BASE + k/2 seconds
DIRSEL = "/d"
REQ = {"G": b"/d\r\n", "GP": b"/d\t+\r\n", "GD": b"/d\t$\r\n", "H": b"GET /d HTTP/1.0\r\n\r\n",
       "HH": b"HEAD /d HTTP/1.0\r\n\r\n"}


class CacheWorld:
    def __init__(self, handlers="default"):
        self.w = World(handlers=handlers)
        self.umn = handlers == "default"       # UMN.UMNDirHandler serves directories: link files are merged
        self.cachefile = self.w.config.get("handlers.dir.DirHandler", "cachefile")
        self.dpath = self.w.path("d")
        self.cpath = os.path.join(self.dpath, self.cachefile)
        self.listed = 0
        envsub.ENV.listdir_order = self._on_listdir

    def _on_listdir(self, path, names):
        if os.path.realpath(path) == os.path.realpath(self.dpath):
            self.listed += 1
        return names

    # ---- gamma ----------------------------------------------------------------------------
    def reset(self, init, filler=0):
        self.filler = filler
        self.w.clear()
        self.w.mkdir("d/s")
        self.w.write("d/s/inner.txt", b"inner\n")
        self.T = init["T"]
        self.w.config.set("handlers.dir.DirHandler", "cachetime", str(self.T // 2))
        self.clock = 0
        envsub.ENV.clock = BASE
        for n, v in init["dir"].items():
            if v != "absent":
                self._put(n, v)
        for i in range(filler):          # fixed extra entries (bigger cache files); checked by alpha
            self.w.write("d/zfill-%02d.txt" % i, b"filler %d\n" % i)
        if self.umn:
            # a UMN link file: the listing depends on the merge-and-sort step, whether regenerated after a miss,
            # after a failed load, or served from the cache (fixed extra entry, checked by alpha like the filler)
            self.w.write("d/.Links", b"Name=zfill-zlink\nType=1\nPath=/elsewhere\nHost=other.example\nPort=7070\n")
        self.virtualize_times()

    def _put(self, n, v):
        # file b is EMPTY: a size of 0 (set but falsy) must survive the cache like any other field
        self.w.write("d/" + n, b"" if n == "b" else b"content of " + n.encode() + b"\n")
        self.w.write("d/" + n + ".abstract", v.encode() + b"\n")

    def apply(self, a):
        k = a["a"] if "a" in a else a["ev"]
        if k == "create":
            self._put(a["n"], "v1")
        elif k == "delete":
            os.unlink(self.w.path("d/" + a["n"]))
            os.unlink(self.w.path("d/" + a["n"] + ".abstract"))
        elif k == "rename":
            os.rename(self.w.path("d/" + a["n"]), self.w.path("d/" + a["m"]))
            os.rename(self.w.path("d/" + a["n"] + ".abstract"), self.w.path("d/" + a["m"] + ".abstract"))
        elif k == "editmeta":
            p = self.w.path("d/" + a["n"] + ".abstract")
            with envsub.REAL["open"](p, "rb") as fp:
                cur = fp.read().strip()
            with envsub.REAL["open"](p, "r+b") as fp:      # in place: the directory mtime does not move
                fp.write(b"v2\n" if cur == b"v1" else b"v1\n")
        elif k == "tick":
            self.clock += a["d"]
            envsub.ENV.clock = BASE + self.clock / 2.0
        else:
            raise ValueError(k)
        self.virtualize_times()

    def virtualize_times(self):
        """Every timestamp the real kernel just set (recognisable: far later than the virtual epoch)
        becomes the virtual 'now', as if the virtual clock had been the real one."""
        vt = BASE + self.clock / 2.0
        paths = [self.dpath] + [os.path.join(self.dpath, n) for n in envsub.REAL["listdir"](self.dpath)]
        for p in paths:
            try:
                st = envsub.REAL["lstat"](p)
                if st.st_mtime > BASE + 10 ** 8:
                    os.utime(p, (vt, vt), follow_symlinks=False)
            except OSError:
                pass

    def snapshot(self):
        try:
            st = envsub.REAL["stat"](self.cpath)
        except OSError:
            return None
        return (st.st_ino, st.st_size, st.st_mtime_ns, st.st_ctime_ns)

    def stamp(self):
        """Give a just-rewritten cache file the mtime the kernel would have given it had the
        virtual clock been real."""
        vt = BASE + self.clock / 2.0
        os.utime(self.cpath, (vt, vt))

    # ---- one request + alpha ----------------------------------------------------------------
    def request(self, p):
        before = self.snapshot()
        self.listed = 0
        reads0 = envsub.ENV.clock_reads
        # was the cache file opened for writing during this request?  (observer chained before any hook in force)
        prev, wrote, cpath = envsub.ENV.open_hook, [False], os.path.abspath(self.cpath)

        def observe(path, mode):
            if os.path.abspath(path) == cpath and any(c in mode for c in "wa+x"):
                wrote[0] = True
            return prev(path, mode) if prev is not None else None

        envsub.ENV.open_hook = observe
        try:
            r = self.w.request(REQ[p])
        finally:
            envsub.ENV.open_hook = prev
        after = self.snapshot()
        changed = after != before and after is not None
        rewritten = changed and wrote[0]
        touched = changed and not wrote[0]          # times (or identity) moved although nobody wrote the file
        if touched:
            rewritten = False
        if rewritten:
            self.stamp()
        self.virtualize_times()
        view, ok = lex_listing(p, r.out)
        if r.escaped is not None:
            ok = False
        fill = [e for e in view if e["n"].startswith("zfill-")]
        view = [e for e in view if not e["n"].startswith("zfill-")]
        want = ["zfill-%02d" % i for i in range(getattr(self, "filler", 0))] + (["zfill-zl"] if self.umn else [])
        if ok and [e["n"][:8] for e in fill] != want:
            view.append({"n": "?filler", "v": "none", "mt": "na", "sz": "na"})       # wrong filler entries: not a faithful listing
        ev = {"ev": "request", "p": p, "view": view, "listed": self.listed > 0, "rewritten": rewritten, "touched": touched, "ok": ok}
        extra = {"raw": r.out[:600].decode("latin-1"), "log": r.log[-3:], "escaped": r.escaped,
                 "clock_reads": envsub.ENV.clock_reads - reads0}
        return ev, extra

    def close(self):
        envsub.ENV.reset()
        self.w.close()


# ---- lexers (alpha): response bytes -> [ {n, v, mt} ] ------------------------------------------
_ROW = re.compile(r"<TR><TD>.*?</TD>\s*<TD>&nbsp;(<A HREF=\"[^\"]*\">)?<TT>(.*?)</TT>(</A>)?.*?<FONT SIZE=\"-2\">(.*?)</FONT></TD></TR>", re.S)


def lex_listing(p, out: bytes):
    """Returns (entries, ok).  ok=False when the response is not one complete well-formed listing."""
    try:
        text = out.decode("utf-8", "surrogateescape")
    except Exception:
        return [], False
    entries = []
    if p == "HH":        # HEAD: status line and headers, an empty body
        head, sep, body = text.partition("\r\n\r\n")
        return [], bool(text.startswith("HTTP/1.0 200 ") and sep and body == "")
    if p == "GD":
        return lex_attr_listing(text)
    if p in ("G", "GP"):
        if p == "GP":
            if not text.startswith("+-2\r\n") and not re.match(r"\+\d+\r\n", text):
                return [], False
            text = text.split("\r\n", 1)[1]
        if not text or not text.endswith("\r\n"):
            return [], False
        for line in text[:-2].split("\r\n"):
            f = line.split("\t")
            if len(f) not in (4, 5) or not f[0]:
                return [], False
            typ, name = f[0][0], f[0][1:]
            if typ == "3":
                return [], False
            if typ == "i":
                if entries:
                    entries[-1]["v"] = name
                else:
                    return [], False
            else:
                entries.append({"n": name, "v": "none", "mt": "na", "sz": "na"})
        return entries, True
    # HTTP
    if not text.startswith("HTTP/1.0 200 "):
        return [], False
    head, sep, body = text.partition("\r\n\r\n")
    if not sep or "</HTML>" not in body:
        return [], False
    for m in _ROW.finditer(body):
        name = html.unescape(m.group(2))
        if m.group(1):
            entries.append({"n": name, "v": "none", "mt": html.unescape(m.group(4)), "sz": "na"})
        elif entries:
            entries[-1]["v"] = name
        else:
            return [], False
    return entries, True


def lex_attr_listing(text):
    """Gopher+ `$` answer: '+-2' then per item +INFO / +ADMIN / +VIEWS [/ +ABSTRACT] blocks."""
    if not text.startswith("+-2\r\n") or not text.endswith("\r\n"):
        return [], False
    entries, block = [], None
    for line in text[5:-2].split("\r\n"):
        if line.startswith("+INFO: "):
            f = line[7:].split("\t")
            if len(f) not in (4, 5) or not f[0]:
                return [], False
            if f[0][0] == "i":          # the abstract repeated as an info item: belongs to the previous entry
                if not entries:
                    return [], False
                entries[-1]["v"] = f[0][1:]
                block = "SKIP"
                continue
            entries.append({"n": f[0][1:], "v": "none", "mt": "na", "sz": "none"})
            block = "INFO"
        elif line.startswith("+") and line.rstrip().endswith(":"):
            block = "SKIP" if block == "SKIP" else line[1:].rstrip()[:-1]
        elif line.startswith(" ") and entries:
            if block == "SKIP":
                continue
            if block == "VIEWS":
                m = re.search(r"<(\d+)k>", line)
                entries[-1]["sz"] = (m.group(1) + "k") if m else "none"
            elif block == "ABSTRACT":
                entries[-1]["v"] = line[1:]
        else:
            return [], False
    return entries, True


def pool_map(fn, items, init_fn, procs=None):
    import multiprocessing as mp
    procs = procs or int(os.environ.get("VERIF_PROCS") or 16)
    ctx = mp.get_context("fork")
    with ctx.Pool(procs, initializer=init_fn) as pool:
        return pool.map(fn, items, chunksize=max(1, len(items) // (procs * 8) or 1))
