"""C04 - documents are delivered byte-for-byte with truthful length and type.

Design model: spec/Deliver.tla via MC_C04 (copy loop with every read-size schedule, entry and
decompression, framing per protocol, type assignment from the configured tables as DATA, WAP
conversion and inverse).  B1: block size from handlers/base.py, the tables' answers for every name
of the case space (mimetypes initialised as init_mimetypes does, in a process that never imports
pygopherd), configured decompressors -> generated module MC_C04_Data.  B2: every "done" state of
MC_C04 is a case: a real file is written and fetched through the real server per request family
(in memory; over a socketpair, plain and real TLS, where a decompressor needs a descriptor);
read schedules from the loop model are imposed on the real copy loop through a substituted open().
B3: alpha (framing lexers, byte comparison flag, WML lexer back to classes) -> TraceC04 judges.
PARTIAL FIT (see notes/C04.md): byte identity itself is computed by alpha per case."""
from __future__ import annotations

import ast
import gzip
import json
import os
import re
import shutil
import socket
import ssl
import subprocess
import sys
import threading
import urllib.parse

from harness import core, tlc
from harness.tlaparse import iter_dump_states

# A second configuration of the MIME tables (conf/pygopherd.conf documents that the `encoding` option can "override the
# default entirely (ie, to remove those)"): only .bz2 is an encoding, and the mime.types file types the suffix gz.
ALT_ENCODING = "[('.bz2', 'bzip2')]"
ALT_MIME_LINE = "application/gzip\t\t\t\tgz\n"
KNOWN_IDS = {"C04-gplus-length-of-compressed": "declen"}
PY = sys.executable

NAMES = {
    "n_txt": "x.txt", "n_html": "x.html", "n_gif": "x.gif", "n_bin": "x.bin", "n_none": "noext",
    "n_gz": "x.txt.gz", "n_tgz": "x.tgz", "n_bz2": "x.txt.bz2", "n_up": "X.TXT", "n_unk": "x.qqq",
    "n_sp": "sp ace.txt", "n_url": "r#s%t&u+v;w.txt", "n_q": "q?m.txt", "n_pct": "p%41q.txt",
    "n_hi": "caf\udce9.txt", "n_u8": "ü.txt", "n_dots": "a.b.c.txt", "n_pict": "x.pict",
    "n_gzonly": "x.gz", "n_targz": "x.tar.gz",
    # case-variant twins: the tables are case-SENSITIVE for encodings (.gz, .Z) and case-insensitive for types
    "n_GZ": "SCAN.TXT.GZ", "n_Zc": "dump.tar.Z", "n_zl": "draft.tar.z",
}
QUICK_NAMES = ["n_txt", "n_html", "n_bin", "n_none", "n_gz", "n_tgz", "n_bz2", "n_up", "n_sp", "n_url", "n_q", "n_hi", "n_pict", "n_gzonly"]
HIST_NAMES = {"quick": ["n_txt", "n_up", "n_gz", "n_GZ", "n_Zc", "n_zl", "n_bz2", "n_none", "n_html", "n_tgz"],
              "thorough": ["n_txt", "n_up", "n_gz", "n_GZ", "n_Zc", "n_zl", "n_bz2", "n_none", "n_html", "n_tgz", "n_gzonly", "n_targz",
                           "n_pict", "n_bin", "n_gif", "n_dots"]}
HIST_FAMS = ["H", "SP"]
LONG_NAMES = ["n_txt"]
# path-length classes: raw bytes of the directory prefix (non-ASCII components, so the percent-encoded request is 3x as long)
PLEN_RAW = {"p0": 0, "p1k": 1100, "p2k": 1800, "p4k": 3900}
LONG_COMP = "\u00e9" * 100          # one directory component: 200 bytes raw, 600 bytes percent-encoded
FAMS = ["G", "Gs", "GP", "GPs", "H", "Hs", "W", "GEM", "SP"]
PROTO = {"G": "G", "Gs": "G", "GP": "GP", "GPs": "GP", "H": "H", "Hs": "H", "W": "W", "GEM": "GEM", "SP": "SP"}
TLS = {"Gs", "GPs", "Hs", "GEM"}
TIERS = {
    "quick": dict(names=QUICK_NAMES, kinds=["x", "bin", "text", "edge"], lists=["default", "full", "altenc"], reps=[0],
                  real_stride=40, wml=dict(len1=2, len2=1)),
    "thorough": dict(names=sorted(NAMES), kinds=["x", "bin", "text", "edge"], lists=["default", "full", "altenc"], reps=[0, 1],
                     real_stride=6, wml=dict(len1=3, len2=2)),
}
MC_CFG = """SPECIFICATION Spec
CONSTANTS
  B = 3
  Schedules = "%(sched)s"
  Kinds = {%(kinds)s}
  Fams = {%(fams)s}
  Lists = {%(lists)s}
  DecSizeStored = %(decsize)s
  LineCap = "none"
  LongOn = %(slices)s
  HistOn = %(slices)s
  Known = {%(known)s}
INVARIANT Delivered
INVARIANT HistoryFree
INVARIANT Loop
INVARIANT BodyExact
INVARIANT LenTruthful
INVARIANT HeadIsGetHeaders
INVARIANT TypeTruthful
CHECK_DEADLOCK FALSE
"""

W_CFG = """SPECIFICATION Spec
CONSTANTS
  Alpha1 = {"x", "SP", "CR", "VT", "FF", "NEL", "LS", "LT", "AMP", "QUOT", "HI", "NUL"}
  Len1 = %(len1)d
  Alpha2 = {"x", "SP", "CR", "LS", "AMP"}
  Len2 = %(len2)d
INVARIANT Invertible
CHECK_DEADLOCK FALSE
"""

# ---- B1: constants from the working tree ------------------------------------------------------


def block_size():
    """The argument of rfile.read(..) inside VFS_Real.copyto."""
    try:
        with open(os.path.join(core.REPO, "pygopherd", "handlers", "base.py")) as fp:
            tree = ast.parse(fp.read())
        for node in ast.walk(tree):
            if isinstance(node, ast.FunctionDef) and node.name == "copyto":
                for c in ast.walk(node):
                    if (isinstance(c, ast.Call) and isinstance(c.func, ast.Attribute) and c.func.attr == "read"
                            and c.args and isinstance(c.args[0], ast.Constant) and isinstance(c.args[0].value, int)):
                        return c.args[0].value, True
    except Exception:
        pass
    return 4096, False


_ROWS_SRC = r"""
import configparser, json, mimetypes, os, sys
repo, names, enc_override, mimefile = sys.argv[1], json.loads(sys.argv[2]), sys.argv[3], sys.argv[4]
cp = configparser.ConfigParser(); cp.read(os.path.join(repo, "conf", "pygopherd.conf"))
if enc_override:
    cp.set("pygopherd", "encoding", enc_override)      # the option REPLACES the defaults (documented semantics)
files = [mimefile or os.path.join(repo, "conf", "mime.types")]
files = [x for x in files if os.path.isfile(x) and os.access(x, os.R_OK)]
encoding = eval(cp.get("pygopherd", "encoding"))
mimetypes.encodings_map.clear()
for k, v in encoding:
    mimetypes.encodings_map[k] = v
mimetypes.init(files)
out = {}
for tok, nm in names.items():
    t, e = mimetypes.guess_type("/" + nm, strict=False)
    out[tok] = {"type": t or "none", "enc": e or "none"}
print(json.dumps({"rows": out, "default": cp.get("GopherEntry", "defaultmimetype")}))
"""


def table_rows(names, enc_override="", mimefile=""):
    """The configured tables' answer per name, computed WITHOUT pygopherd (clean interpreter)."""
    pr = subprocess.run([PY, "-S", "-c", _ROWS_SRC, core.REPO, json.dumps(names), enc_override, mimefile], stdout=subprocess.PIPE,
                        stderr=subprocess.PIPE, text=True, env={"PATH": os.environ.get("PATH", "")}, timeout=120)
    if pr.returncode != 0:
        raise core.MachineryError("C04: cannot compute the MIME table rows: " + pr.stderr[-500:])
    return json.loads(pr.stdout)


def data_module(rows, altrows, decs, rb, names, histnames):
    toks = sorted(rows)
    arms = lambda rr: "\n            [] ".join('n = "%s" -> [type |-> "%s", enc |-> "%s"]' % (t, rr[t]["type"], rr[t]["enc"]) for t in toks)
    return ("---------------------------- MODULE MC_C04_Data ----------------------------\n"
            "Names == {%s}\nLongNames == {%s}\nHistNames == {%s}\nHistFams == {%s}\nRowShipped(n) == CASE %s\nRowAlt(n) == CASE %s\n"
            "Row(l, n) == IF l = \"altenc\" THEN RowAlt(n) ELSE RowShipped(n)\nDecompressors == {%s}\nRealB == %d\n"
            "=============================================================================\n"
            % (", ".join('"%s"' % t for t in sorted(names)), ", ".join('"%s"' % t for t in LONG_NAMES),
               ", ".join('"%s"' % t for t in sorted(histnames)), ", ".join('"%s"' % t for t in HIST_FAMS), arms(rows), arms(altrows), ", ".join('"%s"' % d for d in sorted(decs)), rb))


# ---- gamma: contents ----------------------------------------------------------------------------
CLASS_BYTES = [
    {"x": b"x", "SP": b" ", "TAB": b"\t", "CR": b"\r", "VT": b"\x0b", "FF": b"\x0c", "FS": b"\x1c", "NUL": b"\x00",
     "HI": b"\xe9", "NEL": b"\xc2\x85", "LS": b"\xe2\x80\xa8", "NBSP": b"\xc2\xa0", "U8": b"\xc3\xa9",
     "LT": b"<", "GT": b">", "AMP": b"&", "QUOT": b'"', "APOS": b"'"},
    {"x": b"Q", "SP": b" ", "TAB": b"\t", "CR": b"\r", "VT": b"\x0b", "FF": b"\x0c", "FS": b"\x1e", "NUL": b"\x00",
     "HI": b"\xff", "NEL": b"\xc2\x85", "LS": b"\xe2\x80\xa9", "NBSP": b"\xe2\x80\x83", "U8": b"\xc3\x9f",
     "LT": b"<", "GT": b">", "AMP": b"&", "QUOT": b'"', "APOS": b"'"},
]
ENTITIES = [b"&amp;", b"&lt;", b"&gt;", b"&quot;", b"&#x27;"]


def rle(tokens):
    out = []
    for t in tokens:
        if out and out[-1]["c"] == t:
            out[-1]["n"] += 1
        else:
            out.append({"c": t, "n": 1})
    return out


def tokens_of(kind, n, rb):
    """A content of exactly n bytes as a list of class tokens (a multi-byte class counts its bytes);
    'LF' separates lines."""
    w = {"NEL": 2, "LS": 3}
    if kind == "x":
        return ["x"] * n
    if kind == "bin":
        cyc = ["NUL", "HI", "CR", "VT", "LT", "AMP", "x", "QUOT", "FF", "SP"]
        return [cyc[(i // 509) % len(cyc)] for i in range(n)]
    if kind == "text":
        toks = []
        i = 0
        while len(toks) < n:
            if i % 5 == 4:
                line = []
            else:
                line = ["x"] * 20 + ["SP", "AMP"] + ["x"] * 10 + ["LT"] + ["x"] * 28 + ["GT"]
                if i % 4 == 1:
                    line += ["SP", "TAB"]
                if i % 7 == 2:
                    line = ["SP", "TAB"] + line        # leading white space must survive
                if i % 3 == 0:
                    line += ["CR"]
            toks += line + ["LF"]
            i += 1
        return toks[:n]
    if kind == "edge":
        toks = ["x"] * n
        pos = 0
        out = []
        plan = {}
        for k in (1, 2, 3):
            b = k * rb
            for off, c in ((-3, "AMP"), (-2, "CR"), (-1, "LF"), (0, "LT")):
                plan[b + off] = c
            plan[b + 1] = "NEL"
        plan[2 * rb - 1] = "LS"                   # three bytes straddling the second block boundary
        for off in (0, 1, 2, 3):
            plan.pop(2 * rb + off, None) if off else None
        plan.pop(2 * rb, None)
        plan.pop(2 * rb + 1, None)
        plan[7] = "LF"
        plan[9] = "LF"                            # a blank line early on
        while pos < n:
            c = plan.get(pos, "x")
            width = w.get(c, 1)
            if pos + width > n:
                c, width = "x", 1
            out.append(c)
            pos += width
        return out
    raise ValueError(kind)


def concretise(tokens, rep):
    cb = CLASS_BYTES[rep]
    data = b"".join(b"\n" if t == "LF" else cb[t] for t in tokens)
    lines, cur = [], []
    for t in tokens:
        if t == "LF":
            lines.append(rle(cur))
            cur = []
        else:
            cur.append(t)
    if cur:
        lines.append(rle(cur))
    return data, lines


# ---- alpha ---------------------------------------------------------------------------------------
WML_PRO = (b'<?xml version="1.0"?>\n<!DOCTYPE wml PUBLIC "-//WAPFORUM//DTD WML 1.1//EN"\n'
           b'"http://www.wapforum.org/DTD/wml_1.1.xml">\n<wml>\n<card id="index" title="Text File" newcontext="true">\n<p>\n')
WML_EPI = b"</p>\n</card>\n</wml>\n"


def lex_wml(body, rep):
    """WML text body -> (framing found, [line as runs of classes/entities | PARA])."""
    if not (body.startswith(WML_PRO) and body.endswith(WML_EPI) and len(body) >= len(WML_PRO) + len(WML_EPI)):
        return False, []
    mid = body[len(WML_PRO):len(body) - len(WML_EPI)]
    inv = sorted(((v, k) for k, v in CLASS_BYTES[rep].items()), key=lambda kv: -len(kv[0]))
    out = []
    i = 0
    while i < len(mid):
        if mid.startswith(b"</p>\n<p>", i):
            out.append([{"c": "PARA", "n": 1}])
            i += 8
            continue
        j = mid.find(b"\n", i)
        if j < 0:
            return False, []
        seg, toks, p = mid[i:j], [], 0
        while p < len(seg):
            for ent in ENTITIES:
                if seg.startswith(ent, p):
                    toks.append(ent.decode())
                    p += len(ent)
                    break
            else:
                for bs, cls in inv:
                    if seg.startswith(bs, p):
                        toks.append(cls)
                        p += len(bs)
                        break
                else:
                    toks.append("?%02x" % seg[p])
                    p += 1
        out.append(rle(toks))
        i = j + 1
    return True, out


def alpha(fam, method, out, crashed, expected, rep):
    p = PROTO[fam]
    ev = {"ev": "fetch", "fam": fam, "p": p, "method": method, "st": "ok", "mime": "", "len": -1, "blen": 0, "eq": False,
          "headers": [], "hnames": [], "wml": [], "wmlframe": False}
    body = out
    if crashed or (not out and (method == "HEAD" or p != "G")):
        ev["st"] = "none" if not out else "broken"
    if p == "G":
        if re.fullmatch(rb"3[^\t\r\n]*\t\terror\.host\t1\r\n", out) and out != expected:
            ev["st"] = "notfound"
    elif p == "GP":
        head, sep, rest = out.partition(b"\r\n")
        if sep and re.fullmatch(rb"\+-?\d+", head):
            ev["len"] = int(head[1:])
            body = rest
        else:
            ev["st"] = "notfound" if head.startswith(b"--") else ("broken" if ev["st"] == "ok" else ev["st"])
    elif p in ("H", "W"):
        head, sep, rest = out.partition(b"\r\n\r\n")
        lines = head.decode("latin-1").split("\r\n")
        if not sep or not re.match(r"HTTP/1\.[01] 200 ", lines[0]):
            ev["st"] = "notfound" if re.match(r"HTTP/1\.[01] 404 ", lines[0]) else ("broken" if ev["st"] == "ok" else ev["st"])
        else:
            body = rest
            ev["headers"] = lines
            ev["hnames"] = ["status"] + [x.split(":")[0].lower() for x in lines[1:]]
            for ln in lines[1:]:
                if ln.lower().startswith("content-type:"):
                    ev["mime"] = ln.split(":", 1)[1].strip()
            if p == "W" and b'title="404 Error"' in rest[:400]:
                ev["st"] = "notfound"
    else:
        head, sep, rest = out.partition(b"\r\n")
        m = re.fullmatch(rb"(\d+) (.*)", head)
        ok = b"20" if p == "GEM" else b"2"
        if not sep or not m or m.group(1) != ok:
            ev["st"] = "notfound" if m and m.group(1) in (b"51", b"4") else ("broken" if ev["st"] == "ok" else ev["st"])
        else:
            ev["mime"] = m.group(2).decode("latin-1")
            ev["headers"] = [head.decode("latin-1")]
            ev["hnames"] = ["status"]
            body = rest
    if ev["st"] == "ok":
        ev["blen"] = len(body)
        ev["eq"] = body == expected            # the byte comparison itself (see notes: partial fit)
        if p == "W" and ev["mime"] == "text/vnd.wap.wml" and method == "GET":
            ev["wmlframe"], ev["wml"] = lex_wml(body, rep)
    return ev


# ---- the real server ------------------------------------------------------------------------------
def wire(fam, method, sel):
    b = sel.encode("utf-8", "surrogateescape")
    q = urllib.parse.quote(b).encode()
    p = PROTO[fam]
    if p == "G":
        return b + b"\r\n"
    if p == "GP":
        return b + b"\t+\r\n"
    if p == "H":
        return method.encode() + b" " + q + b" HTTP/1.0\r\n\r\n"
    if p == "W":
        return method.encode() + b" /wap" + q + b" HTTP/1.0\r\n\r\n"
    if p == "GEM":
        return b"gemini://localhost" + q + b"\r\n"
    return b"localhost " + q + b" 0\r\n"


class _ShortReader:
    """A file whose read() returns short reads following a schedule (alphabet 1, B-1, B)."""

    def __init__(self, fp, sizes, counter):
        self.fp, self.sizes, self.i, self.counter = fp, sizes, 0, counter

    def read(self, n=-1):
        want = self.sizes[self.i % len(self.sizes)]
        self.i += 1
        self.counter[0] += 1
        return self.fp.read(want if n is None or n < 0 else min(n, want))

    read1 = read

    def readinto(self, b):
        # the same schedule for a copy loop written with a preallocated block
        data = self.read(len(b))
        memoryview(b).cast("B")[:len(data)] = data
        return len(data)

    readinto1 = readinto

    def __getattr__(self, name):
        return getattr(self.fp, name)

    def __enter__(self):
        return self

    def __exit__(self, *a):
        self.fp.close()


class Site:
    def __init__(self, alt=False):
        from harness import envsub, world
        import pygopherd.server
        self.envsub, self.world, self.srvmod = envsub, world, pygopherd.server
        import tempfile
        self.scratch = tempfile.mkdtemp(prefix="w-", dir=_BASE) if _BASE else tlc.new_scratch("c04")
        root = os.path.join(self.scratch, "r")
        os.makedirs(root)
        self.root = root
        if alt:          # mimetypes are initialised once per process: the alternative tables get processes of their own
            self.worlds = {"altenc": world.World(root=root, handlers="default", overrides={
                ("pygopherd", "encoding"): ALT_ENCODING, ("pygopherd", "mimetypes"): _CTX["altmime"]})}
        else:
            self.worlds = {"default": world.World(root=root, handlers="default"),
                           "full": world.World(root=root, handlers="full")}
        self.current = None
        self.sctx = ssl.create_default_context(ssl.Purpose.CLIENT_AUTH)
        self.sctx.load_cert_chain(os.path.join(core.REPO, "testdata", "demo.crt"), os.path.join(core.REPO, "testdata", "demo.key"))
        self.cctx = ssl.create_default_context()
        self.cctx.check_hostname = False
        self.cctx.verify_mode = ssl.CERT_NONE
        self.short_reads = [0]
        self.overlaps = 0

    def use(self, hl):
        if self.current != hl:
            self.world.reset_lazies()
            self.current = hl
        return self.worlds[hl]

    def clear(self):
        for n in os.listdir(self.root):
            q = os.path.join(self.root, n)
            if os.path.isdir(q):
                shutil.rmtree(q)
            else:
                os.unlink(q)

    def put(self, name, data, clear=True):
        if clear:
            self.clear()
        q = os.fsencode(os.path.join(self.root, name))
        os.makedirs(os.path.dirname(q), exist_ok=True)
        with self.envsub.REAL["open"](q, "wb") as fp:
            fp.write(data)

    def mock(self, hl, fam, method, sel):
        w = self.use(hl)
        r = w.request(wire(fam, method, sel), tls=fam in TLS)
        crashed = r.escaped is not None or any("EXCEPTION" in ln for ln in r.log)
        return r.out, crashed, r.log[-2:]

    OTHER = "zz-other.bin"

    def overlap(self, hl, fam, method, sel):
        """Two transfers at once (MC_C04_overlap): inside every write() of this request, before the written object is
        consumed, another handler serves a different file completely - what a thread switch inside sendall() amounts to."""
        w = self.use(hl)
        other = os.fsencode(os.path.join(self.root, self.OTHER))
        if not os.path.exists(other):
            with self.envsub.REAL["open"](other, "wb") as fp:
                fp.write(bytes(range(1, 250)) * 53)             # 13 KB unlike any generated content
        nested = [0]

        def during():
            saved = list(w.logbuf)
            inner = w.request(wire("G", "GET", "/" + self.OTHER))
            nested[0] += 1
            if len(inner.out) != 249 * 53:
                raise core.MachineryError("C04: the overlapping transfer itself was not served")
            w.logbuf[:] = saved

        r = w.request(wire(fam, method, sel), tls=fam in TLS, during=during)
        self.overlaps += nested[0]
        crashed = r.escaped is not None or any("EXCEPTION" in ln for ln in r.log)
        return r.out, crashed, r.log[-2:]

    def real(self, hl, fam, method, sel):
        """The same request over a socketpair through the unmodified GopherRequestHandler (unbuffered
        wfile with a descriptor), with a real TLS session for the TLS families."""
        w = self.use(hl)
        tls = fam in TLS
        a, b = socket.socketpair()
        info = {}

        def serve():
            s = a
            try:
                if tls:
                    s = self.sctx.wrap_socket(a, server_side=True)
                self.srvmod.GopherRequestHandler(s, ("10.77.77.78", 7778), w.server)
            except Exception as e:      # noqa: what escaped the handler
                info["server"] = type(e).__name__
            finally:
                try:
                    s.shutdown(socket.SHUT_RDWR)
                except Exception:
                    pass
                s.close()

        from pygopherd import logger
        logger.log = w.logbuf.append
        del w.logbuf[:]
        th = threading.Thread(target=serve)
        th.start()
        buf = b""
        c = b
        try:
            c.settimeout(20)
            if tls:
                c = self.cctx.wrap_socket(b, server_hostname="localhost")
            c.sendall(wire(fam, method, sel))
            while True:
                d = c.recv(65536)
                if not d:
                    break
                buf += d
        except (ssl.SSLError, OSError) as e:
            info["client"] = type(e).__name__ + ":" + str(e)[:80]
        th.join(30)
        try:
            c.close()
        except Exception:
            pass
        crashed = bool(info) or any("EXCEPTION" in ln for ln in w.logbuf)
        return buf, crashed, [json.dumps(info)] + list(w.logbuf[-2:])

    def close(self):
        shutil.rmtree(self.scratch, ignore_errors=True)


_SITE = None
_BASE = None          # scratch directory of this run (created and removed by the parent process)
_CTX = {}


def _init_worker():
    global _SITE
    _SITE = Site()


def _init_worker_alt():
    global _SITE
    _SITE = Site(alt=True)


def _events(site, hl, fam, sel, expected, rep, transport):
    run = site.real if transport == "real" else (site.overlap if transport == "overlap" else site.mock)
    evs, extras = [], []
    for method in (["GET", "HEAD"] if PROTO[fam] in ("H", "W") else ["GET"]):
        out, crashed, log = run(hl, fam, method, sel)
        evs.append(alpha(fam, method, out, crashed, expected, rep))
        extras.append({"raw_head": out[:160].decode("latin-1"), "raw_len": len(out), "log": log, "transport": transport})
    return evs, extras


def _run_file(job):
    """job: one real file (size, kind, name, handler list, representative) fetched through every family."""
    n, kind, tok, hl, rep, fams, transports, sched = (job[k] for k in ("n", "kind", "name", "hl", "rep", "fams", "transports", "sched"))
    site = _SITE
    reads0 = site.short_reads[0]
    row, rb, decs = (_CTX["altrows"] if hl == "altenc" else _CTX["rows"])[tok], _CTX["rb"], _CTX["decs"]
    data, lines = concretise(job["tokens"] if job.get("tokens") is not None else tokens_of(kind, n, rb), rep)
    isdec = job["dec"]
    plen = job.get("plen", "p0")
    prefix = ""
    while len(prefix.encode()) < PLEN_RAW[plen]:          # gamma for the path-length class: a deep tree of long names
        prefix += LONG_COMP + "/"
    name = prefix + NAMES[tok]
    site.put(name, gzip.compress(data, mtime=0) if isdec else data)
    init = {"n": n, "lines": lines, "row": row, "hl": hl, "decs": sorted(decs) if hl == "full" else [], "kind": kind,
            "name": tok, "plen": plen}
    traces = []
    path = os.path.join(site.root, name)
    for fam in fams:
        for transport in transports:
            if isdec and transport == "mock":
                continue                           # the in-memory wfile has no descriptor for the decompressor
            if sched:
                rbm = {1: 1, 2: rb - 1, 3: rb}
                sizes = [rbm[k] for k in sched] or [rb]

                def hook(p, mode, _path=path, _sizes=sizes):
                    if p == _path and "r" in mode and "b" in mode:
                        return _ShortReader(site.envsub.REAL["open"](os.fsencode(p), mode), _sizes, site.short_reads)
                    return None
                site.envsub.ENV.open_hook = hook
            try:
                evs, extras = _events(site, hl, fam, "/" + name, data, rep, transport)
            finally:
                site.envsub.ENV.open_hook = None
            case = {"n": n, "kind": kind, "name": tok, "hl": hl, "fam": fam, "plen": plen, "request_line_bytes": len(wire(fam, "GET", "/" + name)), "rep": rep, "transport": transport,
                    "dec": isdec, "tokens": job.get("tokens"), "tls": fam in TLS, "needs_fd": isdec and (fam in TLS or fam == "W"), "sched": sched, "real_tls": transport == "real" and fam in TLS}
            traces.append({"id": "%s/%s/%d/%s/%s/%s/r%d%s" % (hl, tok + ("@" + plen if plen != "p0" else ""), n, kind, fam, transport, rep,
                                                             ("/s" + "".join(map(str, sched)) if sched else "")
                                                             + ("/" + ",".join(job["tokens"]) if job.get("tokens") is not None else "")),
                           "init": init, "events": evs, "case": case, "extras": extras})
    return traces, site.short_reads[0] - reads0


def _run_hist(job):
    """One HISTORY in one fresh server process: this worker never serves anything itself, it forks a child per history;
    the child (same state as right after start-up) serves `prev` (fetched or listed) and then `name` per family."""
    site = _SITE
    r, w = os.pipe()
    pid = os.fork()
    if pid == 0:
        rc = 3
        try:
            os.close(r)
            tok, prev, via, rb = job["name"], job["prev"], job["via"], _CTX["rb"]
            data, lines = concretise(tokens_of("bin", job["n"], rb), 0)
            site.put(NAMES[tok], data)
            prior = []
            if prev != "none":
                site.put(NAMES[prev], b"other document\n", clear=False)
                out, crashed, _log = site.mock("default", "H" if via == "fetch" else "G", "GET", "/" + NAMES[prev] if via == "fetch" else "/")
                prior.append({"ev": "prior", "via": via, "name": prev, "answered": bool(out) and not crashed})
            init = {"n": job["n"], "lines": lines, "row": _CTX["rows"][tok], "hl": "default", "decs": [], "kind": "bin", "name": tok,
                    "plen": "p0"}
            traces = []
            for fam in job["fams"]:
                evs, extras = _events(site, "default", fam, "/" + NAMES[tok], data, 0, "mock")
                traces.append({"id": "hist/%s-%s>%s/%s" % (via, prev, tok, fam), "init": init, "events": prior + evs,
                               "case": {"n": job["n"], "kind": "bin", "name": tok, "hl": "default", "fam": fam, "plen": "p0", "rep": 0,
                                        "transport": "mock", "dec": False, "tokens": None, "tls": False, "needs_fd": False, "sched": [],
                                        "real_tls": False, "prev": prev, "via": via},
                               "extras": [None] * len(prior) + extras})
            payload = json.dumps(traces).encode()
            while payload:
                k = os.write(w, payload)
                payload = payload[k:]
            rc = 0
        finally:
            os._exit(rc)
    os.close(w)
    buf = b""
    while True:
        d = os.read(r, 1 << 16)
        if not d:
            break
        buf += d
    os.close(r)
    _pid, status = os.waitpid(pid, 0)
    if status != 0 or not buf:
        raise core.MachineryError("C04: history child failed for %r (status %r)" % (job, status))
    return json.loads(buf), 0


def real_size(n, b, rb):
    q = (n + b // 2) // b if b > 1 else n
    return q * rb + (n - q * b)


def model_constants(chk):
    known = sorted(KNOWN_IDS[f.get("id")] for f in chk.known if f.get("id") in KNOWN_IDS)
    return dict(decsize="TRUE" if "declen" in known else "FALSE", known=", ".join('"%s"' % k for k in known))


def main(chk, replay=None):
    from harness import cachelib
    t = TIERS[chk.tier]
    rb, rb_bound = block_size()
    global _BASE
    _BASE = tlc.new_scratch("c04")
    try:
        return _main(chk, replay, t, rb, rb_bound, cachelib)
    finally:
        shutil.rmtree(_BASE, ignore_errors=True)
        _BASE = None


def _main(chk, replay, t, rb, rb_bound, cachelib):
    histnames = HIST_NAMES[chk.tier]
    allnames = sorted(set(t["names"]) | set(histnames) | set(LONG_NAMES))
    tab = table_rows({k: NAMES[k] for k in allnames})
    rows = tab["rows"]
    altmime = os.path.join(_BASE, "alt.mime.types")
    with open(os.path.join(core.REPO, "conf", "mime.types")) as fp, open(altmime, "w") as out:
        out.write(fp.read() + "\n" + ALT_MIME_LINE)
    altrows = table_rows({k: NAMES[k] for k in allnames}, ALT_ENCODING, altmime)["rows"]
    decs = {"gzip"}                       # what World(handlers="full") configures: {'gzip': 'zcat'}
    consts = model_constants(chk)
    data_tla = data_module(rows, altrows, decs, rb, t["names"], histnames)
    q = lambda xs: ", ".join('"%s"' % x for x in xs)
    # 1. design model: every case with full reads; every read-size schedule on one name
    cfg = MC_CFG % dict(consts, sched="full", kinds=q(t["kinds"]), fams=q(FAMS), lists=q(t["lists"]), slices="TRUE")
    res = tlc.check_model("MC_C04", "MC_C04_run.cfg", extra_files={"MC_C04_run.cfg": cfg, "MC_C04_Data.tla": data_tla},
                          dump=True, coverage=True, timeout=1500)
    cfg2 = MC_CFG % dict(consts, sched="all", kinds=q(["bin"]), fams=q(["G"]), lists=q(["default"]), slices="FALSE")
    res2 = tlc.check_model("MC_C04", "MC_C04_loop_run.cfg", extra_files={"MC_C04_loop_run.cfg": cfg2, "MC_C04_Data.tla": data_tla},
                           dump=True, timeout=1500)
    res3 = tlc.check_model("MC_C04W", "MC_C04W_run.cfg", extra_files={"MC_C04W_run.cfg": W_CFG % t["wml"]}, dump=True, timeout=1500)
    files, scheds, wfiles, hists = {}, [], [], {}
    try:
        if res3["inv_violations"]:
            chk.model_violation("MC_C04W", sorted(set(res3["inv_violations"])), res3["out"][-3000:])
        for st in iter_dump_states(res3["dump"], wanted={"lines", "lastnl", "wml"}):
            if st["wml"] == []:
                wfiles.append((st["lines"], st["lastnl"]))
        tlc.cleanup(res3)
        for r_, mod in ((res, "MC_C04"), (res2, "MC_C04(loop)")):
            if r_["inv_violations"]:
                chk.model_violation(mod, sorted(set(r_["inv_violations"])), r_["out"][-3000:])
        for st in iter_dump_states(res["dump"], wanted={"phase", "c", "isdec"}):
            if st["phase"] == "done":
                c = st["c"]
                if c["via"] != "none" or (c["name"] in histnames and c["name"] not in t["names"]) or \
                        (c["n"] == 1 and c["kind"] == "bin" and c["hl"] == "default" and c["plen"] == "p0" and c["name"] in histnames
                         and c["fam"] in HIST_FAMS):
                    hists.setdefault((c["name"], c["prev"], c["via"], c["n"]), []).append(c["fam"])
                    if c["via"] != "none" or c["name"] not in t["names"]:
                        continue
                key = (c["n"], c["kind"], c["name"], c["hl"], c["plen"])
                files.setdefault(key, {"dec": st["isdec"], "fams": []})["fams"].append(c["fam"])
        for st in iter_dump_states(res2["dump"], wanted={"phase", "c", "h"}):
            if st["phase"] == "done" and st["c"]["name"] == t["names"][0]:
                scheds.append((st["c"]["n"], list(st["h"])))
    finally:
        tlc.cleanup(res)
        tlc.cleanup(res2)
    # 2. cases -> jobs
    jobs = []
    if replay:
        with open(replay) as fp:
            c = json.load(fp)["case"]
        jobs.append(dict(n=c["n"], kind=c["kind"], name=c["name"], hl=c["hl"], rep=c.get("rep", 0), fams=[c["fam"]],
                         transports=[c["transport"]], sched=c.get("sched") or [], dec=c["dec"], tokens=c.get("tokens"),
                         plen=c.get("plen", "p0"), prev=c.get("prev", "none"), via=c.get("via", "none")))
        hists = {}
    else:
        k = 0
        for (n, kind, tok, hl, plen), v in sorted(files.items()):
            for rep in t["reps"]:
                k += 1
                transports = ["mock"] + (["real"] if (v["dec"] or k % t["real_stride"] == 0) else [])
                if plen != "p0" and rep:
                    continue
                jobs.append(dict(n=real_size(n, 3, rb), kind=kind, name=tok, hl=hl, rep=rep, fams=sorted(set(v["fams"])),
                                 transports=transports, sched=[], dec=v["dec"], plen=plen))
        for lines_, lastnl in sorted(wfiles, key=lambda x: json.dumps(x)):
            toks = []
            for i_, ln in enumerate(lines_):
                toks += [r_["c"] for r_ in ln for _ in range(r_["n"])]
                if i_ < len(lines_) - 1 or lastnl:
                    toks.append("LF")
            for tok in ("n_txt", "n_none"):
                jobs.append(dict(n=len(toks), kind="tlc-lines", name=tok, hl="default", rep=0, fams=["W"], transports=["mock"],
                                 sched=[], dec=False, tokens=toks))
        scheds.sort()
        for n, h in scheds:
            jobs.append(dict(n=real_size(n, 3, rb), kind="bin", name=t["names"][0], hl="default", rep=0, fams=["G", "GP"],
                             transports=["mock"], sched=h, dec=False))
        # two transfers at once (MC_C04_overlap): every size class of the loop model, another transfer inside every write
        res_ov = tlc.check_model("MC_C04_overlap", "MC_C04_overlap.cfg", dump=False, coverage=False, timeout=300)
        if res_ov["inv_violations"]:
            chk.model_violation("MC_C04_overlap", sorted(set(res_ov["inv_violations"])), res_ov["out"][-2000:])
        _CTX["overlap_states"] = res_ov["distinct"]
        tlc.cleanup(res_ov)
        for n in sorted({n_ for n_, _h in scheds}):
            jobs.append(dict(n=real_size(n, 3, rb), kind="bin", name=t["names"][0], hl="default", rep=0, fams=["G", "GP", "H"],
                             transports=["overlap"], sched=[], dec=False))
    _CTX.update(rows=rows, altrows=altrows, altmime=altmime, rb=rb, decs=decs)
    hjobs = [dict(name=nm, prev=pv, via=via, n=n_, fams=sorted(set(fams_)), hl="default")
             for (nm, pv, via, n_), fams_ in sorted(hists.items())]
    if replay and jobs[0].get("prev", "none") != "none":
        hjobs, jobs = [dict(name=jobs[0]["name"], prev=jobs[0]["prev"], via=jobs[0]["via"], n=jobs[0]["n"], fams=jobs[0]["fams"], hl="default")], []
    jobs_main = [j for j in jobs if j["hl"] != "altenc"]
    jobs_alt = [j for j in jobs if j["hl"] == "altenc"]
    results = cachelib.pool_map(_run_file, jobs_main, _init_worker) if jobs_main else []
    if jobs_alt:
        results += cachelib.pool_map(_run_file, jobs_alt, _init_worker_alt, procs=min(4, int(os.environ.get("VERIF_PROCS") or 16)))
    if hjobs:            # histories: each in a process of its own, forked from a worker that has served nothing
        results += cachelib.pool_map(_run_hist, hjobs, _init_worker)
    jobs = jobs_main + jobs_alt + hjobs
    traces = [tr for trs, _n in results for tr in trs]
    short_reads = sum(n_ for _trs, n_ in results)
    if not replay and scheds and short_reads == 0:
        # a copy loop that no longer goes through read()/readinto() of the opened file (sendfile, mmap): the schedules of
        # the loop model cannot be imposed; design-level difference, the byte comparison of every case still applies
        chk.note_drift([{"what": "C04: the substituted open() never served a read: read-size schedules not imposed"}])
    # 3. TLC judges
    tv = tlc.validate_traces("TraceC04", "TraceC04.cfg", [{"id": x["id"], "init": x["init"], "events": x["events"]} for x in traces],
                             timeout=3000)
    for rj in tv["rejected"]:
        tr = traces[rj["index"]]
        if rj["clause"] in ("unmatched", "stuck"):
            raise core.MachineryError("C04: trace machinery: %s %s" % (tr["id"], rj["clause"]))
        e = tr["events"][rj["at"] - 2]
        key = "%s|%s|%s" % (rj["clause"], tr["id"], e["method"])
        if tr["case"].get("plen", "p0") != "p0":
            key = key.replace(LONG_COMP, "")
        chk.violation(key, rj["clause"], dict(tr["case"], method=e["method"]),
                      {"event": {k_: v_ for k_, v_ in e.items() if k_ != "wml"}, "wml_head": e["wml"][:3],
                       "extras": tr["extras"][rj["at"] - 2], "lines_head": tr["init"]["lines"][:3]})
    chk.note_drift(tv["drift"])
    fetches = [e for tr in traces for e in tr["events"] if e["ev"] == "fetch"]
    nontrivial = len({tr["id"] for tr in traces if any(e["ev"] == "fetch" and e["st"] == "ok" and e["method"] == "GET" and (e["eq"] or e["wmlframe"])
                                                       for e in tr["events"])})
    priors = [e for tr in traces for e in tr["events"] if e["ev"] == "prior"]
    if priors and not all(e["answered"] for e in priors):
        raise core.MachineryError("C04: a history's first request was not answered: the history was not established")
    if not replay and nontrivial == 0:
        raise core.MachineryError("C04: no document was delivered at all")
    wml = sum(1 for e in fetches if e["wmlframe"])
    cov = {
        "states": res["distinct"] + res2["distinct"] + res3["distinct"] + _CTX.get("overlap_states", 0),
        "overlapping_transfers_replayed": sum(1 for tr in traces if tr["case"].get("transport") == "overlap"),
        "transitions": res["generated"] + res2["generated"] + res3["generated"], "exhaustive": True,
        "traces_validated_against_impl": tv["accepted"], "traces_rejected": len(tv["rejected"]),
        "evaluations": len(fetches), "distinct_nontrivial": nontrivial,
        "rule": "cases = every 'done' state of MC_C04 (9 size classes around multiples of the block x %d content classes x %d "
                "name classes x %d handler lists x 9 request families; HTTP/WAP families fetched with GET and HEAD) x %d "
                "representative byte choice(s), plus every read-size schedule of the loop model (%d) imposed on the real copy loop, plus "
                "every small text file of MC_C04W fetched through WAP; "
                "non-trivial = traces in which a GET delivered a body equal to the file or a well-framed WML conversion"
                % (len(t["kinds"]), len(t["names"]), len(t["lists"]), len(t["reps"]), len(scheds)),
        "samples": [{"id": tr["id"], "events": [{k_: v_ for k_, v_ in e.items() if k_ != "wml"} for e in tr["events"]]}
                    for tr in traces[:2] + traces[-1:]],
        "checker_cmd": res["cmd"] + " ; " + res2["cmd"] + " ; " + res3["cmd"] + " ; " + tv["cmd"],
        "wml_files_from_tlc": len(wfiles),
        "files_written": len(jobs), "short_reads_served": short_reads, "wml_conversions_lexed": wml,
        "real_socket_traces": sum(1 for tr in traces if tr["case"]["transport"] == "real"),
        "real_tls_traces": sum(1 for tr in traces if tr["case"]["real_tls"]),
        "constants_bound": {"block_size": rb, "from_code": rb_bound, "default_mime": tab["default"], "rows": rows,
                            "rows_alternative_config": altrows, "alternative_config": {"encoding": ALT_ENCODING, "mime.types": "conf/mime.types + application/gzip gz"}},
        "alternative_config_traces": sum(1 for tr in traces if tr["case"]["hl"] == "altenc"),
        "history_traces": sum(1 for tr in traces if tr["case"].get("prev", "none") != "none"),
        "long_path_traces": sum(1 for tr in traces if tr["case"].get("plen", "p0") != "p0"),
        "longest_request_line_bytes": max([tr["case"].get("request_line_bytes", 0) for tr in traces] or [0]),
        "model_constants": consts, "trace_states": tv["states"],
        "bindings": ["B1 block size, MIME rows, decompressors", "B2 every done state of MC_C04 as a real file", "B3 TraceC04"],
    }
    return chk.finish(cov, [
        "PARTIAL FIT: the byte comparison body == file is computed by alpha per case (flag eq); the specification contributes "
        "the case space, the loop argument, framing/length/type/HEAD clauses and the WML inverse on byte classes",
        "TLS families run on the in-memory server with an SSLSocket-typed request object; every %d-th file and every file that "
        "needs a decompressor is also fetched over a socketpair, the TLS families through a real TLS session" % t["real_stride"],
        "MIME rows computed in a clean interpreter (never importing pygopherd) from conf/pygopherd.conf and conf/mime.types; a second "
        "configuration (encoding option listing only .bz2, mime.types typing gz) runs in worker processes of its own with the reference "
        "computed from THAT configuration by the documented semantics (the option replaces the defaults)",
        "WAP reading: the conversion drops trailing white space of each line (str.rstrip) and turns white-space-only lines "
        "into paragraph breaks; invertibility is up to that (DESIGN.md section 9 C04)",
    ])


def selftest():
    """Binding demonstration: recorded traces accepted; corrupted field / dropped event rejected, clause named."""
    _init_worker()
    rb, _ = block_size()
    rows = table_rows({"n_txt": NAMES["n_txt"]})["rows"]
    _CTX.update(rows=rows, altrows=rows, rb=rb, decs={"gzip"})
    trs, _ = _run_file(dict(n=rb + 1, kind="text", name="n_txt", hl="default", rep=0, fams=["GP", "H", "W"], transports=["mock"],
                            sched=[], dec=False))
    good = [{"id": x["id"], "init": x["init"], "events": x["events"]} for x in trs]
    mut = lambda i, f: (lambda d: (f(d), d)[1])(json.loads(json.dumps(good[i])))
    bad = [mut(0, lambda d: (d.update(id="len+1"), d["events"][0].update(len=d["events"][0]["len"] + 1))),
           mut(1, lambda d: (d.update(id="head-dropped-header"), d["events"][1]["headers"].pop())),
           mut(1, lambda d: (d.update(id="get-event-dropped"), d["events"].pop(0))),
           mut(1, lambda d: (d.update(id="type-changed"), d["events"][0].update(mime="text/html"))),
           mut(2, lambda d: (d.update(id="wml-line-dropped"), d["events"][0]["wml"].pop(1))),
           mut(0, lambda d: (d.update(id="body-differs"), d["events"][0].update(eq=False)))]
    tv = tlc.validate_traces("TraceC04", "TraceC04.cfg", good + bad)
    got = {r["trace"]["id"]: r["clause"] for r in tv["rejected"]}
    print("accepted", tv["accepted"], "rejected", got)
    assert tv["accepted"] == len(good), tv["rejected"]
    assert got == {"len+1": "LenTruthful", "head-dropped-header": "HeadIsGetHeaders", "get-event-dropped": "HeadIsGetHeaders",
                   "type-changed": "TypeTruthful", "wml-line-dropped": "WmlInvertible", "body-differs": "BodyExact"}, got
    return 0
