"""Races on one directory cache file (spec/MC_Race.tla), bound to the real code  [C11 schedules, C14].

gamma: a start (what is on disk: nothing / a complete cache file / the remains of a crashed writer) plus one
complete interleaving h of the workers' environment operations, both taken from TLC (exhaustive state dump
with h in the state: every distinct interleaving; or tlc -simulate for more workers), replayed on REAL handler
threads by the cooperative scheduler of harness/c14.py.  alpha: the events of c14.run_schedule.  Judgement:
spec/trace/TraceC14.tla.  No property logic here."""
from __future__ import annotations

import glob
import json
import shutil

from harness import core, tlc
from harness.tlaparse import iter_dump_states, last_sim_state

CFG = """SPECIFICATION RSpec
CONSTANTS
  Names = {"a"}
  Workers = {%(workers)s}
  Full = 2
  Lifetimes = {4}
  StartFiles = {%(files)s}
  StartProtos = {%(protos)s}
INVARIANT RaceHarmless
%(extra)s
CHECK_DEADLOCK FALSE
"""


def _q(xs):
    return ", ".join('"%s"' % x for x in xs)


def _pcs(st):
    return st["pc"] if isinstance(st["pc"], list) else [st["pc"][k] for k in sorted(st["pc"])]


def _ps(start):
    ps = start["ps"]
    return ps if isinstance(ps, list) else [ps[k] for k in sorted(ps)]


def exhaustive(files, protos, workers=(1, 2), timeout=1500):
    """Model-check MC_Race and return (result, [ {f, ps, h} ]) = every distinct complete interleaving."""
    cfg = CFG % dict(workers=", ".join(map(str, workers)), files=_q(files), protos=_q(protos), extra="")
    res = tlc.check_model("MC_Race", "MC_Race_run.cfg", extra_files={"MC_Race_run.cfg": cfg}, dump=True, timeout=timeout)
    seen, out = set(), []
    try:
        for st in iter_dump_states(res["dump"], wanted={"pc", "h", "start"}):
            if all(v == "done" for v in _pcs(st)):
                c = {"f": st["start"]["f"], "ps": _ps(st["start"]), "h": [list(x) for x in st["h"]]}
                k = json.dumps(c, sort_keys=True)
                if k not in seen:
                    seen.add(k)
                    out.append(c)
    finally:
        tlc.cleanup(res)
    # the vacuity witnesses of the model must be violated (a reader does meet a damaged file / a writer)
    wit = CFG % dict(workers=", ".join(map(str, workers)), files=_q(files), protos=_q(protos),
                     extra="INVARIANT W_NobodyLoadsDamaged" if any(f in ("cut0", "cut1", "zero") for f in files)
                     else "INVARIANT W_NoReaderSeesWriter")
    wres = tlc.run_tlc("MC_Race", "MC_Race_wit.cfg", extra_files={"MC_Race_wit.cfg": wit}, timeout=timeout)
    if not [v for v in wres["inv_violations"] if v.startswith("W_")]:
        raise core.MachineryError("MC_Race: vacuity witness not violated (no reader ever meets a damaged file / a writer)")
    out.sort(key=lambda c: json.dumps(c, sort_keys=True))
    return res, out


def simulated(files, protos, workers, num, depth, seed, timeout=900):
    """tlc -simulate on MC_Race (more workers than can be enumerated): distinct complete interleavings."""
    sd = tlc.new_scratch("simrace")
    out = {}
    try:
        cfg = CFG % dict(workers=", ".join(map(str, workers)), files=_q(files), protos=_q(protos), extra="")
        res = tlc.run_tlc("MC_Race", "Sim_Race.cfg", extra_files={"Sim_Race.cfg": cfg}, workers=4,
                          simulate="file=%s/tr,num=%d" % (sd, max(1, num // 4)), depth=depth, seed=seed, timeout=timeout)
        if res["tlc_error"]:
            raise tlc.TLCError("MC_Race simulation failed:\n" + res["out"][-2000:])
        for f in sorted(glob.glob(sd + "/tr*")):
            st = last_sim_state(f, wanted={"pc", "h", "start"})
            if st and st.get("h") and all(v == "done" for v in _pcs(st)):
                c = {"f": st["start"]["f"], "ps": _ps(st["start"]), "h": [list(x) for x in st["h"]]}
                out[json.dumps(c, sort_keys=True)] = c
    finally:
        shutil.rmtree(sd, ignore_errors=True)
    return [out[k] for k in sorted(out)]


def to_schedule(c):
    """[w, step, p] triples for c14.run_schedule: what is on disk first, then all accepts, then the interleaving."""
    h = []
    if c["f"] == "late":
        # worker 1 looked while there was no cache file; THEN a request served alone wrote the complete one
        h += [[1, "accept", c["ps"][0]], [1, "advance_to_gen", ""], [0, "prime", "G"]]
    elif c["f"] != "none":
        h.append([0, "prime", "G"])
    if c["f"] in ("cut0", "cut1", "zero"):
        h.append([0, c["f"], ""])
    for i, p in enumerate(c["ps"]):
        if c["f"] == "late" and i == 0:
            continue
        h.append([i + 1, "accept", p])
    for w, step in c["h"]:
        h.append([w, step, ""])
    return h


_AR = {}


def run(c):
    from harness import c14
    if "ar" not in _AR:
        _AR["ar"] = c14.Arena()
    ev = c14.run_schedule(_AR["ar"], to_schedule(c))
    return {"id": "race %s %s %s" % (c["f"], "".join(p[0] if p == "G" else "+" for p in c["ps"]), "".join(str(w) for w, _s in c["h"])),
            "events": ev, "case": {"kind": "race", "f": c["f"], "ps": c["ps"], "h": c["h"]}}


def close():
    ar = _AR.pop("ar", None)
    if ar is not None:
        ar.close()


def run_all(cases, procs=None):
    """Replay every case in worker PROCESSES of their own (harness/race_worker.py).  A worker that dies while serving a
    case yields a trace saying so for that case (the clients got no complete response) and the rest is handed to a fresh
    worker."""
    import os
    import subprocess
    import sys
    import tempfile
    procs = procs or int(os.environ.get("VERIF_PROCS") or 16)
    procs = max(1, min(procs, len(cases)))
    sd = tempfile.mkdtemp(prefix="verif-raceq-", dir=tlc.scratch_root())
    results = {}
    pending = [[(i, c) for i, c in enumerate(cases) if i % procs == k] for k in range(procs)]
    rounds = 0
    try:
        while any(pending):
            rounds += 1
            if rounds > 200:
                raise core.MachineryError("race workers keep dying: more than 200 restarts")
            running = []
            for k, sl in enumerate(pending):
                if not sl:
                    continue
                cf, of = os.path.join(sd, "c%d_%d.json" % (k, rounds)), os.path.join(sd, "o%d_%d.ndjson" % (k, rounds))
                with open(cf, "w") as fp:
                    json.dump(sl, fp)
                pr = subprocess.Popen([sys.executable, "-m", "harness.race_worker", cf, of], stdout=subprocess.DEVNULL,
                                      stderr=subprocess.PIPE)
                running.append((k, sl, of, pr))
            for k, sl, of, pr in running:
                _o, err = pr.communicate(timeout=3000)
                started = None
                if os.path.exists(of):
                    for line in open(of):
                        r = json.loads(line)
                        if "start" in r:
                            started = r["start"]
                        else:
                            results[r["done"]] = r["trace"]
                            started = None
                rest = [(i, c) for i, c in sl if i not in results]
                if pr.returncode != 0:
                    if started is None or pr.returncode > 0:
                        raise core.MachineryError("race worker failed (rc=%s): %s" % (pr.returncode, err.decode()[-1500:]))
                    c = dict(cases[started])
                    results[started] = {
                        "id": "race %s (serving process killed by signal %d)" % (c["f"], -pr.returncode),
                        "events": [{"ev": "resp", "w": 1, "p": c["ps"][0], "same": False, "ok": False,
                                    "raw": "the serving process was killed by signal %d" % -pr.returncode},
                                   {"ev": "end", "served": 0, "expected": len(c["ps"]), "alive": False, "zombies": 0}],
                        "case": {"kind": "race", "f": c["f"], "ps": c["ps"], "h": c["h"]}}
                    rest = [(i, cc) for i, cc in rest if i != started]
                pending[k] = rest
    finally:
        shutil.rmtree(sd, ignore_errors=True)
    return [results[i] for i in range(len(cases))]
