"""C08 - UMN link files, .cap overrides and abstracts have their documented effect.

Design model: spec/UMN.tla (ImplListing = handlers/UMN.py as coded, RefListing = the manual as pinned
in DESIGN.md Appendix E.1) checked by TLC on every directory of spec/MC_C08.tla (AsDocumented).
B2: every directory TLC evaluated (state dump) is written to disk and listed through the real
server over Gopher, once per World (one World per extstrip mode: UMN.extstrip is a module-level
lazy).  B3: the lexed menu is judged by TLC against RefListing in spec/trace/TraceC08.tla.

gamma: abstract directory record -> files.  alpha: Gopher menu bytes -> entries.  No judgement here."""
from __future__ import annotations

import json
import os
import random

from harness import core, tlc
from harness.tlaparse import iter_dump_states

# Coded deviations of handlers/UMN.py from the manual that the transcription in spec/UMN.tla follows.
# When /repo gets a fix: for one of them, delete its name here (the check reports DRIFT until then).
# Already fixed in /repo and therefore removed: DashOnlyInCap (80cc635), NumAlwaysMerged (7c19da0),
# DoubleHideCrash (1fe5e21).  CommentEndsBlock is recorded in known_findings.json (C08-comment-ends-block).
QUIRKS = ["CommentEndsBlock"]
if os.environ.get("VERIF_C08_QUIRKS") is not None:      # development: try the model without a quirk
    QUIRKS = [q for q in os.environ["VERIF_C08_QUIRKS"].split(",") if q]

MC_CFG = """SPECIFICATION Spec
CONSTANTS
  Quirks = {%(quirks)s}
  Tier = "%(tier)s"
INVARIANT AsDocumented
CHECK_DEADLOCK FALSE
"""
BLOCK_CFG = """SPECIFICATION Spec
CONSTANTS
  Quirks = {%(quirks)s}
INVARIANT BlockAsDocumented
PROPERTY Progress
CHECK_DEADLOCK FALSE
"""
TRACE_CFG = """SPECIFICATION TSpec
CONSTANTS
  Quirks = {%(quirks)s}
CONSTRAINT Record
POSTCONDITION Post
CHECK_DEADLOCK FALSE
"""
SERVER = {"host": "this.example", "port": "7071"}
MODES = ("none", "nonencoded", "full")
TIMEOUTS = {"quick": 600, "thorough": 3000}

_W = None
_WMODE = None
_HANDLERS = "default"
_ROOTS = None          # parent-owned scratch directory holding the workers' document roots (removed by the parent)


def _cfg(text, tier=""):
    return text % {"quirks": ", ".join('"%s"' % q for q in QUIRKS), "tier": tier}


# ---- gamma: directory record -> files on disk -------------------------------------------------------
def _world(mode):
    """One World per extstrip mode (the option is read once into the module-level UMN.extstrip)."""
    global _W, _WMODE
    if _W is None or _WMODE != mode:
        from harness.world import World
        if _W is not None:
            _W.close()
        _W = World(root=_new_root(), handlers=_HANDLERS, overrides={
            ("handlers.UMN.UMNDirHandler", "extstrip"): mode,
            ("handlers.dir.DirHandler", "cachetime"): "0",
            ("pygopherd", "abstract_entries"): "always",
            ("pygopherd", "abstract_headers"): "on",
            ("pygopherd", "servername"): SERVER["host"],
            ("pygopherd", "advertisedport"): SERVER["port"],
            # FileInfo in spec/UMN.tla describes the tree without decompressors (World "full" configures gzip)
            ("handlers.file.CompressedFileHandler", "decompressors"): "{}"})
        _WMODE = mode
    return _W


def _new_root():
    import tempfile
    if _ROOTS is None:
        return None                      # World makes (and close() removes) its own
    return tempfile.mkdtemp(prefix="root-", dir=_ROOTS)


def _text(lines):
    return "".join(l + "\n" for l in lines)


def materialise(w, d, kinds):
    w.clear()
    w.mkdir("d")
    kind = dict(zip(d["files"], kinds))
    for f in d["files"]:
        if kind[f] == "dir":
            w.mkdir("d/" + f)
            w.write("d/" + f + "/inner.txt", b"inner\n")
        else:
            w.write("d/" + f, b"content of " + f.encode() + b"\n")
    if d["lf"]["has"]:
        w.write("d/.names", _text(d["lf"]["lines"]))
    if d["cap"]["has"]:
        w.write("d/.cap/" + d["cap"]["f"], _text(d["cap"]["lines"]))
    faults = {}
    for s in d["side"]:
        p = side_path(s, kind)
        if p is None:
            continue
        if s["kind"] == "dir":                      # a directory named like the side-car
            w.mkdir(p)
        else:
            w.write(p, _text(s["text"]))
            if s["kind"] != "text":                 # a regular file whose open() fails with this errno
                faults[w.path(p)] = s["kind"]
    return faults


def side_path(s, kind):
    if s["f"] == ".":
        return "d/" + s["ext"]
    if s["f"] not in kind:
        return None
    return "d/%s/%s" % (s["f"], s["ext"]) if kind[s["f"]] == "dir" else "d/%s%s" % (s["f"], s["ext"])


class _OpenFaults:
    """Substituted open() (envsub): opening one of the given paths for reading fails with the errno named."""

    def __init__(self, faults):
        self.faults, self.fired, self.active = faults, 0, False

    def __call__(self, path, mode):
        if not self.active or "r" not in mode and mode not in ("", None):
            return None
        e = self.faults.get(path)
        if e is None:
            return None
        import errno
        self.fired += 1
        return OSError(getattr(errno, e), os.strerror(getattr(errno, e)), path)


# ---- alpha: Gopher menu -> entries -------------------------------------------------------------------
def lex_menu(out: bytes):
    """-> (wellformed, head, entries); an info line belongs to the entry above it."""
    try:
        text = out.decode("utf-8", "surrogateescape")
    except Exception:
        return False, [], []
    if text and not text.endswith("\r\n"):
        return False, [], []
    head, entries = [], []
    for line in text.split("\r\n")[:-1]:
        f = line.split("\t")
        if len(f) not in (4, 5) or not f[0] or (len(f) == 5 and f[4] != "+"):
            return False, head, entries
        typ, name = f[0][0], f[0][1:]
        if typ == "i" and f[1] == "fake" and f[2] == "(NULL)" and f[3] == "0":
            (entries[-1]["abs"] if entries else head).append(name)
        else:
            entries.append({"type": typ, "name": name, "sel": f[1], "host": f[2], "port": f[3], "abs": []})
    return True, head, entries


def run_case(job):
    d, kinds = job
    w = _world(d["mode"])
    faults = materialise(w, d, kinds)
    from harness import envsub
    hook = _OpenFaults(faults)
    envsub.ENV.open_hook = hook if faults else None
    hook.active = True
    try:
        r = w.request(b"/d\r\n")
    finally:
        hook.active = False
        envsub.ENV.open_hook = None
    import pygopherd.handlers.UMN as umn
    wf, head, entries = lex_menu(r.out)
    ok = wf and r.escaped is None and not any("EXCEPTION" in l for l in r.log)
    # follow every menu line that points at this server: can the listed selector be fetched?
    fetch = []
    for e in entries:
        if e["host"] == SERVER["host"] and e["port"] == SERVER["port"] and "\t" not in e["sel"] and "\n" not in e["sel"]:
            fr = w.request(e["sel"].encode("utf-8", "surrogateescape") + b"\r\n")
            first = fr.out.split(b"\r\n", 1)[0]
            fetch.append("noreply" if not fr.out else
                         "notfound" if first.startswith(b"3") and first.endswith(b"\terror.host\t1") else "ok")
        else:
            fetch.append("n/a")
    ev = {"ev": "listing", "ok": ok, "out": entries, "head": head, "fetch": fetch}
    extra = {"raw": r.out[:800].decode("latin-1"), "log": r.log[-3:], "escaped": r.escaped,
             "extstrip_in_force": umn.extstrip, "handler": [l for l in r.log if "Handler]" in l][:1],
             "faults_wanted": len(faults), "faults_fired": hook.fired}
    return ev, extra


def _init_worker():
    global _W, _WMODE
    _W, _WMODE = None, None


def _dir_for_trace(d):
    return {"sel": d["sel"], "files": list(d["files"]), "mode": d["mode"],
            "lf": {"has": d["lf"]["has"], "lines": list(d["lf"]["lines"])},
            "cap": {"has": d["cap"]["has"], "f": d["cap"]["f"], "lines": list(d["cap"]["lines"])},
            "side": [{"f": s["f"], "ext": s.get("ext", ".abstract"), "kind": s.get("kind", "text"), "text": list(s["text"])}
                     for s in d["side"]],
            "srv": dict(d["srv"])}


def case_key(d):
    return "mode=%s|files=%s|side=%s|names=%s|cap=%s" % (
        d["mode"], ",".join(d["files"]),
        ",".join(s["f"] if (s["ext"], s["kind"]) == (".abstract", "text") else "%s%s=%s" % (s["f"], s["ext"], s["kind"])
                 for s in d["side"]),
        "\\n".join(d["lf"]["lines"]) if d["lf"]["has"] else "-",
        (d["cap"]["f"] + ":" + "\\n".join(d["cap"]["lines"])) if d["cap"]["has"] else "-")


def cases_from_tlc(tier):
    res = tlc.check_model("MC_C08", "MC_C08_run.cfg", extra_files={"MC_C08_run.cfg": _cfg(MC_CFG, tier)},
                          dump=True, coverage=False, timeout=TIMEOUTS[tier])
    cases = []
    try:
        for st in iter_dump_states(res["dump"], wanted={"dir", "phase", "res"}):
            if st["phase"] == "done":
                d = _dir_for_trace(st["dir"])
                cases.append({"dir": d, "kinds": list(st["res"]["kinds"]), "cls": st["res"]["cls"],
                              "scope": st["res"]["scope"], "model_judge": st["res"]["judge"]})
    finally:
        tlc.cleanup(res)
    cases.sort(key=lambda c: case_key(c["dir"]))
    return res, cases


def replay_cases(cases, handlers="default"):
    global _HANDLERS, _ROOTS
    import shutil
    from harness import cachelib
    _HANDLERS = handlers
    _ROOTS = tlc.new_scratch("c08roots")
    order = sorted(range(len(cases)), key=lambda i: (cases[i]["dir"]["mode"], i))     # few World switches per worker
    procs = int(os.environ.get("VERIF_PROCS") or 16)
    # contiguous blocks per mode so that each worker keeps one World as long as possible
    jobs = [(cases[i]["dir"], cases[i]["kinds"]) for i in order]
    try:
        results = cachelib.pool_map(run_case, jobs, _init_worker, procs=procs)
    finally:
        shutil.rmtree(_ROOTS, ignore_errors=True)
        _ROOTS = None
    out = [None] * len(cases)
    for i, r in zip(order, results):
        out[i] = r
    return out


def build_traces(cases, results, tag):
    traces = []
    for c, (ev, extra) in zip(cases, results):
        traces.append({"id": "%s:%s" % (tag, case_key(c["dir"])), "init": {"dir": c["dir"]},
                       "events": [{"ev": ev["ev"], "ok": ev["ok"], "out": ev["out"], "fetch": ev["fetch"]}],
                       "case": c, "extra": extra, "head": ev["head"], "handlers": tag})
    return traces


def validate(traces, timeout=3000):
    from harness import c08_batch
    return c08_batch.validate("TraceC08", "TraceC08_run.cfg", _cfg(TRACE_CFG),
                              [{"id": t["id"], "init": t["init"], "events": t["events"]} for t in traces], timeout=timeout)


def selftest():
    """Binding demonstration: a recorded trace is accepted; the same trace with one field corrupted /
    one entry dropped / entries swapped is rejected by TraceC08, naming the clause."""
    d = {"sel": "/d", "files": ["a.txt", "b", "c.txt.gz"], "mode": "nonencoded",
         "lf": {"has": True, "lines": ["Name=Mid", "Path=a.txt", "Host=+", "Port=+", "", "Path=./b", "Numb=1"]},
         "cap": {"has": False, "f": "", "lines": []}, "side": [{"f": "a.txt", "ext": ".abstract", "kind": "text", "text": ["side one"]},
                                                                 {"f": "b", "ext": ".3d", "kind": "EACCES", "text": ["x"]}], "srv": dict(SERVER)}
    case = {"dir": d, "kinds": ["file", "dir", "file"], "cls": "none", "scope": True}
    global _W
    _init_worker()
    try:
        ev, _extra = run_case((d, case["kinds"]))
    finally:
        if _W is not None:
            _W.close()
            _W = None
    good = {"id": "good", "init": {"dir": d}, "events": [{"ev": "listing", "ok": ev["ok"], "out": ev["out"], "fetch": ev["fetch"]}]}
    variants = [good]
    for name, f in (("host-corrupted", lambda o: o[1].__setitem__("host", "+")),
                    ("entry-dropped", lambda o: o.pop(1)),
                    ("swapped", lambda o: o.reverse()),
                    ("abstract-lost", lambda o: [e.__setitem__("abs", []) for e in o])):
        o = json.loads(json.dumps(ev["out"]))
        f(o)
        variants.append({"id": name, "init": {"dir": d}, "events": [{"ev": "listing", "ok": True, "out": o, "fetch": ["ok"] * len(o)}]})
    variants.append({"id": "plus-link-dead", "init": {"dir": d}, "events": [
        {"ev": "listing", "ok": True, "out": ev["out"], "fetch": ["notfound"] * len(ev["out"])}]})
    variants.append({"id": "event-dropped", "init": {"dir": d}, "events": []})
    tv = validate(variants)
    rej = {r["trace"]["id"]: r["clause"] for r in tv["rejected"]}
    return {"accepted": tv["accepted"], "rejected": rej}


def _dbgkey(traces, rj):
    t = traces[rj["index"]]
    return (t["case"]["cls"], rj["clause"], t["case"]["scope"])


def main(chk, replay=None):
    tier = chk.tier
    if replay:                       # exactly the stored case; the models are not re-run
        with open(replay) as fp:
            rp = json.load(fp)
        cases = [rp["case"]]
        res = blk = {"distinct": 0, "generated": 0, "cmd": "(replay: models not run)", "inv_violations": []}
        n_scope = int(bool(rp["case"]["scope"]))
    else:
        # 1. design model: code-as-transcribed against the manual on every enumerated directory
        res, cases = cases_from_tlc(tier)
        if res["inv_violations"]:
            chk.model_violation("MC_C08", res["inv_violations"], res["out"][-3000:])
        # the block parser as a state machine over the lines of one block (one transition per loop iteration)
        blk = tlc.check_model("MC_C08_block", "MC_C08_block_run.cfg", extra_files={"MC_C08_block_run.cfg": _cfg(BLOCK_CFG)},
                              timeout=TIMEOUTS[tier])
        if blk["inv_violations"]:
            chk.model_violation("MC_C08_block", blk["inv_violations"], blk["out"][-3000:])
        n_scope = sum(1 for c in cases if c["scope"])
        if not cases or n_scope == 0:
            raise core.MachineryError("C08: TLC produced no in-scope directory (cases=%d)" % len(cases))
    # 2. spec -> code: every directory TLC evaluated, through the real server
    handler_lists = ["default"] if tier == "quick" or replay else ["default", "full"]
    if replay and rp["case"].get("handlers"):
        handler_lists = [rp["case"]["handlers"]]
    traces = []
    for hl in handler_lists:
        results = replay_cases(cases, hl)
        traces.extend(build_traces(cases, results, hl))
    # machinery guards: the extstrip option must have reached the code, UMNDirHandler must have served
    for t in traces:
        if t["extra"]["extstrip_in_force"] is not None and t["extra"]["extstrip_in_force"] != t["case"]["dir"]["mode"]:
            # (None = the lazy was not initialised yet: a directory without files never reads the option)
            raise core.MachineryError("C08: extstrip=%r in force, wanted %r (lazy not reset)"
                                      % (t["extra"]["extstrip_in_force"], t["case"]["dir"]["mode"]))
        if not any("UMNDirHandler" in h for h in t["extra"]["handler"]):
            raise core.MachineryError("C08: /d was not served by UMNDirHandler: %r" % (t["extra"],))
    wanted = sum(1 for t in traces if t["extra"]["faults_wanted"])
    unfired = [t["id"] for t in traces if t["extra"]["faults_wanted"] and not t["extra"]["faults_fired"]]
    if not replay and (wanted == 0 or len(unfired) == wanted):       # the whole class would be vacuous
        raise core.MachineryError("C08: injected side-car open() faults not exercised (cases with faults=%d, never fired=%r)"
                                  % (wanted, unfired[:3]))
    # 3. code -> spec: TLC judges every lexed menu against the reference reading
    tv = validate(traces, timeout=TIMEOUTS[tier])
    for rj in tv["rejected"]:
        t = traces[rj["index"]]
        c = t["case"]
        key = "%s|%s|%s" % (rj["clause"], t["handlers"], case_key(c["dir"]))
        chk.violation(key, rj["clause"],
                      {"dir": c["dir"], "kinds": c["kinds"], "cls": c["cls"], "scope": c["scope"], "handlers": t["handlers"]},
                      {"observed": t["events"], "raw": t["extra"]["raw"], "log": t["extra"]["log"],
                       "model_judge_of_transcription": c.get("model_judge")})
    if os.environ.get("VERIF_DEBUG"):                 # development aid: rejections by (input class, clause, ..)
        import collections
        dbg = collections.Counter()
        for rj in tv["rejected"]:
            dbg[_dbgkey(traces, rj)] += 1
        print("DEBUG rejections:", sorted(dbg.items(), key=str))
    chk.note_drift(tv["drift"])
    scoped = [t for t in traces if t["case"]["scope"]]
    # non-trivial: in scope, and the link/.cap/sidecar files changed the menu w.r.t. the bare directory
    bare = {}
    for t in scoped:
        d = t["case"]["dir"]
        if not d["lf"]["has"] and not d["cap"]["has"] and not d["side"]:
            bare[(t["handlers"], d["mode"], tuple(d["files"]))] = json.dumps(t["events"][0]["out"], sort_keys=True)
    nontrivial = set()
    for t in scoped:
        d = t["case"]["dir"]
        b = bare.get((t["handlers"], d["mode"], tuple(d["files"])))
        o = json.dumps(t["events"][0]["out"], sort_keys=True)
        if b is not None and o != b and t["events"][0]["ok"]:
            nontrivial.add(t["id"])
    if not replay and not nontrivial:
        raise core.MachineryError("C08: no enumerated directory changed the menu: link files not exercised")
    by_cls = {}
    for c in cases:
        by_cls[c["cls"]] = by_cls.get(c["cls"], 0) + 1
    rnd = random.Random(chk.seed)
    samples = [{"dir": t["case"]["dir"], "observed": t["events"][0]["out"]} for t in rnd.sample(scoped, min(3, len(scoped)))]
    by_cls = dict(sorted(by_cls.items()))
    cov = {
        "states": res["distinct"] + blk["distinct"], "transitions": res["generated"] + blk["generated"], "exhaustive": True,
        "states_by_model": {"MC_C08": res["distinct"], "MC_C08_block": blk["distinct"]},
        "traces_validated_against_impl": tv["accepted"], "traces_rejected": len(tv["rejected"]),
        "evaluations": len(traces), "distinct_nontrivial": len(nontrivial),
        "rule": "cases = every directory of MC_C08 (families: all orders of all subsets of the six field lines, all "
                "value combinations in canonical order, pairs of blocks / comments / blank lines / padding, .cap files "
                "with and without a link block on the same file, extstrip modes x contents x sidecars), each listed "
                "through the real server per handler list %s; in scope (well-formed, no ties/conflicts) = %d of %d; "
                "non-trivial = in-scope case whose lexed menu differs from the menu of the same bare directory"
                % (handler_lists, n_scope, len(cases)),
        "samples": samples, "checker_cmd": res["cmd"] + " ; " + blk["cmd"] + " ; " + tv["cmd"],
        "trace_states": tv["states"], "trace_chunks_retried": tv["retried"], "in_scope": n_scope, "sidecar_open_faults_injected": sum(t["extra"]["faults_fired"] for t in traces),
        "sidecar_fault_cases_never_fired": len(unfired), "input_classes": by_cls, "quirks_modelled": QUIRKS,
        "bindings": ["B2 every TLC-evaluated directory replayed on disk through World.request", "B3 TraceC08"],
    }
    return chk.finish(cov, [
        "alpha = Gopher menu lexer (info lines attach to the entry above); gamma = files written under /d of a scratch root",
        "generated values of the three file names used (types 0/1/9, extension stripping) are constants of spec/UMN.tla "
        "(FileInfo), valid for the shipped mime.types/mapping and no decompressors",
        "one link file (.names) and one .cap file per directory; Gopher view only (other protocol views: C06/C09)",
        "reference reading = DESIGN.md Appendix E.1; wildcards where it is silent (type of an added entry without Type=, "
        "selector of a relative Path with Host=+/Port=+)",
    ])
