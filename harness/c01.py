"""C01 - nothing outside the document root is ever read, listed, run or revealed.

Design model: spec/FS.tla + spec/Handlers.tla, bounded by spec/MC_C01.tla (every selector string
over a hostile character alphabet up to N characters, every concatenation of up to K hostile
tokens, per frame and handler list).  TLC checks the design argument exhaustively and its state
dump IS the list of replay cases (binding B2).  Every case is concretised (gamma), sent through
the REAL server once per run - a run is a (world, working directory) pair, the worlds have
identical document roots and differ in everything outside - while a Python audit hook records
every open / listdir / scandir / Popen / exec / spawn / remove / rename / mkdir ... with its
real path classified (alpha).  The recorded traces are judged by TLC against
spec/trace/TraceC01.tla (binding B3).  No property logic in this file.
"""
from __future__ import annotations

import configparser
import hashlib
import json
import os
import re
import shutil
import stat
import sys
import zipfile
from concurrent.futures import ThreadPoolExecutor

from harness import core, tlc

NUL = "^"          # abstract characters of spec/Handlers.tla
OTH = "~"
# look-alike classes (Handlers.tla LkDot, LkSlash, LkBack, LkTwoDot) -> representative bytes
LOOKALIKE = {"Q": "\uff0e".encode(), "J": "\uff0f".encode(), "Y": "\uff3c".encode(), "T": "\u2025".encode()}
# ... and back: how those bytes look after the server decoded them (utf-8, surrogateescape)
_UNLOOK = [(b.decode("utf-8", "surrogateescape"), a) for a, b in LOOKALIKE.items()]

# ------------------------------------------------------------------------------------------------
# Tiers.  A plan = one TLC run of MC_C01 (mode, bound, frames, handler lists); every "done" state
# of that run is replayed on the real server in every run (world, cwd) of the tier.
# ------------------------------------------------------------------------------------------------
# prior world states (Handlers!PreStates): cache artefacts lying in the root before the request
ZIP_PRES = ["none", "zsingle_fresh", "zsingle_stale", "zdb", "zpag", "zdumb_garbage", "zdumb_valid"]
DIR_PRES = ["none", "dircache_garbage", "dircache_valid"]
NESTED = ["/i.zip", "/p.zip"]       # members of z.zip named like archives (i.zip is one, p.zip is not): full list only
TIERS = {
    "quick": dict(
        runs=[("A", "w"), ("B", "r")],
        plans=[
            dict(mode="chars", n=3, frames=["G", "GP", "H", "W", "GEM", "SP"], lists=["default"]),
            dict(mode="chars", n=4, frames=["G", "H"], lists=["default"]),
            dict(mode="tokens", n=2, frames=["GP", "GPI", "W", "GEM", "HH"], lists=["default"]),
            dict(mode="tokens", n=3, frames=["G", "H", "SP"], lists=["default"]),
            dict(mode="tokens", n=3, frames=["GS", "H"], lists=["full"], extra=NESTED),
            dict(mode="tokens", n=2, frames=["GS", "H"], lists=["full"], pres=ZIP_PRES[1:]),       # ("none" = the plans above)
            dict(mode="tokens", n=2, frames=["G", "H"], lists=["default"], pres=DIR_PRES[1:]),
        ],
        design_only=[],
    ),
    "thorough": dict(
        runs=[("A", "w"), ("B", "r"), ("B", "top")],
        plans=[
            dict(mode="chars", n=4, frames=["G", "GP", "GPI", "GPD", "GS", "GPS", "H", "HH", "HS", "W", "GEM", "SP"],
                 lists=["default"]),
            dict(mode="chars", n=4, frames=["G", "GS", "H", "SP"], lists=["full"]),
            dict(mode="chars", n=5, frames=["H"], lists=["default"]),
            dict(mode="tokens", n=3, frames=["G", "GP", "GPI", "GPD", "GS", "GPS", "H", "HH", "HS", "W", "GEM", "SP"],
                 lists=["default"]),
            dict(mode="tokens", n=3, frames=["G", "GP", "GPI", "GPD", "GS", "GPS", "H", "HH", "HS", "W", "GEM", "SP"],
                 lists=["full"], extra=NESTED),
            dict(mode="tokens", n=4, frames=["G"], lists=["default"]),
            dict(mode="tokens", n=4, frames=["GS"], lists=["full"], extra=NESTED),
            dict(mode="tokens", n=3, frames=["GS", "H"], lists=["full"], pres=ZIP_PRES[1:] + DIR_PRES[1:]),
            dict(mode="tokens", n=3, frames=["G", "GP", "H"], lists=["default"], pres=DIR_PRES[1:]),
        ],
        design_only=[dict(mode="chars", n=5, frames=["G", "SP"], lists=["default"]),
                     dict(mode="chars", n=6, frames=["H"], lists=["default"])],
    ),
}
STOP_AFTER = 100        # violations (replay files are capped at 100 anyway): later plans add nothing to a FAIL
TLS_FRAMES = {"GS", "GPS", "HS", "GEM"}

MC_CFG = """SPECIFICATION Spec
CONSTANTS
  Mode = "%(mode)s"
  MaxLen = %(n)d
  Frames = {%(frames)s}
  Lists = {%(lists)s}
  ExtraTokens = {%(extra)s}
  Pres = {%(pres)s}
INVARIANT DesignHolds
CHECK_DEADLOCK FALSE
"""

# ------------------------------------------------------------------------------------------------
# B1: facts of the working tree that the model depends on -> spec/MC_C01_consts.tla (regenerated)
# ------------------------------------------------------------------------------------------------
CONSTS_TMPL = """--------------------------- MODULE MC_C01_consts ---------------------------
\\* GENERATED by harness/c01.py from %(repo)s (binding B1) - see spec/MC_C01_consts.tla for the meaning
NulRaises == %(nul)s
ZipCountsAsReal == %(zipreal)s
NestedZipProbesCwd == %(nested)s
DefaultList == <<%(default)s>>
FullList == <<%(full)s>>
=============================================================================
"""


def _class_names(listtext):
    return [x.split(".")[-1] for x in re.findall(r"[A-Za-z_][\w.]*", listtext)]


def bind_constants():
    """Handler lists from conf/pygopherd.conf (+ the harness's full list) and two behavioural
    probes of the code for the named deviations.  Returns (module text, info dict)."""
    from harness import world
    info = {"available": True, "notes": []}
    cp = configparser.ConfigParser()
    cp.read(os.path.join(core.REPO, "conf", "pygopherd.conf"))
    default = _class_names(cp.get("handlers.HandlerMultiplexer", "handlers"))
    full = _class_names(world.FULL_HANDLERS)
    nul = zipreal = nested = True
    base = tlc.new_scratch("c01-b1")
    try:
        zone = build_zone(os.path.join(base, "A"), "A")
        w = world.World(root=zone["root"], handlers="full")
        try:
            from pygopherd import GopherExceptions
            from pygopherd.handlers import HandlerMultiplexer
            try:
                HandlerMultiplexer.getHandler("/g\0", None, None, w.config)
                info["notes"].append("NUL probe: a handler was returned")
                nul = False
            except GopherExceptions.FileNotFound:
                nul = False
            except ValueError:
                nul = True
        except Exception as e:  # refactored away: keep the pinned value, say so
            info["available"] = False
            info["notes"].append("NulRaises probe unavailable: %r" % (e,))
        try:
            from pygopherd.handlers import ZIP, scriptexec
            from pygopherd.handlers.base import VFS_Real
            vz = ZIP.VFSZip(w.config, VFS_Real(w.config), "/z.zip")
            st = (stat.S_IFREG | 0o755, 0, 0, 1, 0, 0, 10, 0, 0, 0)
            h = scriptexec.ExecHandler("/z.zip/s.sh", None, None, w.config, st, vz)
            zipreal = bool(h.canhandlerequest())
            del h
            # does ZIPHandler, given the archive's index, look for <cwd>/i.zip ?  (cwd holds a real one)
            home = os.getcwd()
            os.chdir(os.path.join(zone["zone"], "o", "w"))
            try:
                zh = ZIP.ZIPHandler("/z.zip/i.zip", None, None, w.config, None, vz)
                nested = bool(zh.canhandlerequest())
            finally:
                os.chdir(home)
            del zh, vz
        except Exception as e:
            info["available"] = False
            info["notes"].append("ZipCountsAsReal/NestedZipProbesCwd probe unavailable: %r" % (e,))
    finally:
        shutil.rmtree(base, ignore_errors=True)
    info.update(NulRaises=nul, ZipCountsAsReal=zipreal, NestedZipProbesCwd=nested, DefaultList=default, FullList=full)
    q = lambda names: ", ".join('"%s"' % n for n in names)
    text = CONSTS_TMPL % dict(repo=core.REPO, nul="TRUE" if nul else "FALSE", zipreal="TRUE" if zipreal else "FALSE",
                              nested="TRUE" if nested else "FALSE", default=q(default), full=q(full))
    return text, info


# ------------------------------------------------------------------------------------------------
# gamma: the tree of spec/FS.tla on disk.  zone/ is the abstract "/", zone/o/r the document root.
# ------------------------------------------------------------------------------------------------
T_IN = 1_000_000_000                    # mtime of everything inside the root (both worlds)
T_OUT = {"A": 1_100_000_000, "B": 1_200_000_000}
MBOX_IN = b"From someone@example.org Wed Jan  1 00:00:00 2020\nSubject: inside mbox message\n\nbody inside\n"
MSG_IN = b"From: someone@example.org\nSubject: inside maildir message\n\nbody inside\n"
SCRIPT_IN = b"#!/bin/sh\necho inside-script\n"


def _zip_bytes(mark=b"", nested=True):
    import io
    buf = io.BytesIO()
    dt = (2020, 1, 2, 3, 4, 6)

    def info(name, mode, isdir=False):
        zi = zipfile.ZipInfo(name, date_time=dt)
        zi.create_system = 3
        zi.external_attr = ((stat.S_IFDIR if isdir else stat.S_IFREG) | mode) << 16
        if isdir:
            zi.external_attr |= 0x10
        return zi

    with zipfile.ZipFile(buf, "w") as zf:
        zf.writestr(info("g", 0o644), mark + b"zip member g\n")
        zf.writestr(info("k/", 0o755, True), b"")
        zf.writestr(info("k/g", 0o644), b"zip member k/g\n")
        zf.writestr(info("k/s.sh", 0o755), b"#!/bin/sh\necho zip-member-script\n")
        zf.writestr(info("s.sh", 0o755), b"#!/bin/sh\necho zip-member-script\n")
        zf.writestr(info("m.mbox", 0o644), MBOX_IN.replace(b"inside mbox", b"zip mbox"))
        zf.writestr(info("md/", 0o755, True), b"")
        zf.writestr(info("md/new/", 0o755, True), b"")
        zf.writestr(info("md/cur/", 0o755, True), b"")
        zf.writestr(info("md/new/1", 0o644), MSG_IN.replace(b"inside maildir", b"zip maildir"))
        if nested:        # members NAMED like archives: i.zip is one (holding g), p.zip is plain bytes
            zf.writestr(info("i.zip", 0o644), _zip_bytes(mark + b"nested ", nested=False))
            zf.writestr(info("p.zip", 0o644), b"not an archive, only named like one\n")
    return buf.getvalue()


def build_zone(zone, which):
    """Build world `which` ("A"/"B") under `zone`; returns {zone, root, manifest}.  The document
    roots of A and B are byte- and mtime-identical; everything else differs."""
    files, dirs, links, modes = {}, [], {}, {}
    dirs += ["o", "o/r", "o/r/k", "o/r/md", "o/r/md/new", "o/r/md/cur", "o/r/md/tmp", "o/rg", "o/w", "o/w/k", "o/k"]
    files["o/r/g"] = b"inside file g\n"
    files["o/r/k/g"] = b"inside k/g\n"
    files["o/r/z.zip"] = _zip_bytes()
    files["o/r/m.mbox"] = MBOX_IN
    files["o/r/s.sh"] = SCRIPT_IN
    modes["o/r/s.sh"] = 0o755
    files["o/r/md/new/1"] = MSG_IN
    links["o/r/lk"] = "k"
    links["o/r/lg"] = "g"
    tag = which.encode()
    files["o/secret"] = b"SECRET-" + tag * (1 if which == "A" else 9) + b"\n"
    files["o/rg/g"] = b"sibling " + tag * (1 if which == "A" else 5) + b"\n"
    # the parent of the root looks like the root (same names), with other content
    files["o/g"] = b"OUTSIDE file g " + tag * (1 if which == "A" else 3) + b"\n"
    files["o/m.mbox"] = MBOX_IN.replace(b"inside", b"OUTSIDE-PARENT-" + tag)
    files["o/s.sh"] = b"#!/bin/sh\necho OUTSIDE-PARENT-PROGRAM-" + tag + b"\n"
    modes["o/s.sh"] = 0o755
    files["o/z.zip"] = _zip_bytes(b"OUTSIDE-" + tag + b" ")
    files["o/w/m.mbox"] = MBOX_IN.replace(b"inside", b"OUTSIDE-" + tag)
    files["o/w/k/s.sh"] = b"#!/bin/sh\necho OUTSIDE-PROGRAM-" + tag + b"\n"
    modes["o/w/k/s.sh"] = 0o755
    files["o/w/s.sh"] = files["o/w/k/s.sh"]
    modes["o/w/s.sh"] = 0o755
    # look-alikes of the archive's members named *.zip, in the working directory
    if which == "A":
        files["o/w/i.zip"] = _zip_bytes(b"OUTSIDE-A SECRET in <cwd>/i.zip ", nested=False)
        files["o/w/p.zip"] = _zip_bytes(b"OUTSIDE-A SECRET in <cwd>/p.zip ", nested=False)
    else:
        files["o/w/p.zip"] = b"plain bytes in world B\n"
    if which == "A":
        dirs += ["o/new", "o/cur", "o/tmp", "o/w/md", "o/w/md/new", "o/w/md/cur", "o/w/md/tmp",
                 "o/md", "o/md/new", "o/md/cur", "o/md/tmp"]
        files["o/md/new/1"] = MSG_IN.replace(b"inside", b"OUTSIDE-A-parent-md")
        files["o/k/g"] = b"OUTSIDE k/g A\n"
        files["o/new/1"] = MSG_IN.replace(b"inside", b"OUTSIDE-A")
        files["o/w/md/new/1"] = MSG_IN.replace(b"inside", b"OUTSIDE-A-cwd")
        files["o/w/g"] = b"cwd file g A\n"
        files["o/w/k/g"] = b"cwd file k/g A\n"
    os.makedirs(zone)
    for d in dirs:
        os.makedirs(os.path.join(zone, d), exist_ok=True)
    for rel, data in files.items():
        with open(os.path.join(zone, rel), "wb") as fp:
            fp.write(data)
        os.chmod(os.path.join(zone, rel), modes.get(rel, 0o644))
    for rel, tgt in links.items():
        os.symlink(tgt, os.path.join(zone, rel))
    manifest = {"": "dir"}
    manifest.update({d: "dir" for d in dirs})
    manifest.update({f: "file" for f in files})
    manifest.update({ln: "link" for ln in links})
    z = {"zone": zone, "root": os.path.join(zone, "o", "r"), "manifest": manifest, "which": which}
    z["real_zone"] = os.path.realpath(z["zone"])
    z["real_root"] = os.path.realpath(z["root"])
    stamp(z)
    return z


def _mtime_for(z, rel):
    return T_IN if (rel == "o/r" or rel.startswith("o/r/")) else T_OUT[z["which"]]


def stamp(z):
    for rel in z["manifest"]:
        t = _mtime_for(z, rel)
        os.utime(os.path.join(z["zone"], rel), (t, t), follow_symlinks=False)


def dirty(z):
    """Did anything appear/disappear in the zone?  (every directory's mtime is stamped)"""
    for rel, kind in z["manifest"].items():
        if kind == "dir":
            try:
                if int(os.lstat(os.path.join(z["zone"], rel)).st_mtime) != _mtime_for(z, rel):
                    return True
            except OSError:
                return True
    return False


ZCACHE = ".cache.pygopherd.zip3.z.zip"
GARBAGE = b"\x13\x57\x9a\xce" + b"\0" * 60 + b"not an index\n"


def plant(z, w, pre):
    """gamma for Handlers!PreStates: put cache artefacts into the root (same bytes and times in both
    worlds).  *_valid states are produced by the server itself in an unobserved priming request."""
    if pre == "none":
        return
    root = z["root"]
    fresh, stale = T_IN + 50, T_IN - 50           # the archive's mtime is T_IN

    def put(rel, data, t):
        p = os.path.join(root, rel)
        with open(p, "wb") as fp:
            fp.write(data)
        os.utime(p, (t, t))

    if pre == "zsingle_fresh":
        put(ZCACHE, GARBAGE, fresh)
    elif pre == "zsingle_stale":
        put(ZCACHE, GARBAGE, stale)
    elif pre == "zdb":
        put(ZCACHE, GARBAGE, fresh)
        put(ZCACHE + ".db", GARBAGE, fresh)
    elif pre == "zpag":
        put(ZCACHE, b"", fresh)
        put(ZCACHE + ".pag", GARBAGE, fresh)
        put(ZCACHE + ".dir", GARBAGE, fresh)
    elif pre == "zdumb_garbage":
        put(ZCACHE, b"", fresh)
        for e in (".dat", ".dir", ".bak"):
            put(ZCACHE + e, GARBAGE, fresh)
    elif pre == "zdumb_valid":                      # "second request": the index the server wrote + the plain name
        w.request(b"/z.zip\r\n")
        for n in os.listdir(root):
            if n.startswith(ZCACHE):
                os.utime(os.path.join(root, n), (fresh, fresh))
        if not os.path.exists(os.path.join(root, ZCACHE)):
            put(ZCACHE, b"", fresh)
    elif pre in ("dircache_garbage", "dircache_valid"):
        import time
        now = time.time()
        if pre == "dircache_valid":
            w.request(b"/\r\n")
            w.request(b"/k\r\n")
        for d in ("", "k"):
            p = os.path.join(root, d, ".cache.pygopherd.dir")
            if pre == "dircache_garbage":
                put(os.path.join(d, ".cache.pygopherd.dir"), GARBAGE, now)
            elif os.path.exists(p):
                os.utime(p, (now, now))
    else:
        raise core.MachineryError("C01: unknown prior state %r" % pre)
    stamp(z)


def restore(z):
    """Remove whatever the request created (directory caches, ZIP index, mailboxes) and re-stamp, so
    that every case runs on the pristine tree whatever ran before it."""
    zone, man = z["zone"], z["manifest"]
    for dp, dns, fns in os.walk(zone):
        rel = os.path.relpath(dp, zone)
        rel = "" if rel == "." else rel
        for n in list(dns):
            r = (rel + "/" + n) if rel else n
            if r not in man or man[r] != "dir":
                p = os.path.join(dp, n)
                if os.path.islink(p):
                    if man.get(r) != "link":
                        os.unlink(p)
                else:
                    shutil.rmtree(p, ignore_errors=True)
                dns.remove(n)
        for n in fns:
            r = (rel + "/" + n) if rel else n
            if r not in man:
                os.unlink(os.path.join(dp, n))
    for rel, kind in man.items():
        if not os.path.lexists(os.path.join(zone, rel)):
            raise core.MachineryError("C01: the server removed %s from the test zone" % rel)
    stamp(z)


# ------------------------------------------------------------------------------------------------
# alpha part 1: the audit hook (installed once per process; cannot be removed)
# ------------------------------------------------------------------------------------------------
class _Hook:
    installed = False
    armed = False
    ops = []             # (op, class, path shown)
    rawpaths = []        # path arguments as handed to the OS (absolute ones under the root), for LiteralPath
    relpaths = 0         # relative path arguments (resolved against the working directory)
    unrooted = 0         # absolute path arguments in the test zone that do not even start with the root string
    modified = False
    root = None          # real path of the current document root
    zone = None
    cache = {}
    config_programs = ()
    seen_events = 0


PATH_EVENTS = {      # event -> (abstract op, indices of path arguments)
    "open": ("open", (0,)), "os.listdir": ("list", (0,)), "os.scandir": ("list", (0,)),
    "os.walk": ("list", (0,)), "os.fwalk": ("list", (0,)), "glob.glob": ("list", (0,)),
    "os.mkdir": ("modify", (0,)), "os.rmdir": ("modify", (0,)), "os.remove": ("modify", (0,)),
    "os.rename": ("modify", (0, 1)), "os.chmod": ("modify", (0,)), "os.chown": ("modify", (0,)),
    "os.utime": ("modify", (0,)), "os.truncate": ("modify", (0,)), "os.link": ("modify", (0, 1)),
    "os.symlink": ("modify", (1,)), "shutil.copyfile": ("modify", (0, 1)), "shutil.move": ("modify", (0, 1)),
    "shutil.rmtree": ("modify", (0,)), "shutil.copytree": ("modify", (0, 1)),
    "tempfile.mkstemp": ("modify", (0,)), "tempfile.mkdtemp": ("modify", (0,)),
    "os.chdir": ("modify", (0,)), "os.chroot": ("modify", (0,)),
}
RUN_EVENTS = {"subprocess.Popen": 0, "os.exec": 0, "os.posix_spawn": 0, "os.spawn": 1, "os.system": None,
              "os.startfile": 0, "pty.spawn": 0}
_RUNTIME = None


def _runtime_prefixes():
    global _RUNTIME
    if _RUNTIME is None:
        ps = {sys.prefix, sys.base_prefix, sys.exec_prefix, os.path.dirname(os.__file__), core.REPO, core.VERIF}
        _RUNTIME = tuple(sorted({os.path.realpath(p) for p in ps if p}))
    return _RUNTIME


def _classify(path):
    """inside (the document root) / runtime (interpreter, repository, harness) / invalid (cannot name
    a file) / outside (everything else).  Symlinks are followed: the REAL path counts."""
    if isinstance(path, bytes):
        path = os.fsdecode(path)
    elif not isinstance(path, str):
        try:
            path = os.fspath(path)
            if isinstance(path, bytes):
                path = os.fsdecode(path)
        except TypeError:
            return None, None
    cwd = os.getcwd()
    key = (cwd, path)
    if not path.startswith("/"):
        _Hook.relpaths += 1
    elif path == _Hook.rootstr or path.startswith(_Hook.rootstr + "/"):
        _Hook.rawpaths.append(path[len(_Hook.rootstr):])
    elif path.startswith(_Hook.zonestr + "/"):
        _Hook.unrooted += 1
    hit = _Hook.cache.get(key)
    if hit is not None:
        return hit
    if "\0" in path:
        res = ("invalid", repr(path))
    else:
        real = os.path.realpath(os.path.join(cwd, path))
        root = _Hook.root
        if real == root or real.startswith(root + "/"):
            res = ("inside", real[len(_Hook.zone):])
        elif real in ("/dev/null", "/dev/urandom") or any(real == p or real.startswith(p + "/") for p in _runtime_prefixes()):
            res = ("runtime", real)
        elif real == _Hook.zone or real.startswith(_Hook.zone + "/"):
            res = ("outside", real[len(_Hook.zone):] or "/")
        else:
            res = ("outside", "<system>" + real)
    if len(_Hook.cache) < 20000:
        _Hook.cache[key] = res
    return res


def _audit(event, args):
    if not _Hook.armed:
        return
    pe = PATH_EVENTS.get(event)
    if pe is not None:
        _Hook.seen_events += 1
        op, idxs = pe
        if event == "open":
            if isinstance(args[0], int):
                return
            mode = args[1] or ""
            if isinstance(mode, str) and any(c in mode for c in "wax+"):
                op = "modify" if not mode.startswith("r") else "open"       # "rb+" of mailbox: a read-write open
                _Hook.modified = True
        elif op == "modify":
            _Hook.modified = True
        for i in idxs:
            if i < len(args) and args[i] is not None and not isinstance(args[i], int):
                cls, shown = _classify(args[i])
                if cls is not None:
                    _Hook.ops.append((op, cls, shown))
        return
    if event in RUN_EVENTS:
        _Hook.seen_events += 1
        i = RUN_EVENTS[event]
        exe = args[i] if i is not None and i < len(args) else None
        if isinstance(exe, bytes):
            exe = os.fsdecode(exe)
        if not isinstance(exe, str):
            _Hook.ops.append(("run", "outside", "<%s>" % event))
        elif "/" not in exe:          # PATH lookup: fine only for a program the configuration names
            _Hook.ops.append(("run", "config" if exe in _Hook.config_programs else "outside", "PATH:" + exe))
        else:
            cls, shown = _classify(exe)
            _Hook.ops.append(("run", cls, shown))


def install_hook():
    if not _Hook.installed:
        sys.addaudithook(_audit)
        _Hook.installed = True


# ------------------------------------------------------------------------------------------------
# gamma part 2: frames;  alpha part 2: responses and log lines
# ------------------------------------------------------------------------------------------------
def sel_bytes(raw, url):
    """Abstract selector -> bytes: NUL, and one representative per look-alike class (raw bytes in a
    Gopher line, percent-encoded where the request line carries a URL path)."""
    out = []
    for ch in raw:
        if ch == NUL:
            out.append(b"\0")
        elif ch in LOOKALIKE:
            b = LOOKALIKE[ch]
            out.append(b"".join(b"%%%02X" % x for x in b) if url else b)
        else:
            out.append(ch.encode("latin-1"))
    return b"".join(out)


def concretise(frame, raw, waptop="/wap"):
    sel = sel_bytes(raw, url=frame not in ("G", "GS", "GP", "GPS", "GPI", "GPD"))
    lead = sel if sel.startswith(b"/") else b"/" + sel
    f = frame
    if f in ("G", "GS"):
        return sel + b"\r\n"
    if f in ("GP", "GPS"):
        return sel + b"\t+\r\n"
    if f == "GPI":
        return sel + b"\t!\r\n"
    if f == "GPD":
        return sel + b"\t$\r\n"
    if f in ("H", "HS"):
        return b"GET " + lead + b" HTTP/1.0\r\n\r\n"
    if f == "HH":
        return b"HEAD " + lead + b" HTTP/1.0\r\n\r\n"
    if f == "W":
        return b"GET " + waptop.encode() + lead + b" HTTP/1.0\r\n\r\n"
    if f == "GEM":
        return b"gemini://localhost" + lead + b"\r\n"
    if f == "SP":
        return b"localhost " + lead + b" 0\r\n"
    raise core.MachineryError("C01: unknown frame %r" % frame)


_G_NF = re.compile(rb"3[^\t\r\n]*\t\terror\.host\t1\r\n\Z")


def resp_class(frame, out, failed=True):
    """Response class in the protocol's own syntax (lexing only).  Zero bytes: "noreply" when an
    exception ended the request, "empty" otherwise (a Gopher menu without entries)."""
    if not out:
        return "noreply" if failed else "empty"
    if frame in ("G", "GS"):
        return "notfound" if _G_NF.match(out) else "ok"
    if frame in ("GP", "GPS", "GPI", "GPD"):
        return "notfound" if out.startswith(b"--2\r\n") else ("ok" if out.startswith(b"+") else "other")
    if frame in ("H", "HH", "HS"):
        return "notfound" if out.startswith(b"HTTP/1.0 404 Not Found\r\n") else (
            "ok" if out.startswith(b"HTTP/1.0 200 ") else "other")
    if frame == "W":          # WAP's own not-found: status line "200 Not Found" + a WML card titled "404 Error"
        return "notfound" if out.startswith(b"HTTP/1.0 200 Not Found\r\n") and b'title="404 Error"' in out else (
            "ok" if out.startswith(b"HTTP/1.0 200 OK\r\n") else "other")
    if frame == "GEM":
        return "notfound" if out.startswith(b"51 ") else ("ok" if out.startswith(b"20 ") else "other")
    if frame == "SP":
        return "notfound" if out.startswith(b"4 ") else ("ok" if out.startswith(b"2 ") else (
            "error" if out.startswith(b"5 ") else "other"))
    return "other"


_DROP = set("^~")
_LOG_OK = re.compile(r"\[(\w+)/(\w+)\]: (.*)\Z", re.S)
_LOG_NF = re.compile(r"EXCEPTION FileNotFound: '(.*)' does not exist", re.S)
_LOG_EXC = re.compile(r"EXCEPTION (\w+)")


def abstract_sel(s):
    """Characters as the model names them: NUL is "^"; a real "^" or "~", anything non-printable or
    non-ASCII is "~" (the model's 'some other byte')."""
    for real, a in _UNLOOK:
        s = s.replace(real, "\x01" + a)          # \x01 marks "this letter is a look-alike class"
    out, mark = [], False
    for c in s:
        if c == "\x01":
            mark = True
            continue
        if mark:
            out.append(c)
            mark = False
        elif c in LOOKALIKE:                      # a real Q J Y T V: not in any alphabet
            out.append(OTH)
        else:
            out.append("^" if c == "\0" else (c if (" " <= c <= "}" and c not in _DROP) else OTH))
    return out


def read_log(lines):
    """(handler class, selector as abstract characters or None, other exception classes)"""
    handler, sel, handled, excs = "none", None, None, []
    for ln in lines:
        m = _LOG_NF.search(ln)
        if m:
            sel = m.group(1)
            continue
        m = _LOG_EXC.search(ln)
        if m:
            excs.append(m.group(1))
            continue
        m = _LOG_OK.search(ln)
        if m:
            handler, handled = m.group(2), m.group(3)
    if handled is not None:          # the request's own selector, not that of a child lookup that failed later
        sel = handled
    return handler, (abstract_sel(sel) if sel is not None else None), excs


# ------------------------------------------------------------------------------------------------
# worker: two worlds, the real server, one observation per (case, run)
# ------------------------------------------------------------------------------------------------
_W = {}
_BASE = None
CPU_LIMIT_S = 1.0       # CPU seconds (NOT wall clock) one request may burn; measured maximum after warm-up: 0.01 s


class RequestCpuLimit(BaseException):
    """The request did not finish within CPU_LIMIT_S of process CPU time (a non-terminating loop in
    the server).  Observed as 'no reply' with this exception class; never a harness failure."""


def _on_cpu_limit(signum, frame):
    raise RequestCpuLimit()



def _init_worker():
    from harness import world  # noqa: installs envsub, imports pygopherd from VERIF_REPO
    install_hook()
    # the import system lists every sys.path entry; a relative entry would make a lazy import inside a
    # request look like the server listing its working directory
    sys.path[:] = [os.path.abspath(p) if p in ("", ".") else p for p in sys.path]
    import signal
    signal.signal(signal.SIGVTALRM, _on_cpu_limit)
    wd = os.path.join(_BASE, "p%d" % os.getpid())
    _W.clear()
    _W["zones"] = {k: build_zone(os.path.join(wd, k), k) for k in ("A", "B")}
    _W["worlds"] = {}
    _W["home"] = os.getcwd()
    # the hook must see and classify: self-check on a deliberate access outside the root
    z = _W["zones"]["A"]
    _arm(z)
    try:
        with open(os.path.join(z["zone"], "o", "secret"), "rb"):
            pass
        os.listdir(os.path.join(z["zone"], "o"))
        with open(os.path.join(z["root"], "g"), "rb"):
            pass
    finally:
        _Hook.armed = False
    got = [(o, c) for o, c, _p in _Hook.ops]
    if got != [("open", "outside"), ("list", "outside"), ("open", "inside")]:
        raise core.MachineryError("C01: audit hook self-check failed: %r" % (_Hook.ops,))


def _arm(z):
    _Hook.root = z["real_root"]
    _Hook.zone = z["real_zone"]
    _Hook.rootstr = z["root"]
    _Hook.zonestr = z["zone"]
    _Hook.rawpaths = []
    _Hook.relpaths = 0
    _Hook.unrooted = 0
    _Hook.ops = []
    _Hook.modified = False
    _Hook.armed = True


def _world(which, hl):
    from harness import world
    key = (which, hl)
    w = _W["worlds"].get(key)
    if w is None:
        w = world.World(root=_W["zones"][which]["root"], handlers=hl)
        _W["worlds"][key] = w
        try:
            progs = eval(w.config.get("handlers.file.CompressedFileHandler", "decompressors"))
            w.c01_programs = tuple(progs.values())
        except Exception:
            w.c01_programs = ()
        w.c01_waptop = w.config.get("protocols.wap.WAPProtocol", "waptop")
        # warm-up (not observed): lazy imports and lazily built tables happen here, not inside a case
        for req in (b"/\r\n", b"/g\t+\r\n", b"/z.zip/g\r\n", b"/m.mbox\r\n", b"/md\r\n", b"GET /k HTTP/1.0\r\n\r\n"):
            w.request(req)
        restore(_W["zones"][which])
    world.reset_lazies()
    _Hook.config_programs = w.c01_programs
    _Hook.cache = {}
    return w


def _cwd_path(z, cwd):
    return {"w": os.path.join(z["zone"], "o", "w"), "r": z["root"], "top": z["zone"]}[cwd]


def _run_chunk(job):
    """job = (runs, [(hl, frame, raw, pre), ...]) -> per case a list of observations, one per run."""
    import signal
    runs, cases = job
    out = [[] for _ in cases]
    try:
        for which, cwd in runs:
            z = _W["zones"][which]
            cur_hl = None
            w = None
            for i, (hl, frame, raw, pre) in enumerate(cases):
                if hl != cur_hl:
                    w = _world(which, hl)
                    cur_hl = hl
                if pre != "none":
                    os.chdir(_W["home"])
                    plant(z, w, pre)
                os.chdir(_cwd_path(z, cwd))
                data = concretise(frame, raw, w.c01_waptop)
                _arm(z)
                signal.setitimer(signal.ITIMER_VIRTUAL, CPU_LIMIT_S)
                try:
                    r = w.request(data, tls=frame in TLS_FRAMES)
                finally:
                    signal.setitimer(signal.ITIMER_VIRTUAL, 0)
                    _Hook.armed = False
                ops = _Hook.ops
                rawpaths = sorted(set(_Hook.rawpaths))[:16]
                relpaths = _Hook.relpaths + _Hook.unrooted
                # (creations that raise no audit event - the dbm index of a ZIP - only with the full list)
                if pre != "none" or _Hook.modified or (hl == "full" and dirty(z)):
                    os.chdir(_W["home"])
                    restore(z)
                handler, lsel, excs = read_log(r.log)
                out[i].append({
                    "ev": "run", "world": which, "cwd": cwd,
                    "outside": [list(x) for x in dict.fromkeys((o, p) for o, c, p in ops if c == "outside")][:12],
                    "inside": sum(1 for o, c, p in ops if c == "inside"),
                    "resp": resp_class(frame, r.out, failed=bool(excs or r.escaped)),
                    "digest": hashlib.sha1(r.out).hexdigest()[:20],
                    "h": handler, "lsel": lsel if lsel is not None else [], "lselknown": lsel is not None,
                    "paths": [abstract_sel(x) for x in rawpaths], "relpaths": relpaths,
                    "exc": excs + ([r.escaped] if r.escaped else []),
                    "nops": len(ops), "head": r.out[:60].decode("latin-1"),
                })
    finally:
        os.chdir(_W["home"])
    return out


def run_cases(cases, runs, base, procs=None):
    """cases: list of (hl, frame, raw, pre).  Returns list (same order) of run-event lists."""
    global _BASE
    from harness import cachelib
    _BASE = base
    if not cases:
        return []
    cases = list(cases)
    order = sorted(range(len(cases)), key=lambda i: (cases[i][0], i))       # group by handler list
    size = 400
    chunks = [order[i:i + size] for i in range(0, len(order), size)]
    jobs = [(runs, [cases[i] for i in ch]) for ch in chunks]
    if len(jobs) == 1 and len(cases) <= 50:          # replay / selftest: in this process
        _init_worker()
        results = [_run_chunk(jobs[0])]
    else:
        results = cachelib.pool_map(_run_chunk, jobs, _init_worker, procs=procs)
    out = [None] * len(cases)
    for ch, res in zip(chunks, results):
        for i, obs in zip(ch, res):
            out[i] = obs
    return out


# ------------------------------------------------------------------------------------------------
# TLC: model checking + case enumeration (binding B2)
# ------------------------------------------------------------------------------------------------
def _json_value(text):
    """TLA+ value as printed by TLC (strings, booleans, tuples, one record) -> python, fast path."""
    t = text.strip()
    try:
        j = re.sub(r"(\w+) \|->", r'"\1":', t)
        if j.startswith("["):
            j = "{" + j[1:-1] + "}"
        j = j.replace("<<", "[").replace(">>", "]").replace("TRUE", "true").replace("FALSE", "false")
        return json.loads(j)
    except Exception:
        from harness.tlaparse import parse_value
        return parse_value(t)


def iter_done_states(path):
    """Stream the 'done' states of an MC_C01 dump: dicts with hl, frame, raw (str) and res."""
    cur, name, buf = {}, None, []

    def flush():
        nonlocal name, buf
        if name is not None:
            cur[name] = "\n".join(buf)
        name, buf = None, []

    def emit():
        if cur.get("phase") == '"done"':
            st = {k: _json_value(cur[k]) for k in ("hl", "frame", "raw", "pre", "res")}
            st["raw"] = "".join(st["raw"])
            st["res"]["d"] = "".join(st["res"]["d"])
            st["res"]["olsel"] = "".join(st["res"]["olsel"])
            return st
        return None

    with open(path, "r", encoding="utf-8", errors="surrogateescape") as fp:
        for line in fp:
            if line.startswith("State "):
                flush()
                st = emit() if cur else None
                if st:
                    yield st
                cur = {}
                continue
            if line.startswith("/\\ "):
                flush()
                head, _, rest = line[3:].partition(" = ")
                name, buf = head, [rest.rstrip("\n")]
            elif line.strip():
                buf.append(line.rstrip("\n"))
    flush()
    st = emit() if cur else None
    if st:
        yield st


def model_check(plan, consts, dump=True):
    cfg = MC_CFG % dict(mode=plan["mode"], n=plan["n"], frames=", ".join('"%s"' % f for f in plan["frames"]),
                        lists=", ".join('"%s"' % x for x in plan["lists"]),
                        extra=", ".join('"%s"' % x for x in plan.get("extra", [])),
                        pres=", ".join('"%s"' % x for x in plan.get("pres", ["none"])))
    return tlc.check_model("MC_C01", "MC_C01_run.cfg", extra_files={"MC_C01_run.cfg": cfg, "MC_C01_consts.tla": consts},
                           dump=dump, timeout=3000)


def plan_name(p):
    return "%s<=%d %s %s%s" % (p["mode"], p["n"], "+".join(p["frames"]), "+".join(p["lists"]),
                               (" +tokens " + " ".join(p["extra"])) if p.get("extra") else "") + (
        (" x prior states " + " ".join(p["pres"])) if p.get("pres") else "")


# ------------------------------------------------------------------------------------------------
# B3: traces -> TLC
# ------------------------------------------------------------------------------------------------
TRACE_FIELDS = ("ev", "world", "cwd", "outside", "inside", "resp", "digest", "h", "lsel", "lselknown", "paths", "relpaths")


def make_trace(case, pred, obs):
    hl, frame, raw, pre = case
    events = [{k: e[k] for k in TRACE_FIELDS} for e in obs] + [{"ev": "end"}]
    return {"id": "%s|%s|%s%s" % (hl, frame, raw, "" if pre == "none" else "|" + pre),
            "init": {"hl": hl, "frame": frame, "raw": list(raw), "pre": pre,
                     "pred": {"h": pred["oh"], "resp": pred["oresp"], "lsel": list(pred["olsel"])}},
            "events": events}


def validate(traces, consts, threads):
    """tlc.validate_traces on `threads` slices concurrently (one single-worker JVM each)."""
    if not traces:
        return {"accepted": 0, "rejected": [], "states": 0, "generated": 0, "cmd": "", "drift": [], "wall_s": 0.0}
    n = max(1, min(threads, (len(traces) + 5999) // 6000))
    size = (len(traces) + n - 1) // n
    parts = [(off, traces[off:off + size]) for off in range(0, len(traces), size)]

    def one(part):
        off, trs = part
        tv = tlc.validate_traces("TraceC01", "TraceC01.cfg", trs, extra_files={"MC_C01_consts.tla": consts},
                                 timeout=3000, chunk=15000)
        for rj in tv["rejected"]:
            rj["index"] += off
        for dr in tv["drift"]:
            dr["index"] += off
        return tv

    with ThreadPoolExecutor(n) as ex:
        tvs = list(ex.map(one, parts))
    out = {"accepted": sum(t["accepted"] for t in tvs), "rejected": [r for t in tvs for r in t["rejected"]],
           "states": sum(t["states"] for t in tvs), "generated": sum(t["generated"] for t in tvs),
           "cmd": tvs[0]["cmd"], "drift": [d for t in tvs for d in t["drift"]],
           "wall_s": round(sum(t["wall_s"] for t in tvs), 2)}
    return out


def _key(clause, case):
    hl, frame, raw, pre = case
    return "%s|%s|%s|%s%s" % (clause, hl, frame, raw, "" if pre == "none" else "|pre=" + pre)


def case_dict(case, res, obs=None, at=None):
    hl, frame, raw, pre = case
    """The abstract case as stored in replays and matched by known findings."""
    c = {"hl": hl, "frame": frame, "raw": raw, "pre": pre, "d": res.get("d"), "sel_class": res.get("cls"), "hostile": res.get("hostile"),
         "url_shaped": res.get("url"), "route": res.get("oroute"), "predicted_resp": res.get("oresp"),
         "predicted_handler": res.get("oh"), "predicted_lsel": res.get("olsel")}
    if "zip/" in (res.get("oroute") or ""):
        c["zip_inner"] = res["oroute"].split("zip/", 1)[1]
    if obs is not None and at is not None and 1 <= at <= len(obs):
        c["resp"] = obs[at - 1]["resp"]
        c["run"] = [obs[at - 1]["world"], obs[at - 1]["cwd"]]
    return c


BATCH = 100000


def _batches(states, size):
    cases, preds = [], []
    for st in states:
        cases.append((st["hl"], st["frame"], st["raw"], st["pre"]))
        preds.append(st["res"])
        if len(cases) >= size:
            yield cases, preds
            cases, preds = [], []
    if cases:
        yield cases, preds


def _process(chk, tier, cases, preds, consts, base, procs, cov, nontrivial, samples, cmds, model=True):
    """One batch: model-level verdicts, the real server in every run, TLC on the traces."""
    if model:
        # clauses the code's named deviations can falsify: TLC's verdict per case, relayed
        for cs, pr in zip(cases, preds):
            if pr["mv"] != "ok":
                cov["model_verdicts"][pr["mv"]] = cov["model_verdicts"].get(pr["mv"], 0) + 1
                cd = case_dict(cs, pr)
                cd.update(resp=pr["oresp"], model="MC_C01")
                chk.violation("model:" + _key(pr["mv"], cs), pr["mv"], cd, {"predicted": pr})
    # ---- 3. the real server, every case in every run ----
    obs = run_cases(cases, tier["runs"], base, procs=procs)
    cov["evaluations"] += sum(len(o) for o in obs)
    # ---- 4. TLC judges the traces ----
    traces = [make_trace(cs, pr, o) for cs, pr, o in zip(cases, preds, obs)]
    tv = validate(traces, consts, threads=max(1, min(procs, 8)))
    del traces
    cmds.append(tv["cmd"])
    cov["traces_validated_against_impl"] += tv["accepted"]
    cov["traces_rejected"] += len(tv["rejected"])
    cov["trace_states"] += tv["states"]
    for rj in tv["rejected"]:
        i = rj["index"]
        hl, frame, raw, pre = cases[i]
        chk.violation(_key(rj["clause"], cases[i]), rj["clause"],
                      case_dict(cases[i], preds[i], obs[i], rj["at"] - 1),
                      {"request": concretise(frame, raw).decode("latin-1"), "runs": obs[i],
                       "rejected_at_event": rj["at"] - 1, "predicted": preds[i]})
    for d in tv["drift"]:
        k = "%s [route %s]" % (d["what"], preds[d["index"]].get("oroute"))
        cov["drift_kinds"][k] = cov["drift_kinds"].get(k, 0) + 1
    chk.note_drift([dict(d, case=list(cases[d["index"]]),
                         observed={k: obs[d["index"]][min(d["at"], len(obs[d["index"]])) - 1].get(k)
                                   for k in ("h", "lsel", "resp")},
                         predicted={k: preds[d["index"]].get(k) for k in ("oh", "olsel", "oresp")})
                    for d in tv["drift"][:50]])
    if len(tv["drift"]) > 50:
        chk.note_drift([{"more": True}] * (len(tv["drift"]) - 50))
    for cs, pr, o in zip(cases, preds, obs):
        cov["fold_would_escape"] += 1 if pr.get("fold") else 0
        cov["paths_checked_literal"] += sum(len(e["paths"]) for e in o)
        ins = sum(e["inside"] for e in o)
        cov["inside_ops"] += ins
        for e in o:
            cov["resp_classes"][e["resp"]] = cov["resp_classes"].get(e["resp"], 0) + 1
        if pr.get("hostile") or ins:
            nontrivial.add(cs)
            kind = "hostile" if pr.get("hostile") else "served"
            if sum(1 for x in samples if x["kind"] == kind) < 3 and len(cs[2]) >= 3:
                samples.append({"kind": kind, "case": list(cs), "request": concretise(cs[1], cs[2]).decode("latin-1"),
                                "predicted": pr, "runs": [{k: e[k] for k in ("world", "cwd", "resp", "h", "inside", "outside", "head")}
                                                          for e in o]})


# ------------------------------------------------------------------------------------------------
def main(chk, replay=None):
    tier = TIERS[chk.tier]
    procs = int(os.environ.get("VERIF_PROCS") or 16)
    consts, b1 = bind_constants()
    base = tlc.new_scratch("c01")
    cov = {"states": 0, "transitions": 0, "traces_validated_against_impl": 0, "traces_rejected": 0,
           "evaluations": 0, "plans": [], "exhaustive": True, "trace_states": 0, "model_verdicts": {},
           "inside_ops": 0, "resp_classes": {}, "constants_bound": b1, "fold_would_escape": 0, "paths_checked_literal": 0,
           "drift_kinds": {}}
    nontrivial = set()
    samples = []
    cmds = []
    try:
        if replay:
            with open(replay) as fp:
                rp = json.load(fp)
            c = rp["case"]
            plans = [None]
        else:
            plans = tier["plans"]
        # ---- design argument at bounds that are too large to replay (model checking only) ----
        for p in ([] if replay else tier["design_only"]):
            res = model_check(p, consts, dump=False)
            if res["inv_violations"]:
                chk.model_violation("MC_C01[%s]" % plan_name(p), res["inv_violations"], res["out"][-3000:])
            cov["states"] += res["distinct"]
            cov["transitions"] += res["generated"]
            cov["plans"].append({"plan": plan_name(p), "states": res["distinct"], "replayed": 0, "wall_s": res["wall_s"]})
            cmds.append(res["cmd"])
        for p in plans:
            # ---- 1. model checking; 2. cases = the model's own states (streamed in batches) ----
            if p is None:
                preds = [{"d": c.get("d"), "cls": c.get("sel_class"), "url": c.get("url_shaped"), "oroute": c.get("route"),
                          "oresp": c.get("predicted_resp", "any"), "oh": c.get("predicted_handler", "none"),
                          "olsel": c.get("predicted_lsel", ""), "hostile": c.get("hostile"), "mv": "ok"}]
                batches = [([(c["hl"], c["frame"], c["raw"], c.get("pre", "none"))], preds)]
                res = None
            else:
                res = model_check(p, consts)
                if res["inv_violations"]:
                    chk.model_violation("MC_C01[%s]" % plan_name(p), res["inv_violations"], res["out"][-3000:])
                cov["states"] += res["distinct"]
                cov["transitions"] += res["generated"]
                cmds.append(res["cmd"])
                batches = _batches(iter_done_states(res["dump"]), BATCH)
            ncases = 0
            try:
                for cases, preds in batches:
                    ncases += len(cases)
                    _process(chk, tier, cases, preds, consts, base, procs, cov, nontrivial, samples, cmds, model=p is not None)
                    if len(chk.violations) >= STOP_AFTER:
                        cov["stopped_early"] = "after %d violations, in plan %s" % (len(chk.violations), plan_name(p))
                        break
            finally:
                if res is not None:
                    tlc.cleanup(res)
            if cov.get("stopped_early"):
                cov["exhaustive"] = False
                break
            if res is not None:
                if ncases * 2 != res["distinct"] and not res["inv_violations"]:
                    raise core.MachineryError("C01: dump has %d cases, TLC reported %d states" % (ncases, res["distinct"]))
                cov["plans"].append({"plan": plan_name(p), "states": res["distinct"], "replayed": ncases, "wall_s": res["wall_s"]})
        if not replay and not cov.get("stopped_early"):
            if cov["inside_ops"] == 0 or not cov["resp_classes"].get("ok") or not cov["resp_classes"].get("notfound"):
                raise core.MachineryError("C01: vacuous run (inside ops %d, responses %r)" % (cov["inside_ops"], cov["resp_classes"]))
            if not nontrivial:
                raise core.MachineryError("C01: no non-trivial case")
            if not cov["fold_would_escape"] or not cov["paths_checked_literal"]:
                raise core.MachineryError("C01: the assumption NoTransformAfterFilter was not exercised (%d selectors that a "
                                          "fold after the filter would let out, %d paths checked)"
                                          % (cov["fold_would_escape"], cov["paths_checked_literal"]))
    finally:
        shutil.rmtree(base, ignore_errors=True)
    cov["distinct_nontrivial"] = len(nontrivial)
    cov["rule"] = ("cases = every 'done' state of MC_C01 for the plans listed (all strings over the 14-character hostile "
                   "alphabet up to n characters / all concatenations of up to n of the 26 hostile tokens, per frame and "
                   "handler list), each sent through the real server once per run %s; non-trivial = distinct (handler "
                   "list, frame, selector) whose decoded selector is hostile (antecedent of ClimbIsNotFound) or for which "
                   "the server touched at least one file inside the root (NoOutsideAccess/NonInterference not vacuous); "
                   "plans with replayed=0 are model checking only" % (tier["runs"],))
    cov["samples"] = samples
    cov["checker_cmd"] = " ; ".join(dict.fromkeys(re.sub(r"(-metadir|-dump) \S+", r"\1 <scratch>", c) for c in cmds if c))
    cov["tlc_runs"] = len([c for c in cmds if c])
    cov["bindings"] = ["B1 handler lists + NulRaises/ZipCountsAsReal probes", "B2 every TLC state replayed", "B3 TraceC01"]
    return chk.finish(cov, [
        "audit events open/os.listdir/os.scandir/subprocess.Popen/os.exec/os.posix_spawn/os.remove/os.rename/os.mkdir/... "
        "are recorded by one sys.addaudithook hook per worker process and classified by real path; os.stat raises no audit "
        "event: stats are covered by the byte-identical-response clause (two worlds) and by the model",
        "worlds A and B: identical document roots (bytes and mtimes), different secret beside the root, sibling directory "
        "'rg', Maildir layout in the parent of the root only in A, different working-directory contents; runs use different "
        "working directories (outside the root, the root itself, the zone top)",
        "in-memory sockets (World.request): a script or decompressor that needs a real file descriptor for stdout fails "
        "before it is launched on non-TLS frames; TLS frames (GS, GEM, HS) capture output and do launch",
        "alphabets: NUL is '^' and 'any other byte' is '~' in the model; %xx pairs outside the table decode to '~'",
        "content trees without a symlink leaving the root (property quantifier); GEMINI-QUERY and icon paths not enumerated",
    ])


# ------------------------------------------------------------------------------------------------
def selftest():
    """Binding demonstration: TraceC01 accepts a recorded trace of a benign case and rejects it when
    one observed field is corrupted or one event is dropped."""
    consts, _ = bind_constants()
    base = tlc.new_scratch("c01-self")
    try:
        cases = [("default", "H", "/k", "none"), ("default", "G", "/..", "none"), ("default", "G", "URL:x://g", "none")]
        obs = run_cases(cases, TIERS["quick"]["runs"], base)
        preds = [{"oh": "UMNDirHandler", "oresp": "ok", "olsel": "/k"}, {"oh": "none", "oresp": "notfound", "olsel": "/.."},
                 {"oh": "HTMLURLHandler", "oresp": "ok", "olsel": "/URL:x://g"}]
        good = [make_trace(c, p, o) for c, p, o in zip(cases, preds, obs)]
        bad1 = json.loads(json.dumps(good[0])); bad1["events"][1]["digest"] = "0" * 20          # responses differ
        bad2 = json.loads(json.dumps(good[0])); bad2["events"][0]["outside"] = [["open", "/o/secret"]]
        bad3 = json.loads(json.dumps(good[1])); bad3["events"][0]["resp"] = "ok"                 # /.. answered with content
        bad4 = json.loads(json.dumps(good[0])); del bad4["events"][1]                            # one run dropped
        bad5 = json.loads(json.dumps(good[2])); bad5["events"][0]["inside"] = 1                  # URL page opened a file
        tv = validate(good + [bad1, bad2, bad3, bad4, bad5], consts, 1)
        got = sorted((r["index"], r["clause"]) for r in tv["rejected"])
        want = [(3, "NonInterference"), (4, "NoOutsideAccess"), (5, "ClimbIsNotFound"), (6, "TwoWorlds"), (7, "UrlNoFile")]
        print("selftest accepted=%d rejected=%r" % (tv["accepted"], got))
        return got == want and tv["accepted"] == 3
    finally:
        shutil.rmtree(base, ignore_errors=True)


if __name__ == "__main__":
    sys.exit(0 if selftest() else 1)
