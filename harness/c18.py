"""C18 - simpleTAL never lets data become markup, code or leftover state.

Design model: the TAL modules of C17 (spec/TALES, TALCompile, TALVM, TALSem) checked by MC_C17 with the C18
invariants Escaped / AttrEscaped (every value written as text or attribute value is free of markup
characters), PythonGated, ContextRestored, PassThrough, on the families esc (values over < > & " ' a in
every substitution position), py (python: in every command position, gate on and off), doc (TAL-free
documents from a document grammar, in four spellings) plus C17's template families.
B2: every TLC case is compiled and expanded by the REAL simpleTAL (tracing interpreter, Context snapshot
before/after, side-effect canary, second expansion of TAL-free documents); python: is also driven through
the real TALFileHandler with its allowpythonpath option.  B3: spec/trace/TraceC18.tla judges every run."""
from __future__ import annotations

import html
import json
import os
import random

from harness import c17, core

INVS18 = ["Terminates", "Escaped", "AttrEscaped", "PythonGated", "ContextRestored", "PassThrough"]
# `own`: the C18 families (thorough: their large option sets); `tal`: C17's template families, always with the quick-tier
# option sets (they serve ContextRestored / Escaped on ordinary templates), thorough: with both contexts
TIERS = {
    "quick": dict(own=[(["esc", "py"], 1), (["doc"], 1)], tal=[(["expr", "void", "deep", "metalx"], 1), (["one"], 3), (["nest"], 2), (["metal"], 1)],
                  ctxs=["A"], esclen=2),
    "thorough": dict(own=[(["esc"], 4), (["py"], 1), (["doc"], 1)], tal=[(["expr", "void", "deep", "metalx"], 1), (["one"], 3), (["nest"], 3), (["metal"], 2)],
                     ctxs=["A", "B"], esclen=3),
}
HANDLERS = "[tal.TALFileHandler, file.FileHandler]"


# ---- python: through the real TALFileHandler and its allowpythonpath option ----------------------------------
def _handler_job(job):
    """runs in a forked worker: a real document root with one .html.tal file, requested through the real server"""
    from harness import c17_tal
    tree, option, consts = job
    from harness.world import World
    w = World(handlers=HANDLERS, overrides={("handlers.tal.TALFileHandler", "allowpythonpath"): option})
    try:
        canary = w.path("canary.txt")
        code = "open(%r, 'a').write('x') and 'PY'" % canary

        def subst(o):
            if isinstance(o, dict):
                if o.get("k") == "python":
                    return dict(o, s=code)
                return {k: subst(v) for k, v in o.items()}
            if isinstance(o, list):
                return [subst(x) for x in o]
            return o
        text, _ = c17_tal.render_template(subst(tree), consts["VoidTags"])
        w.write("t.html.tal", text.encode())
        text = text.replace(html.escape(canary, quote=True), "CANARY").replace(canary, "CANARY")      # stable violation key
        r = w.request(b"/t.html.tal\r\n")
        n = 0
        if os.path.exists(canary):
            with open(canary) as fp:
                n = len(fp.read())
        return {"text": text, "doc": r.out.decode("utf-8", "replace"), "canary": n, "log": r.log[-2:], "escaped": r.escaped}
    finally:
        w.close()


def handler_runs(cases, consts):
    from harness import c17_tal
    jobs, meta = [], []
    for c in cases:
        if c["fam"] != "py":
            continue
        jobs.append((c["tree"], "yes" if c["py"] else "no", consts))
        meta.append(c)
    outs = c17_tal.pool_map(_handler_job, jobs, None, procs=min(4, c17.procs())) if jobs else []
    runs = []
    for c, o in zip(meta, outs):
        init = {"tree": c["tree"], "ctx": {"id": "none", "ents": []}, "py": bool(c["py"]), "fam": "py", "var": 0, "kind": "handler",
                "prog": [], "symt": [], "macros": [], "before": c17_tal.EMPTY_SNAP, "compiled": True}
        final = {"ev": "end", "raised": "", "doc": o["doc"], "cdoc": "", "doc2": "", "toks": [], "after": c17_tal.EMPTY_SNAP,
                 "canary": o["canary"], "nsteps": 0, "log": [str(x)[:200] for x in o["log"]], "escaped": o["escaped"] or ""}
        runs.append({"text": "handler:" + o["text"], "init": init, "events": [], "final": final})
    return runs


def selftest():
    """Binding demonstration: a corrupted observation is rejected with the right clause."""
    from harness import c17_tal
    consts_text, consts, _ = c17_tal.import_constants()
    V = c17_tal.V
    P = lambda s: {"k": "path", "s": s, "a": []}     # noqa: E731
    txt = {"k": "text", "tag": "", "text": "t", "atts": [], "tal": [], "kids": []}
    tree = [{"k": "el", "tag": "p", "text": "", "atts": [{"n": "id", "v": "i"}], "kids": [txt],
             "tal": [{"c": "content", "name": "", "e": P("d"), "items": [], "flag": False},
                     {"c": "attributes", "name": "", "e": c17_tal.NOE, "items": [{"g": False, "name": "title", "e": P("d")}], "flag": False}]}]
    case = {"fam": "selftest", "tree": tree, "py": False, "var": 0,
            "ctx": {"id": "none", "ents": [V("ent", s="d", q=[V("str", s="<b>\"")])]}}
    good = c17_tal.run_case(case, {}, consts, want_tokens=True)
    cp = lambda: json.loads(json.dumps(good))        # noqa: E731
    raw = cp()          # as if the text had been written unescaped
    raw["final"]["toks"] = c17_tal.tokenize(raw["final"]["doc"].replace("&lt;b&gt;", "<b>"))
    att = cp()          # as if the attribute value had broken out
    att["final"]["toks"][0]["atts"].append({"n": "x", "v": ""})
    leak = cp()
    leak["final"]["after"]["nls"] = 1
    can = cp()
    can["final"]["canary"] = 1
    tv = c17.validate("TraceC18", "TSpec18", [good, raw, att, leak, can], {}, consts_text)
    rej = {r["index"]: r["clause"] for r in tv["rejected"]}
    ok = rej == {1: "Escaped", 2: "Escaped", 3: "ContextRestored", 4: "PythonGated"}
    return ok, rej


def main(chk, replay=None):
    from harness import c17_tal
    t = TIERS[chk.tier]
    consts_text, consts, bound = c17_tal.import_constants()
    if replay:
        cases = c17.load_replay(replay)
        with open(replay) as fp:
            kind = json.load(fp)["case"].get("kind", "direct")
        _c, contexts, tot = c17.model_check(chk, [(["py"], 1)], t["ctxs"], INVS18, consts_text, esclen=1, module="MC_C18")
    else:
        cases, contexts, tot = c17.model_check(chk, t["own"], t["ctxs"], INVS18, consts_text, esclen=t["esclen"], module="MC_C18")
        cases2, contexts2, tot2 = c17.model_check(chk, t["tal"], t["ctxs"], INVS18, consts_text, esclen=t["esclen"], module="MC_C18", quick=True)
        cases += cases2
        contexts.update(contexts2)
        for k in ("distinct", "generated"):
            tot[k] += tot2[k]
        tot["wall"] += tot2["wall"]
        kind = None
    random.Random(chk.seed).shuffle(cases)
    runs = [] if kind == "handler" else c17.run_cases(cases, contexts, consts, want_tokens=True)
    hruns = handler_runs(cases, consts) if kind in (None, "handler") else []
    runs = runs + hruns
    # ---- vacuity guards: the hooks and antecedents the clauses depend on were exercised -------------------------
    if not replay:
        if sum(len(r["events"]) for r in runs) == 0:
            raise core.MachineryError("C18: the tracing interpreter logged no opcode: interpreter= binding not exercised")
        py_on = [r for r in runs if r["init"]["py"] and r["init"]["kind"] == "direct"]
        if not py_on or not any(r["final"]["canary"] > 0 for r in py_on):
            raise core.MachineryError("C18: the python: canary was never touched with allowPythonPath on (direct)")
        h_on = [r for r in hruns if r["init"]["py"]]
        if not h_on or not any(r["final"]["canary"] > 0 for r in h_on):
            raise core.MachineryError("C18: the python: canary was never touched through TALFileHandler with allowpythonpath=yes: %r"
                                      % [(r["final"]["doc"][:80], r["final"]["log"]) for r in h_on[:2]])
        if not any(r["init"]["fam"] == "doc" and r["final"]["doc2"] for r in runs):
            raise core.MachineryError("C18: no TAL-free document was expanded twice")
    tv = c17.validate("TraceC18", "TSpec18", runs, contexts, consts_text)
    c17.report(chk, runs, tv)
    meta = set('<>&"\'')
    esc_nontrivial = len({r["text"] + json.dumps(r["init"]["ctx"]["ents"]) for r in runs
                          if r["init"]["fam"] == "esc" and any(set(x["q"][0]["s"]) & meta for x in r["init"]["ctx"]["ents"][:1])})
    docs = len({r["text"] for r in runs if r["init"]["fam"] == "doc"})
    pushes = sum(1 for r in runs if r["final"]["after"]["nls"] == 0 and any(e[9] > 0 or e[10] > 0 for e in r["events"]))
    cov = {
        "states": tot["distinct"], "transitions": tot["generated"], "exhaustive": True,
        "traces_validated_against_impl": tv["accepted"], "traces_rejected": len(tv["rejected"]),
        "evaluations": len(runs), "distinct_nontrivial": esc_nontrivial + docs + len(hruns) + pushes,
        "rule": "cases = every case TLC enumerated in MC_C17 for the family parts %s x contexts %s (EscLen=%d), python: cases also "
                "through the real TALFileHandler; non-trivial = distinct esc templates whose substituted value contains a markup "
                "metacharacter (%d) + distinct TAL-free document spellings expanded twice (%d) + handler runs (%d) + runs in "
                "which the Context's local/repeat stacks were actually pushed and found empty again (%d)"
                % (t["own"] + t["tal"], t["ctxs"], t["esclen"], esc_nontrivial, docs, len(hruns), pushes),
        "samples": [{"template": r["text"], "doc": r["final"]["doc"], "canary": r["final"]["canary"]} for r in runs[:2] + hruns[:2]],
        "checker_cmd": tot["cmd"] + " ; " + tv["cmd"],
        "trace_states": tv["states"], "constants_bound": bound,
        "canary_hits_direct": sum(r["final"]["canary"] for r in runs if r["init"]["kind"] == "direct"),
        "canary_hits_handler": sum(r["final"]["canary"] for r in hruns),
        "families": sorted({c["fam"] for c in cases}), "model_wall_s": tot["wall"], "trace_wall_s": tv["wall_s"],
        "bindings": ["B1 opcode numbers + HTML_FORBIDDEN_ENDTAG", "B2 every TLC case compiled/expanded by the real simpleTAL; python: also through "
                     "handlers/tal.py", "B3 TraceC18"],
    }
    return chk.finish(cov, [
        "alpha = an independent HTML tokenizer (harness/c17_tal.py tokenize): element skeleton, attribute lists, text with references decoded",
        "equivalence of a TAL-free document = equal token streams (tags, attribute names and values, text, comments); the four spellings "
        "of gamma (quotes, named/decimal/hex references, letter case, <br/>) denote the same document",
        "ContextRestored compares alpha-abstracted snapshots of Context.locals/localStack/repeatStack/repeatMap/globals; the internal "
        "`attrs` binding and the identity of `repeat` are reported separately (repeat_is_rm)",
    ])
