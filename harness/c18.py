"""C18 - simpleTAL never lets data become markup, code or leftover state.

Design model: the TAL modules of C17 (spec/TALES, TALCompile, TALVM, TALSem) checked by MC_C17 with the C18
invariants Escaped / AttrEscaped (every value written as text or attribute value is free of markup
characters), PythonGated, ContextRestored, PassThrough, on the families esc (values over < > & " ' a in
every substitution position), py (python: in every command position, gate on and off), doc (TAL-free
documents from a document grammar, in four spellings) plus C17's template families.
B2: every TLC case is compiled and expanded by the REAL simpleTAL (tracing interpreter, Context snapshot
before/after, side-effect canary, second expansion of TAL-free documents); python: is also driven through
the real TALFileHandler with its allowpythonpath option.  B3: spec/trace/TraceC18.tla judges every run."""
from __future__ import annotations

import hashlib
import html
import json
import os

from harness import c17, core

INVS18 = ["Terminates", "Escaped", "AttrEscaped", "PythonGated", "ContextRestored", "PassThrough"]
# `own`: the C18 families (thorough: their large option sets); `tal`: C17's template families, always with the quick-tier
# option sets (they serve ContextRestored / Escaped on ordinary templates), thorough: with both contexts
TIERS = {
    "quick": dict(own=[(["esc", "py"], 1), (["doc"], 1)], tal=[(["expr", "void", "deep", "metalx"], 1), (["one"], 3)],
                  ctxs=["A"], esclen=2),
    "thorough": dict(own=[(["esc"], 4), (["py"], 1), (["doc"], 1)], tal=[(["expr", "void", "deep", "metalx"], 1), (["one"], 3), (["nest"], 3), (["metal"], 2)],
                     ctxs=["A", "B"], esclen=3),
}
HANDLERS = "[tal.TALFileHandler, file.FileHandler]"


# ---- python: through the real TALFileHandler and its allowpythonpath option ----------------------------------
def _handler_job(job):
    """runs in a forked worker: a real document root with one .html.tal file, requested through the real server"""
    from harness import c17_tal
    tree, option, consts = job
    from harness.world import World
    w = World(handlers=HANDLERS, overrides={("handlers.tal.TALFileHandler", "allowpythonpath"): option})
    try:
        canary = w.path("canary.txt")
        code = "open(%r, 'a').write('x') and 'PY'" % canary

        def subst(o):
            if isinstance(o, dict):
                if o.get("k") == "python":
                    return dict(o, s=code)
                return {k: subst(v) for k, v in o.items()}
            if isinstance(o, list):
                return [subst(x) for x in o]
            return o
        text, _ = c17_tal.render_template(subst(tree), consts["VoidTags"])
        w.write("t.html.tal", text.encode())
        text = text.replace(html.escape(canary, quote=True), "CANARY").replace(canary, "CANARY")      # stable violation key
        r = w.request(b"/t.html.tal\r\n")
        n = 0
        if os.path.exists(canary):
            with open(canary) as fp:
                n = len(fp.read())
        return {"text": text, "doc": r.out.decode("utf-8", "replace"), "canary": n, "log": r.log[-2:], "escaped": r.escaped}
    finally:
        w.close()


def _after_opposite(tree, option, consts):
    """The same request as the SECOND template request of a fresh interpreter whose first one ran under the opposite
    setting of the gate (two sites in one process, or one site re-configured): the answer must be the one of `option`."""
    import pickle
    import subprocess
    import sys
    import tempfile
    with tempfile.TemporaryDirectory(prefix="c18-", dir="/dev/shm" if os.path.isdir("/dev/shm") else None) as d:
        with open(os.path.join(d, "job"), "wb") as fp:
            pickle.dump((tree, option, consts), fp)
        p = subprocess.run([sys.executable, "-c", "from harness import c18; c18._second_main(%r)" % d],
                           stdout=subprocess.PIPE, stderr=subprocess.STDOUT, timeout=300)
        if p.returncode != 0 or not os.path.exists(os.path.join(d, "out")):
            raise core.MachineryError("C18: the fresh process serving a template after the opposite gate setting failed: %s"
                                      % p.stdout.decode("utf-8", "replace")[-600:])
        with open(os.path.join(d, "out"), "rb") as fp:
            return pickle.load(fp)


def _second_main(d):
    import pickle
    with open(os.path.join(d, "job"), "rb") as fp:
        tree, option, consts = pickle.load(fp)
    _handler_job((tree, "no" if option == "yes" else "yes", consts))
    out = _handler_job((tree, option, consts))
    with open(os.path.join(d, "out"), "wb") as fp:
        pickle.dump(out, fp)


def handler_runs(cases, consts):
    """extra runs of a part (called inside the part's worker process): the py cases through the real server, each also
    as the second template request of a fresh process whose first one ran with the gate the other way"""
    from harness import c17_tal
    runs = []
    py = [c for c in cases if c["fam"] == "py"]
    # (a fresh interpreter costs ~0.4 s: the first two cases of either gate setting per part)
    todo = [(c, False) for c in py] + [(c, True) for g in (True, False) for c in [x for x in py if bool(x["py"]) == g][:2]]
    for c, second in todo:
        option = "yes" if c["py"] else "no"
        o = _after_opposite(c["tree"], option, consts) if second else _handler_job((c["tree"], option, consts))
        init = {"tree": c["tree"], "ctx": {"id": "none", "ents": []}, "py": bool(c["py"]), "fam": "py", "var": 0, "kind": "handler",
                "prog": [], "symt": [], "macros": [], "before": c17_tal.EMPTY_SNAP, "compiled": True}
        final = {"ev": "end", "raised": "", "doc": o["doc"], "cdoc": "", "doc2": "", "toks": [], "after": c17_tal.EMPTY_SNAP,
                 "canary": o["canary"], "nsteps": 0, "log": [str(x)[:200] for x in o["log"]], "escaped": o["escaped"] or ""}
        runs.append({"text": ("handler(second request of a process, gate reversed):" if second else "handler:") + o["text"], "init": init, "events": [], "final": final})
    return runs


META = set('<>&"\'')


def measure18(runs, consts):
    """what the vacuity guards and the non-trivial count need (hashes / counters, united by the parent)"""
    h = lambda s: hashlib.sha1(s.encode()).digest()[:8]        # noqa: E731
    direct = [r for r in runs if r["init"]["kind"] == "direct"]
    hand = [r for r in runs if r["init"]["kind"] == "handler"]
    return {
        "esc": {h(r["text"] + json.dumps(r["init"]["ctx"]["ents"])) for r in direct
                if r["init"]["fam"] == "esc" and any(set(x["q"][0]["s"]) & META for x in r["init"]["ctx"]["ents"][:1])},
        "docs": {h(r["text"]) for r in direct if r["init"]["fam"] == "doc" and r["final"]["doc2"]},
        "pushes": {h(c17.case_key(r)) for r in direct
                   if r["final"]["after"]["nls"] == 0 and any(e[9] > 0 or e[10] > 0 for e in r["events"])},
        "canary_direct_on": sum(r["final"]["canary"] for r in direct if r["init"]["py"]),
        "canary_direct_off": sum(r["final"]["canary"] for r in direct if not r["init"]["py"]),
        "canary_handler_on": sum(r["final"]["canary"] for r in hand if r["init"]["py"]),
        "handler_runs": len(hand),
        "handler_sample": [(r["init"]["py"], r["final"]["canary"], r["final"]["doc"][:80], r["final"]["log"]) for r in hand[:2]],
    }


def selftest():
    """Binding demonstration: a corrupted observation is rejected with the right clause."""
    from harness import c17_tal
    consts_text, consts, _ = c17_tal.import_constants()
    V = c17_tal.V
    P = lambda s: {"k": "path", "s": s, "a": []}     # noqa: E731
    txt = {"k": "text", "tag": "", "text": "t", "atts": [], "tal": [], "kids": []}
    tree = [{"k": "el", "tag": "p", "text": "", "atts": [{"n": "id", "v": "i"}], "kids": [txt],
             "tal": [{"c": "content", "name": "", "e": P("d"), "items": [], "flag": False},
                     {"c": "attributes", "name": "", "e": c17_tal.NOE, "items": [{"g": False, "name": "title", "e": P("d")}], "flag": False}]}]
    case = {"fam": "selftest", "tree": tree, "py": False, "var": 0,
            "ctx": {"id": "none", "ents": [V("ent", s="d", q=[V("str", s="<b>\"")])]}}
    good = c17_tal.run_case(case, {}, consts, want_tokens=True)
    cp = lambda: json.loads(json.dumps(good))        # noqa: E731
    raw = cp()          # as if the text had been written unescaped
    raw["final"]["toks"] = c17_tal.tokenize(raw["final"]["doc"].replace("&lt;b&gt;", "<b>"))
    att = cp()          # as if the attribute value had broken out
    att["final"]["toks"][0]["atts"].append({"n": "x", "v": ""})
    leak = cp()
    leak["final"]["after"]["nls"] = 1
    can = cp()
    can["final"]["canary"] = 1
    tv = c17.validate("TraceC18", "TSpec18", [good, raw, att, leak, can], {}, consts_text)
    rej = {r["index"]: r["clause"] for r in tv["rejected"]}
    ok = rej == {1: "Escaped", 2: "AttrEscaped", 3: "ContextRestored", 4: "PythonGated"}
    return ok, rej


def main(chk, replay=None):
    from harness import c17_tal
    t = TIERS[chk.tier]
    consts_text, consts, bound = c17_tal.import_constants()
    common = c17.common_job(chk, consts_text, consts, module="MC_C18", invs=INVS18, trace_module="TraceC18", trace_spec="TSpec18",
                            want_tokens=True, esclen=t["esclen"], measure=measure18, extra_runs=handler_runs)
    if replay:
        case = c17.load_replay(replay)
        cjob = dict(common, fams=["py"], ctx="A", nparts=1, part=0, esclen=1, extra_runs=None)
        runs = handler_runs([dict(case, fam="py")], consts) if case["kind"] == "handler" else None
        r = c17.replay_result(case, cjob, "TraceC18", "TSpec18", want_tokens=True, runs=runs)
        r["measure"] = measure18(r.pop("runs"), consts)
        results = [r]
    else:
        jobs = c17.make_jobs(t["own"], t["ctxs"], **common) + c17.make_jobs(t["tal"], t["ctxs"], **dict(common, quick=True))
        results = c17.run_parts(jobs)
    tot = c17.collect(chk, results)
    m = {"esc": set(), "docs": set(), "pushes": set(), "canary_direct_on": 0, "canary_direct_off": 0, "canary_handler_on": 0,
         "handler_runs": 0, "handler_sample": []}
    for r in results:
        for k, v in r.get("measure", {}).items():
            if isinstance(v, set):
                m[k] |= v
            elif isinstance(v, list):
                m[k] += v
            else:
                m[k] += v
    # ---- vacuity guards: the hooks and antecedents the clauses depend on were exercised -------------------------
    if not replay and not chk.violations:
        if tot["events"] == 0:
            raise core.MachineryError("C18: the tracing interpreter logged no opcode: interpreter= binding not exercised")
        if m["canary_direct_on"] == 0:
            raise core.MachineryError("C18: the python: canary was never touched with allowPythonPath on (direct)")
        if m["canary_handler_on"] == 0:
            raise core.MachineryError("C18: the python: canary was never touched through TALFileHandler with allowpythonpath=yes: %r"
                                      % (m["handler_sample"],))
        if not m["docs"]:
            raise core.MachineryError("C18: no TAL-free document was expanded twice")
        if not m["esc"] or not m["pushes"]:
            raise core.MachineryError("C18: no markup-bearing value substituted / the Context stacks were never pushed")
    cov = {
        "states": tot["states"], "transitions": tot["generated"], "exhaustive": True,
        "traces_validated_against_impl": tot["accepted"], "traces_rejected": tot["rejected"],
        "evaluations": tot["cases"], "distinct_nontrivial": len(m["esc"]) + len(m["docs"]) + m["handler_runs"] + len(m["pushes"]),
        "rule": "cases = every case TLC enumerated in MC_C18 for the family groups %s (tier option sets) and %s (quick option sets) x "
                "contexts %s (EscLen=%d), python: cases also through the real TALFileHandler; non-trivial = distinct esc templates whose "
                "substituted value contains a markup metacharacter (%d) + distinct TAL-free document spellings expanded twice (%d) + "
                "handler runs (%d) + distinct runs in which the Context's local/repeat stacks were actually pushed and found empty "
                "again (%d)" % (t["own"], t["tal"], t["ctxs"], t["esclen"], len(m["esc"]), len(m["docs"]), m["handler_runs"], len(m["pushes"])),
        "samples": tot["samples"],
        "checker_cmd": tot["mc_cmd"] + " ; " + tot["trace_cmd"],
        "trace_states": tot["trace_states"], "model_drift": tot["n_drift"], "constants_bound": bound,
        "canary_hits_direct_on": m["canary_direct_on"], "canary_hits_direct_off": m["canary_direct_off"],
        "canary_hits_handler_on": m["canary_handler_on"], "handler_runs": m["handler_runs"],
        "families": sorted(tot["families"]), "parts": len(results),
        "model_cpu_s": round(tot["mc_wall"], 1), "trace_cpu_s": round(tot["trace_wall"], 1),
        "bindings": ["B1 opcode numbers + HTML_FORBIDDEN_ENDTAG", "B2 every TLC case compiled/expanded by the real simpleTAL; python: also through "
                     "handlers/tal.py", "B3 TraceC18"],
    }
    return chk.finish(cov, [
        "alpha = an independent HTML tokenizer (harness/c17_tal.py tokenize): element skeleton, attribute lists, text with references decoded",
        "equivalence of a TAL-free document = equal token streams (tags, attribute names and values, text, comments); the four spellings "
        "of gamma (quotes, named/decimal/hex references, letter case, <br/>) denote the same document",
        "ContextRestored compares alpha-abstracted snapshots of Context.locals/localStack/repeatStack/repeatMap/globals; the internal "
        "`attrs` binding and the identity of `repeat` are reported separately (repeat_is_rm)",
    ])
