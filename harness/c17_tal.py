"""gamma / alpha for the simpleTAL properties (C17, C18).  NO property logic lives here.

gamma: abstract case (template tree + context of tagged values, as enumerated by TLC from
       spec/MC_C17_Cases.tla) -> template text + simpleTALES.Context with Python objects.
drive: the REAL compiler (simpleTAL.compileHTMLTemplate) and the REAL interpreter, observed through a
       tracing subclass passed via the public `interpreter=` parameter of Template.expand().
alpha: real command list / symbol table / macros -> the abstract program of spec/TALCompile.tla;
       opcode steps -> compact register records; output text -> token stream (independent tokenizer)
       and canonical document; Context before/after -> snapshots.
"""
from __future__ import annotations

import html
import io
import logging
import os
import re

from harness import core

logging.disable(logging.CRITICAL)

_ST = None  # (simpleTAL, simpleTALES) of the tree under test


def st_modules():
    global _ST
    if _ST is None:
        import warnings
        warnings.simplefilter("ignore")
        from simpletal import simpleTAL, simpleTALES
        got = os.path.dirname(os.path.dirname(os.path.abspath(simpleTAL.__file__)))
        if os.path.realpath(got) != os.path.realpath(core.REPO):
            raise core.MachineryError("simpletal imported from %s, expected %s" % (got, core.REPO))
        _ST = (simpleTAL, simpleTALES)
    return _ST


# ---- B1: constants imported from the working tree ---------------------------------------------------------
OPNAMES = ["TAL_DEFINE", "TAL_CONDITION", "TAL_REPEAT", "TAL_CONTENT", "TAL_REPLACE", "TAL_ATTRIBUTES", "TAL_OMITTAG",
           "TAL_START_SCOPE", "TAL_OUTPUT", "TAL_STARTTAG", "TAL_ENDTAG_ENDSCOPE", "TAL_NOOP",
           "METAL_USE_MACRO", "METAL_DEFINE_SLOT", "METAL_FILL_SLOT", "METAL_DEFINE_MACRO"]
PINNED = dict(zip(OPNAMES, [1, 2, 3, 4, 5, 6, 7, 8, 9, 10, 11, 13, 14, 15, 16, 17]))
PINNED_VOID = ["area", "base", "basefont", "br", "col", "frame", "hr", "img", "input", "isindex", "link", "meta", "param"]


def import_constants():
    """-> (cfg text of the CONSTANTS, dict, bound?)  Falls back to the pinned values if unreadable."""
    simpleTAL, _ = st_modules()
    vals, bound = {}, True
    for n in OPNAMES:
        v = getattr(simpleTAL, n, None)
        if not isinstance(v, int) or isinstance(v, bool):
            bound, v = False, PINNED[n]
        vals[n] = v
    void = getattr(simpleTAL, "HTML_FORBIDDEN_ENDTAG", None)
    try:
        void = sorted(str(k).lower() for k in void)
    except Exception:
        bound, void = False, PINNED_VOID
    lines = ["  %s = %d" % (n, vals[n]) for n in OPNAMES]
    lines.append("  VoidTags = {%s}" % ", ".join('"%s"' % v for v in void))
    return "\n".join(lines), dict(vals, VoidTags=void), bound


# ---- gamma: values ---------------------------------------------------------------------------------------
class SeqObj(list):
    def __str__(self):
        return "SEQ"


class MapObj(dict):
    def __str__(self):
        return "MAP"


class IterObj:
    """an iterable WITHOUT len(): a fresh iterator for every loop"""

    def __init__(self, items):
        self.items = items

    def __iter__(self):
        return iter(list(self.items))

    def __str__(self):
        return "ITER"


class ExhaustedIter:
    """an iterator that is already exhausted"""

    def __iter__(self):
        return self

    def __next__(self):
        raise StopIteration

    def __str__(self):
        return "ITER"


class FnObj:
    def __init__(self, result):
        self.result = result
        self.calls = 0

    def __call__(self):
        self.calls += 1
        return self.result

    def __str__(self):
        return "<FN>"          # a non-string value whose str() carries markup


def to_py(v, macros=None):
    k = v["k"]
    if k == "none":
        return None
    if k == "default":
        return st_modules()[1].DEFAULTVALUE
    if k == "str":
        return v["s"]
    if k == "num":
        return v["n"]
    if k == "seq":
        return SeqObj(to_py(x, macros) for x in v["q"])
    if k == "iter":
        return IterObj([to_py(x, macros) for x in v["q"]]) if v["q"] else ExhaustedIter()
    if k == "map":
        return MapObj((e["s"], to_py(e["q"][0], macros)) for e in v["q"])
    if k == "call":
        return FnObj(to_py(v["q"][0], macros))
    if k == "macro":
        return macros[v["s"]]
    raise ValueError("no Python value for kind %r" % k)


def V(k, s="", n=0, q=()):
    return {"k": k, "s": s, "n": n, "q": list(q)}


def from_py(o):
    """alpha of a context value (for the before/after snapshots)"""
    simpleTAL, simpleTALES = st_modules()
    if o is None:
        return V("none")
    if isinstance(o, bool):
        return V("num", n=int(o))
    if isinstance(o, str):
        return V("default") if o == simpleTALES.DEFAULTVALUE else V("str", s=o)
    if isinstance(o, int):
        return V("num", n=o) if abs(o) < 2 ** 31 else V("other", s="bigint")
    if isinstance(o, SeqObj):
        return V("seq", q=[from_py(x) for x in o])
    if isinstance(o, MapObj):
        return V("map", q=[V("ent", s=k, q=[from_py(x)]) for k, x in o.items()])
    if isinstance(o, IterObj):
        return V("iter", q=[from_py(x) for x in o.items])
    if isinstance(o, ExhaustedIter):
        return V("iter")
    if isinstance(o, FnObj):
        return V("call", q=[from_py(o.result)])
    if isinstance(o, simpleTAL.SubTemplate):
        return V("macro", s="?")
    if isinstance(o, dict) and all(isinstance(x, simpleTAL.SubTemplate) for x in o.values()):
        return V("map", q=[V("ent", s=k, q=[V("macro", s=k)]) for k in o])
    return V("other", s=type(o).__name__)


RAWTEXT = ("script", "style")          # raw-text elements of HTML


# ---- gamma: expressions and templates ------------------------------------------------------------------------
def render_expr(e):
    k = e["k"]
    if k == "path":
        return e["s"]
    if k == "alt":
        return " | ".join(render_expr(x) for x in e["a"])
    if k in ("exists", "not", "nocall"):
        return k + ":" + render_expr(e["a"][0])
    if k == "python":
        return "python:" + e["s"]
    if k == "string":
        out = []
        for p in e["a"]:
            if p["k"] == "lit":
                out.append(p["s"].replace("$", "$$"))
            elif p["k"] == "dd":
                out.append("$$")
            elif p["k"] == "var":
                out.append("$" + p["s"])
            elif p["k"] == "sub":
                out.append("${" + render_expr(p["a"][0]) + "}")
        return "string:" + "".join(out)
    raise ValueError("cannot render expression kind %r" % k)


def _semi(s):
    return s.replace(";", ";;")


def render_cmd(c, exprs):
    """-> (attribute name, attribute value); registers expression text -> AST in exprs"""
    def ex(e):
        t = render_expr(e)
        exprs[t] = e
        return t
    k = c["c"]
    if k == "define":
        return "tal:define", "; ".join(("global " if i["g"] else "") + i["name"] + " " + _semi(ex(i["e"])) for i in c["items"])
    if k == "condition":
        return "tal:condition", ex(c["e"])
    if k == "repeat":
        return "tal:repeat", c["name"] + " " + ex(c["e"])
    if k in ("content", "replace"):
        return "tal:" + k, ("structure " if c["flag"] else "") + ex(c["e"])
    if k == "attributes":
        return "tal:attributes", "; ".join(i["name"] + " " + _semi(ex(i["e"])) for i in c["items"])
    if k == "omit":
        return "tal:omit-tag", "" if c["e"]["k"] == "none" else ex(c["e"])
    if k == "usemacro":
        return "metal:use-macro", ex(c["e"])
    if k == "defmacro":
        return "metal:define-macro", c["name"]
    if k == "defslot":
        return "metal:define-slot", c["name"]
    if k == "fillslot":
        return "metal:fill-slot", c["name"]
    raise ValueError(k)


def _ref(c, var):
    """spelling of a markup character in text / attribute values for variant `var`"""
    if var == 1:
        return "&#%d;" % ord(c)
    if var == 2:
        return "&#x%X;" % ord(c)
    return {"&": "&amp;", "<": "&lt;", ">": "&gt;", '"': "&quot;", "'": "&apos;"}[c]


def _text(t, var):
    if var == 0:
        return html.escape(t, quote=False)
    out = []
    for i, c in enumerate(t):
        if c in "<&" or (c == ">" and var != 3) or (c in "\"'" and var == 3):
            # a bare ampersand followed by a blank is unambiguous text (variant 3 leaves it alone)
            out.append("&" if (var == 3 and c == "&" and t[i + 1:i + 2] == " ") else _ref(c, var))
        else:
            out.append(c)
    return "".join(out)


def _att(n, v, var):
    if var == 0:
        return '%s="%s"' % (n, html.escape(v, quote=True))
    if var == 1:
        return "%s='%s'" % (n, "".join(_ref(c, 1) if c in "<>&'" else c for c in v))
    if var == 2:
        return '%s="%s"' % (n.upper(), "".join(_ref(c, 2) if c in '<>&"' else c for c in v))
    if v and all(c.isalnum() for c in v):
        return "%s=%s" % (n, v)
    return '%s = "%s"' % (n, "".join(_ref(c, 3) if c in '<>&"' else c for c in v))


def render_nodes(nodes, exprs, void, var=0, rawtext=False):
    out = []
    for nd in nodes:
        if nd["k"] == "text":
            out.append(nd["text"] if rawtext else _text(nd["text"], var))
        elif nd["k"] == "raw":
            out.append(nd["text"])
        else:
            plain = [_att(a["n"], a["v"], var) for a in nd["atts"]]
            tal = ['%s="%s"' % (n, html.escape(v, quote=True)) for n, v in (render_cmd(c, exprs) for c in nd["tal"])]
            atts = (tal + plain) if len(tal) % 2 else (plain + tal)     # TAL attributes before or after the plain ones
            tag = nd["tag"].upper() if var == 2 else nd["tag"]
            is_void = nd["tag"] in void
            close = " />" if (var == 2 and is_void) else (" >" if var == 3 and atts else ">")
            out.append("<" + (" " if var != 3 else "  ").join([tag] + atts) + close)
            if not is_void:
                out.append(render_nodes(nd["kids"], exprs, void, var, nd["tag"] in RAWTEXT))
                out.append("</%s>" % tag)
    return "".join(out)


def render_template(tree, void=PINNED_VOID, var=0):
    exprs = {}
    return render_nodes(tree, exprs, void, var), exprs


# ---- alpha: the compiled program ------------------------------------------------------------------------------
NOE = {"k": "none", "s": "", "a": []}


def _nocmd(op):
    return {"op": op, "e": NOE, "name": "", "items": [], "f1": 0, "f2": 0, "sym": 0, "tag": "", "oa": [], "ca": [],
            "text": "", "slots": []}


def _e(text, exprs):
    return exprs.get(text, {"k": "unknown", "s": str(text), "a": []})


def abstract_program(template, exprs, consts):
    """real command list -> records of spec/TALCompile.tla (Cmd).  Expression texts are mapped back to the
    AST they were rendered from (mechanical inverse of gamma)."""
    C = consts
    prog = []
    for op, args in template.commandList:
        c = _nocmd(op)
        if op == C["TAL_START_SCOPE"]:
            orig, cur = args
            c["oa"] = [{"n": n, "v": v} for n, v in orig.items() if not (n.startswith("tal:") or n.startswith("metal:"))]
            c["ca"] = [{"n": n, "v": v} for n, v in cur]
        elif op == C["TAL_OUTPUT"]:
            c["text"] = args
        elif op == C["TAL_STARTTAG"]:
            c["tag"], c["f1"] = args[0], int(bool(args[1]))
        elif op == C["TAL_ENDTAG_ENDSCOPE"]:
            c["tag"], c["f1"], c["f2"] = args[0], int(bool(args[1])), int(bool(args[2]))
        elif op == C["TAL_DEFINE"]:
            c["items"] = [{"g": not loc, "name": n, "e": _e(p, exprs)} for loc, n, p in args]
        elif op == C["TAL_CONDITION"]:
            c["e"], c["sym"] = _e(args[0], exprs), args[1]
        elif op == C["TAL_REPEAT"]:
            c["name"], c["e"], c["sym"] = args[0], _e(args[1], exprs), args[2]
        elif op == C["TAL_CONTENT"]:
            c["f1"], c["f2"], c["e"], c["sym"] = int(bool(args[0])), int(bool(args[1])), _e(args[2], exprs), args[3]
        elif op == C["TAL_ATTRIBUTES"]:
            c["items"] = [{"g": False, "name": n, "e": _e(p, exprs)} for n, p in args]
        elif op == C["TAL_OMITTAG"]:
            c["e"] = _e(args, exprs) if args != "default" or "default" in exprs else {"k": "path", "s": "default", "a": []}
        elif op == C["METAL_USE_MACRO"]:
            c["e"], c["sym"] = _e(args[0], exprs), args[2]
            c["slots"] = [{"name": n, "start": s.startRange, "endsym": s.endRangeSymbol} for n, s in args[1].items()]
        elif op == C["METAL_DEFINE_SLOT"]:
            c["name"], c["sym"] = args[0], args[1]
        prog.append(c)
    symt = [{"s": s, "at": at} for s, at in sorted(template.symbolTable.items())]
    macros = [{"name": n, "start": m.startRange, "endsym": m.endRangeSymbol} for n, m in template.macros.items()]
    return prog, symt, macros


# ---- drive: the tracing interpreter -----------------------------------------------------------------------------
class StepBudget(Exception):
    pass


UNOBSERVABLE = set()        # names of interpreter / Context internals that could not be read (reported as drift)


def _size(obj, name):
    """len() of an INTERNAL attribute, read defensively: -1 = not observable (never a crash: a refactoring may
    rename or remove any internal; the trace specification treats -1 as `unknown`)"""
    try:
        return len(getattr(obj, name))
    except Exception:
        UNOBSERVABLE.add(name)
        return -1


def _reg(obj, name, conv):
    try:
        return conv(getattr(obj, name))
    except Exception:
        UNOBSERVABLE.add(name)
        return -1


def make_tracer(events, budget):
    simpleTAL, _ = st_modules()
    none = lambda x: -1 if x is None else int(x)        # noqa: E731
    flag = lambda x: int(bool(x))                       # noqa: E731

    class Tracer(simpleTAL.HTMLTemplateInterpreter):
        def __init__(self):
            super().__init__()
            for op, h in list(self.commandHandler.items()):
                self.commandHandler[op] = self._wrap(op, h)

        def _wrap(self, op, h):
            def step(command, args):
                pc = _reg(self, "programCounter", none)
                h(command, args)
                self._log(op, pc)
            return step

        def _tell(self):
            try:
                return self.file.tell()
            except Exception:
                UNOBSERVABLE.add("file.tell")
                return -1

        def _log(self, op, pc):
            ctx = getattr(self, "context", None)
            events.append([pc, op, _reg(self, "programCounter", none), _size(self, "scopeStack"), _reg(self, "outputTag", flag),
                           _reg(self, "movePCForward", none), _reg(self, "movePCBack", none),
                           _reg(self, "tagContent", lambda x: int(x is not None)), _reg(self, "localVarsDefined", flag),
                           _size(ctx, "localStack"), _size(ctx, "repeatStack"), self._tell(), _size(self, "programStack")])
            if len(events) > budget:
                raise StepBudget()

        def pushProgram(self):
            super().pushProgram()
            ctx = getattr(self, "context", None)
            pc = _reg(self, "programCounter", none)
            events.append([pc, 0, pc, _size(self, "scopeStack"), 0, -1, -1, 0, 0, _size(ctx, "localStack"), _size(ctx, "repeatStack"),
                           self._tell(), _size(self, "programStack")])

    return Tracer()


BUILTINS = ("nothing", "default", "options", "repeat", "attrs", "CONTEXTS")


def _dict(obj, name):
    d = getattr(obj, name, None)
    if not isinstance(d, dict):
        UNOBSERVABLE.add(name)
        return {}
    return d


def tree_names(nodes, out=None):
    """the variable names a template binds (repeat variables, local and global defines): what the probes ask for"""
    out = [] if out is None else out
    for nd in nodes:
        if nd["k"] != "el":
            continue
        for c in nd["tal"]:
            names = [c["name"]] if c["c"] == "repeat" else [i["name"] for i in c["items"]] if c["c"] == "define" else []
            for n in names:
                if n not in out:
                    out.append(n)
        tree_names(nd["kids"], out)
    return out


def probe(ctx, names):
    """the Context's PUBLIC behaviour: what evaluate() answers for every name the template binds and for its
    repeat variable (-2 = evaluate itself failed)"""
    _, simpleTALES = st_modules()
    out = []
    for n in names:
        rec = {"n": n, "found": False, "v": V("none"), "rnum": -1}
        try:
            rec["v"] = from_py(ctx.evaluate("nocall:" + n))
            rec["found"] = True
        except simpleTALES.PathNotFoundException:
            pass
        except Exception:
            rec["v"] = V("other", s="error")
        try:
            r = ctx.evaluate("repeat/%s/number" % n)
            rec["rnum"] = r if isinstance(r, int) and abs(r) < 2 ** 31 else -2
        except simpleTALES.PathNotFoundException:
            pass
        except Exception:
            rec["rnum"] = -2
        out.append(rec)
    return out


def snapshot(ctx, names=()):
    """Context before/after an expansion: public behaviour (probes) plus the internals, read defensively"""
    gl = _dict(ctx, "globals")
    g = {k: from_py(v) for k, v in gl.items() if k not in BUILTINS and k != "canary"}
    return {"l": [{"n": k, "v": from_py(v)} for k, v in sorted(_dict(ctx, "locals").items())],
            "nls": _size(ctx, "localStack"), "nrs": _size(ctx, "repeatStack"), "rm": sorted(_dict(ctx, "repeatMap").keys()),
            "g": [{"n": k, "v": g[k]} for k in sorted(g)],
            "builtins": sorted(k for k in gl if k in BUILTINS),
            "repeat_is_rm": gl.get("repeat") is getattr(ctx, "repeatMap", None),
            "probes": probe(ctx, names)}


EMPTY_SNAP = {"l": [], "nls": 0, "nrs": 0, "rm": [], "g": [], "builtins": [], "repeat_is_rm": True, "probes": []}


# ---- alpha: independent tokenizer of the output ------------------------------------------------------------------
_NAME = re.compile(r"[A-Za-z][^\s/>]*")
_ATT = re.compile(r"""\s*([^\s=/>]+)(?:\s*=\s*(?:"([^"]*)"|'([^']*)'|([^\s>]*)))?""")


def tokenize(doc: str):
    """HTML text -> [{t: start|end|text|raw, name, atts:[{n,v}], s}] (entity references decoded in text and
    attribute values; comments, declarations and processing instructions are `raw`)."""
    toks, i, n = [], 0, len(doc)

    def text(s):
        if s:
            if toks and toks[-1]["t"] == "text":
                toks[-1]["s"] += s
            else:
                toks.append({"t": "text", "name": "", "atts": [], "s": s, "src": "obs"})

    while i < n:
        j = doc.find("<", i)
        if j < 0:
            text(html.unescape(doc[i:]))
            break
        text(html.unescape(doc[i:j]))
        if doc.startswith("<!--", j):
            k = doc.find("-->", j + 4)
            k = n if k < 0 else k + 3
            toks.append({"t": "raw", "name": "", "atts": [], "s": doc[j:k], "src": "obs"})
            i = k
        elif doc.startswith("<!", j) or doc.startswith("<?", j):
            k = doc.find(">", j)
            k = n if k < 0 else k + 1
            toks.append({"t": "raw", "name": "", "atts": [], "s": doc[j:k], "src": "obs"})
            i = k
        elif doc.startswith("</", j) and _NAME.match(doc, j + 2):
            m = _NAME.match(doc, j + 2)
            k = doc.find(">", m.end())
            k = n if k < 0 else k + 1
            toks.append({"t": "end", "name": m.group(0).lower(), "atts": [], "s": "", "src": "obs"})
            i = k
        elif _NAME.match(doc, j + 1):
            m = _NAME.match(doc, j + 1)
            name = m.group(0).lower()
            p = m.end()
            atts = []
            while p < n and doc[p] != ">":
                if doc[p] == "/" or doc[p].isspace():
                    p += 1
                    continue
                a = _ATT.match(doc, p)
                if not a or a.end() == p:
                    p += 1
                    continue
                val = a.group(2) if a.group(2) is not None else a.group(3) if a.group(3) is not None else a.group(4)
                atts.append({"n": a.group(1).lower(), "v": html.unescape(val) if val is not None else ""})
                p = a.end()
            toks.append({"t": "start", "name": name, "atts": atts, "s": "", "src": "obs"})
            i = p + 1
            if name in RAWTEXT:          # raw text element: no markup, no references inside
                k = doc.lower().find("</" + name, i)
                k = n if k < 0 else k
                if k > i:
                    toks.append({"t": "rtext", "name": "", "atts": [], "s": doc[i:k], "src": "obs"})
                i = k
        else:
            text("<")
            i = j + 1
    return toks


def canonical(toks):
    out = []
    for t in toks:
        if t["t"] == "start":
            out.append("<" + t["name"] + "".join(' %s="%s"' % (a["n"], html.escape(a["v"], quote=True)) for a in t["atts"]) + ">")
        elif t["t"] == "end":
            out.append("</%s>" % t["name"])
        elif t["t"] == "text":
            out.append(html.escape(t["s"], quote=False))
        else:                       # raw (comment, declaration) and rtext (script/style content): as written
            out.append(t["s"])
    return "".join(out)


# ---- one case ------------------------------------------------------------------------------------------------------
BUDGET = 5000


def build_context(case, template, contexts, canary):
    simpleTAL, simpleTALES = st_modules()
    ctx = simpleTALES.Context(allowPythonPath=1 if case["py"] else 0)
    ents = list(contexts.get(case["ctx"]["id"], [])) + list(case["ctx"]["ents"])
    for e in ents:
        ctx.addGlobal(e["s"], to_py(e["q"][0], template.macros))
    ctx.addGlobal("macros", MapObjMacros(template.macros))
    ctx.addGlobal("canary", canary)
    return ctx


class MapObjMacros(dict):
    """the template's macro table as handed to the context (template.macros)"""

    def __str__(self):
        return "MAP"


class Canary:
    """side-effect canary for python: expressions (only reachable from python code)"""

    def __init__(self):
        self.n = 0

    def hit(self):
        self.n += 1
        return "PY"


def run_case(case, contexts, consts, want_tokens=False, second=False):
    """compile + expand the case with the real simpleTAL; returns the trace record (init, events)."""
    simpleTAL, simpleTALES = st_modules()
    text, exprs = render_template(case["tree"], consts["VoidTags"], case.get("var", 0))
    init = {"tree": case["tree"], "ctx": case["ctx"], "py": bool(case["py"]), "fam": case.get("fam", ""),
            "var": case.get("var", 0), "kind": "direct"}
    try:
        template = simpleTAL.compileHTMLTemplate(text)
    except Exception as e:                       # the grammar only produces well-formed templates
        init.update(prog=[], symt=[], macros=[], before=EMPTY_SNAP, compiled=False)
        return {"text": text, "init": init, "events": [], "final": {"ev": "end", "raised": "compile:" + type(e).__name__,
                "doc": "", "cdoc": "", "doc2": "", "toks": [], "after": EMPTY_SNAP, "canary": 0, "nsteps": 0}}
    prog, symt, macros = abstract_program(template, exprs, consts)
    can = Canary()
    ctx = build_context(case, template, contexts, can.hit)
    names = tree_names(case["tree"])
    before = snapshot(ctx, names)
    events = []
    out = io.StringIO()
    raised = ""
    try:
        template.expand(ctx, out, interpreter=_init_tracer(make_tracer(events, BUDGET), ctx, out))
    except StepBudget:
        raised = "StepBudget"
    except Exception as e:
        raised = type(e).__name__
    doc = out.getvalue()
    toks = tokenize(doc)
    doc2 = ""
    if second and not raised:                   # expand the result once more (Idempotent)
        try:
            o2 = io.StringIO()
            simpleTAL.compileHTMLTemplate(doc).expand(build_context(case, template, contexts, can.hit), o2)
            doc2 = o2.getvalue()
        except Exception as e:
            doc2 = "raised:" + type(e).__name__
    final = {"ev": "end", "raised": raised, "doc": doc, "cdoc": canonical(toks), "doc2": doc2, "toks": toks if want_tokens else [],
             "after": snapshot(ctx, names), "canary": can.n, "nsteps": len(events), "unobs": sorted(UNOBSERVABLE)}
    init.update(prog=prog, symt=symt, macros=macros, before=before, compiled=True)
    return {"text": text, "init": init, "events": events, "final": final}


def _init_tracer(tr, ctx, out):
    tr.initialise(ctx, out)
    return tr


def pool_map(fn, items, init_fn, procs=None):
    """fork pool (kept here so that the TAL checks do not import the server world)"""
    import multiprocessing as mp
    procs = procs or int(os.environ.get("VERIF_PROCS") or 16)
    ctx = mp.get_context("fork")
    with ctx.Pool(procs, initializer=init_fn) as pool:
        return pool.map(fn, items, chunksize=max(1, len(items) // (procs * 8) or 1))
