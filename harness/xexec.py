"""XEXEC (growth beyond the listed properties): the script gateway - handlers/virtual.py (selector
split), handlers/scriptexec.py (ExecHandler) and handlers/pyg.py (PYGHandler) - against spec/Gateway.tla.

gamma : every history TLC enumerates in MC_XEXEC (front end x TLS x fixture file x separator x argument
        string x search string; ordered pairs of a smaller space) -> wire bytes of that front end, sent
        over a socket pair to the UNMODIFIED pygopherd.server.GopherRequestHandler of a `World` with the
        "full" handler list (plain: the child's stdout really is the socket; TLS families: a real TLS
        session).  The document root holds small /bin/sh (and one python) programs that report their
        argv and the environment block the kernel handed them (/proc/<pid>/environ) through a side file
        and on stdout, a PYG module that reports what PYGMain was constructed with, look-alikes that must
        never run (not others-executable, directory, ZIP members) - generated from TREE, as is
        spec/GatewayTree.tla.
alpha : side files -> spawn / pyg events; reply bytes -> per-protocol status class + token sequence;
        process table, descriptor table, os.environ, canary directory -> the "after" event.
All judgement is in spec/Gateway.tla / spec/trace/TraceXEXEC.tla (TLC).  No property logic here.
"""
from __future__ import annotations

import gc
import html
import json
import os
import re
import shutil
import socket
import ssl
import sys
import threading
import traceback
import urllib.parse
import zipfile

from harness import core, tlc
from harness.tlaparse import iter_dump_states

# ---- fixture tree: the single source of the document root AND of spec/GatewayTree.tla -----------------
# path -> (kind, mode, prog).  kind: sh | py | pyg | dir | link:<target> | zip:<member>
TREE = [
    ("/run", "sh", 0o755, "dump"),
    ("/sub/run", "sh", 0o755, "dump"),
    ("/my run", "sh", 0o755, "dump"),
    ("/oth.cgi", "sh", 0o705, "dump"),            # others-executable, group not
    ("/lnk", "link:run", None, "dump"),           # stat follows the link: a regular executable file
    ("/bin.cgi", "sh", 0o755, "bin"),
    ("/big.cgi", "sh", 0o755, "big"),
    ("/quiet.cgi", "sh", 0o755, "quiet"),
    ("/py.cgi", "py", 0o755, "dump"),
    ("/plain.txt", "sh", 0o644, "dump"),
    ("/own.sh", "sh", 0o744, "dump"),             # executable for the owner only
    ("/grp.sh", "sh", 0o754, "dump"),             # owner and group only
    ("/xdir", "dir", 0o755, "none"),
    ("/x.pyg", "pyg", 0o755, "pyg"),
    ("/n.pyg", "pyg", 0o644, "pyg"),
    ("/z.zip/run", "zip:run", 0o755, "dump"),
    ("/z.zip/x.pyg", "zip:x.pyg", 0o755, "pyg"),
]
MB, MM, MP, ME, MERR = b"@@XB@@", b"@@XM@@", b"@@XP@@", b"@@XE@@", b"@@XERR@@"
BIN = bytes(range(256)) + b"\r\n.\r\n\x00tail-without-newline"
BIG = (b"0123456789abcdef" * 4096) * 3 + b"end"          # 196,611 bytes: three pipe buffers


def _attr(kind, mode, prog):
    t = "dir" if kind == "dir" else "reg"
    fs = "zip" if kind.startswith("zip:") else "real"
    ox = bool((mode if mode is not None else 0o755) & 0o001)
    return '[t |-> "%s", ox |-> %s, fs |-> "%s", prog |-> "%s"]' % (t, "TRUE" if ox else "FALSE", fs, prog)


def tree_module():
    rows = ['p = "/" -> %s' % _attr("dir", 0o755, "none"), 'p = "/sub" -> %s' % _attr("dir", 0o755, "none")]
    rows += ['p = "%s" -> %s' % (p, _attr(k, m, g)) for p, k, m, g in TREE]
    head = open(os.path.join(tlc.SPEC_DIR, "GatewayTree.tla")).read().split("TreeAttr(p) ==")[0]
    return (head + "TreeAttr(p) ==\n    CASE " + "\n      [] ".join(rows) + "\n      [] OTHER -> Missing\n"
            + "=" * 77 + "\n")


SH = r"""#!/bin/sh
# xexec fixture %(path)s
[ -n "$XEXEC_SIDE" ] || exit 97
S="$XEXEC_SIDE/run.$$"
{ printf '@@XB@@'; printf '%%s\0' "$0" "$@"; printf '@@XM@@'; cat "/proc/$$/environ"; printf '@@XP@@'; } > "$S"
%(body)s
"""
SH_BODY = {
    "dump": "cat \"$S\"\nprintf '@@XERR@@\\n' >&2\nprintf '@@XE@@'",
    "bin": "cat \"$S\" \"%(data)s/bin\"\nprintf '@@XE@@'",
    "big": "cat \"$S\"\nprintf '@@XERR@@\\n' >&2\ncat \"%(data)s/big\"\nprintf '@@XE@@'",
    "quiet": "printf '@@XERR@@\\n' >&2\nprintf '@@XERR@@\\n' >&2",
}
PY = r"""#!/venv/bin/python -SEs
# xexec fixture %(path)s
import os, sys
side = os.environb.get(b"XEXEC_SIDE")
if not side:
    sys.exit(97)
blk = (b"@@XB@@" + b"".join(os.fsencode(a) + b"\0" for a in sys.argv) + b"@@XM@@"
       + open("/proc/self/environ", "rb").read() + b"@@XP@@")
with open(os.path.join(side, b"run.%%d" %% os.getpid()), "wb") as fp:
    fp.write(blk)
sys.stdout.buffer.write(blk)
sys.stdout.buffer.flush()
sys.stderr.write("@@XERR@@\n")
sys.stderr.flush()
sys.stdout.buffer.write(b"@@XE@@")
"""
PYG = r'''# xexec fixture %(path)s
import json, os
from pygopherd.handlers.pyg import PYGBase
from pygopherd.gopherentry import GopherEntry


def _note(rec):
    with open(os.path.join(os.environ["XEXEC_SIDE"], "pyg.log"), "a") as fp:
        fp.write(json.dumps(rec) + "\n")


_note({"what": "load"})


class PYGMain(PYGBase):
    def canhandlerequest(self):
        return True

    def isdir(self):
        return False

    def getentry(self):
        entry = GopherEntry(self.selector, self.config)
        entry.type = "0"
        entry.mimetype = "text/plain"
        entry.name = "xexec pyg"
        return entry

    def write(self, wfile):
        rec = {"what": "write", "sel": self.selector, "real": self.getselector(), "args": self.selectorargs,
               "search": self.searchrequest or ""}
        _note(rec)
        wfile.write(b"@@PB@@" + json.dumps(rec, sort_keys=True).encode() + b"@@PE@@")
'''


def _content(path, kind, prog, data):
    if kind == "py":
        return (PY % {"path": path}).encode()
    if kind == "pyg":
        return (PYG % {"path": path}).encode()
    return (SH % {"path": path, "body": SH_BODY[prog] % {"data": data}}).encode()


# ---- gamma: the wire form of (selector, search) in each front end --------------------------------------
def wire(fe, sel, search):
    q = urllib.parse.quote(sel, safe="/")
    if fe == "gopher":
        return (sel + ("\t" + search if search else "") + "\r\n").encode()
    if fe == "gplus":
        return (sel + ("\t" + search if search else "") + "\t+\r\n").encode()
    if fe in ("http", "wap"):
        path = ("/wap" if fe == "wap" else "") + q
        if search:
            path += "?" + urllib.parse.urlencode({"searchrequest": search})
        return ("GET %s HTTP/1.0\r\nHost: localhost\r\n\r\n" % path).encode()
    if fe == "gemini":
        return ("gemini://localhost" + q + ("?" + urllib.parse.quote(search, safe="") if search else "") + "\r\n").encode()
    if fe == "spartan":
        body = search.encode()
        return ("localhost %s %d\r\n" % (q, len(body))).encode() + body
    raise core.MachineryError("unknown front end %r" % fe)


# ---- alpha: reply bytes -> status class, type, document bytes ------------------------------------------
_WML_HEAD = b'<card id="index" title="Text File" newcontext="true">\n<p>\n'
_WML_TAIL = b"</p>\n</card>\n</wml>\n"


def lex_frame(fe, out):
    """-> (st, mime, len, document bytes).  st: ok | notfound | error | garbled."""
    if fe == "gopher":
        if re.fullmatch(rb"3[^\r\n]*\t\terror\.host\t1\r\n", out):
            return "notfound", "", "", b""
        return "ok", "", "", out
    if fe == "gplus":
        m = re.match(rb"\+(-?\d+)\r\n", out)
        if m:
            return "ok", "", m.group(1).decode(), out[m.end():]
        if out.startswith(b"--2\r\n"):
            return "notfound", "", "", b""
        return "garbled", "", "", out
    if fe in ("http", "wap"):
        head, sep, body = out.partition(b"\r\n\r\n")
        lines = head.split(b"\r\n")
        m = re.match(rb"HTTP/1\.0 (\d+) ([^\r\n]*)$", lines[0]) if sep else None
        if not m:
            return "garbled", "", "", out
        mime = ""
        for ln in lines[1:]:
            if ln.lower().startswith(b"content-type:"):
                mime = ln.split(b":", 1)[1].strip().decode("ascii", "replace")
        if m.group(1) == b"404" or m.group(2) == b"Not Found":
            return "notfound", mime, "", b""
        if m.group(1) != b"200":
            return "error", mime, "", body
        if fe == "wap" and mime == "text/vnd.wap.wml":
            i = body.find(_WML_HEAD)
            if i < 0 or not body.endswith(_WML_TAIL):
                return "ok", mime, "", body                  # a menu card (or anything else): no document
            text = body[i + len(_WML_HEAD):len(body) - len(_WML_TAIL)].replace(b"</p>\n<p>", b"\n")
            return "ok", mime, "", b"WML:" + html.unescape(text.decode("latin-1")).encode("latin-1", "replace")
        return "ok", mime, "", body
    if fe in ("gemini", "spartan"):
        line, sep, body = out.partition(b"\r\n")
        m = re.match(rb"(\d+) ([^\r\n]*)$", line) if sep else None
        if not m:
            return "garbled", "", "", out
        code = m.group(1).decode()
        ok, nf = ("20", "51") if fe == "gemini" else ("2", "4")
        if code == ok:
            return "ok", m.group(2).decode("ascii", "replace"), "", body
        return ("notfound" if code == nf else "error"), "", "", b""
    raise core.MachineryError("unknown front end %r" % fe)


def _txt(b):
    return b.decode("ascii", "backslashreplace")


def parse_dump(blk, root):
    """argv NUL-terminated, @@XM@@, environment block -> (argv list, sorted [name, value] list)."""
    a, _, e = blk.partition(MM)
    argv = [_txt(x) for x in a.split(b"\0")[:-1]] if a.endswith(b"\0") else [_txt(a) + "<unterminated>"]
    if argv and argv[0].startswith(root):
        argv[0] = "ROOT" + argv[0][len(root):]
    env = []
    for item in e.split(b"\0"):
        if item:
            n, _, v = item.partition(b"=")
            env.append([_txt(n), _txt(v)])
    return argv, sorted(env)


def lex_doc(doc, site):
    """document bytes -> (toks, argv, env, psaw): markers of the fixture programs, payload classes."""
    toks, argv, env, psaw = [], [], [], []
    if doc.startswith(b"WML:"):
        # the WML conversion strips trailing white space of every line and ends every line with LF: a
        # fixture file is recognised in that normal form, the programs' one-line output loses the added LF
        doc = doc[4:]
        if doc in site.by_wml:
            return ["SRC:" + site.by_wml[doc]], argv, env, psaw
        if doc.endswith(b"\n"):
            doc = doc[:-1]
    n_err = doc.count(MERR + b"\n")
    if n_err:
        toks += ["ERR"] * n_err
        doc = doc.replace(MERR + b"\n", b"")
    if doc == b"":
        return toks, argv, env, psaw
    if doc in site.by_content:
        return toks + ["SRC:" + site.by_content[doc]], argv, env, psaw
    m = re.fullmatch(rb"@@PB@@(\{.*\})@@PE@@", doc, re.S)
    if m:
        try:
            rec = json.loads(m.group(1))
            return toks + ["PB", "PDUMP", "PE"], argv, env, [rec["sel"], rec["real"], rec["args"], rec["search"]]
        except (ValueError, KeyError):
            return toks + ["OTHER"], argv, env, psaw
    i, j = doc.find(MB), doc.find(MP)
    if not 0 <= i < j:
        return toks + ["OTHER"], argv, env, psaw
    if i:
        toks.append("junk")
    toks += ["B", "DUMP"]
    argv, env = parse_dump(doc[i + len(MB):j], site.root)
    rest = doc[j + len(MP):]
    k = rest.rfind(ME)
    pay = rest if k < 0 else rest[:k]
    if pay:
        toks.append("bin" if pay == BIN else "big" if pay == BIG else "junk")
    if k >= 0:
        toks.append("E")
        if rest[k + len(ME):]:
            toks.append("junk")
    return toks, argv, env, psaw


# ---- the real server on a socket pair -------------------------------------------------------------------
class Site:
    """One per worker process: document root, World("full"), TLS contexts, side / canary directories."""

    def __init__(self, base):
        from harness import world
        import pygopherd.server as srvmod
        self.srvmod = srvmod
        self.dir = os.path.join(base, "w%d" % os.getpid())
        self.root = os.path.join(self.dir, "root")
        self.side = os.path.join(self.dir, "side")
        self.data = os.path.join(self.dir, "data")
        self.canary = os.path.join(self.dir, "cwd")
        for d in (self.root, self.side, self.data, self.canary):
            os.makedirs(d)
        with open(os.path.join(self.data, "bin"), "wb") as fp:
            fp.write(BIN)
        with open(os.path.join(self.data, "big"), "wb") as fp:
            fp.write(BIG)
        for n in ("g1", "g2"):                       # what a shell would expand `*` / {g1,g2} to
            open(os.path.join(self.canary, n), "w").close()
        os.chdir(self.canary)                        # a shell's relative side effects land here
        self.by_content = {}
        zips = {}
        for path, kind, mode, prog in TREE:
            p = self.root + path
            if kind == "dir":
                os.makedirs(p)
                os.chmod(p, mode)
            elif kind.startswith("link:"):
                os.symlink(kind[5:], p)
            elif kind.startswith("zip:"):
                member = kind[4:]
                data = _content(path, "pyg" if prog == "pyg" else "sh", prog, self.data)
                zips.setdefault(path[:path.index(".zip") + 4], []).append((member, mode, data))
                self.by_content[data] = path
            else:
                os.makedirs(os.path.dirname(p), exist_ok=True)
                data = _content(path, kind, prog, self.data)
                with open(p, "wb") as fp:
                    fp.write(data)
                os.chmod(p, mode)
                self.by_content[data] = path
        for zpath, members in zips.items():
            with zipfile.ZipFile(self.root + zpath, "w") as z:
                for member, mode, data in members:
                    zi = zipfile.ZipInfo(member, date_time=(2020, 1, 1, 0, 0, 0))
                    zi.external_attr = (0o100000 | mode) << 16
                    zi.compress_type = zipfile.ZIP_DEFLATED
                    z.writestr(zi, data)
        self.by_wml = {b"".join(ln.rstrip() + b"\n" for ln in c.split(b"\n")[:-1]): p for c, p in self.by_content.items()}
        self.plumbing = {"XEXEC_SIDE": self.side}
        self.world = world.World(root=self.root, handlers="full")
        self.sctx = ssl.create_default_context(ssl.Purpose.CLIENT_AUTH)
        self.sctx.load_cert_chain(os.path.join(core.REPO, "testdata", "demo.crt"), os.path.join(core.REPO, "testdata", "demo.key"))
        self.cctx = ssl.create_default_context()
        self.cctx.check_hostname = False
        self.cctx.verify_mode = ssl.CERT_NONE
        self.errlog = open(os.path.join(self.dir, "stderr"), "ab")
        os.dup2(self.errlog.fileno(), 2)             # the programs' stderr on plain connections = ours
        self.spawns = 0
        self.loads = 0

    # -- one request through the unmodified connection handler
    def fetch(self, r):
        from pygopherd import logger
        w = self.world
        logger.log = w.logbuf.append
        del w.logbuf[:]
        a, b = socket.socketpair()
        info = {}
        tls = r["tls"]
        client = (r["caddr"], int(r["cport"]))

        def serve():
            s = a
            try:
                if tls:
                    s = self.sctx.wrap_socket(a, server_side=True)
                self.srvmod.GopherRequestHandler(s, client, w.server)
            except BaseException as e:      # noqa: what escaped the connection handler
                info["server"] = type(e).__name__
            finally:
                try:
                    s.shutdown(socket.SHUT_RDWR)
                except Exception:
                    pass
                s.close()

        th = threading.Thread(target=serve)
        th.start()
        buf = b""
        c = b
        try:
            c.settimeout(30)
            if tls:
                c = self.cctx.wrap_socket(b, server_hostname="localhost")
            c.sendall(wire(r["fe"], r["sel"], r["search"]))
            while True:
                d = c.recv(262144)
                if not d:
                    break
                buf += d
        except (ssl.SSLError, OSError) as e:
            info["client"] = type(e).__name__ + ":" + str(e)[:80]
        th.join(60)
        if th.is_alive():
            info["server"] = "hung"
        try:
            c.close()
        except Exception:
            pass
        return buf, info, list(w.logbuf)

    # -- observations around one request
    def _fds(self):
        return len(os.listdir("/proc/self/fd"))

    def _canary(self):
        return set(os.listdir(self.canary))

    def _children(self):
        """(reaped here = were left unreaped, still running)"""
        unreaped = running = 0
        while True:
            try:
                pid, _st = os.waitpid(-1, os.WNOHANG)
            except ChildProcessError:
                break
            if pid == 0:
                running += 1
                break
            unreaped += 1
        return unreaped, running

    def run_history(self, senv, hist):
        """senv: the abstract server environment (list of [name, value]); hist: list of request records."""
        for n in os.listdir(self.side):
            os.unlink(os.path.join(self.side, n))
        os.environ.clear()
        os.environ.update(dict(senv))
        os.environ.update(self.plumbing)
        senv0 = sorted([k, v] for k, v in os.environ.items())
        events, raw = [], []
        self._children()
        for r in hist:
            env_before = dict(os.environ)
            can_before = self._canary()
            fd_before = self._fds()
            events.append({"ev": "req", "fe": r["fe"], "tls": r["tls"], "sel": r["sel"], "search": r["search"],
                           "caddr": r["caddr"], "cport": r["cport"]})
            out, info, log = self.fetch(r)
            fd_after = self._fds()
            if fd_after != fd_before:        # descriptors held by garbage (archive objects) are not leaks
                gc.collect()
                fd_after = self._fds()
            unreaped, running = self._children()
            # what ran / was loaded, as the programs themselves report it
            for n in sorted(os.listdir(self.side)):
                p = os.path.join(self.side, n)
                if n.startswith("run."):
                    with open(p, "rb") as fp:
                        blk = fp.read()
                    i, j = blk.find(MB), blk.find(MP)
                    argv, env = parse_dump(blk[i + len(MB):j], self.root) if 0 <= i < j else (["<no dump>"], [])
                    events.append({"ev": "spawn", "argv": argv, "env": env, "effects": sorted(self._canary() - can_before)})
                    self.spawns += 1
                elif n == "pyg.log":
                    with open(p) as fp:
                        for ln in fp:
                            rec = json.loads(ln)
                            if rec["what"] == "load":
                                events.append({"ev": "pyg", "what": "load"})
                                self.loads += 1
                            else:
                                events.append({"ev": "pyg", "what": "write", "sel": rec["sel"], "real": rec["real"],
                                               "args": rec["args"], "search": rec["search"]})
                os.unlink(p)
            if info:
                st, mime, glen, doc = "garbled", "", "", out
            else:
                st, mime, glen, doc = lex_frame(r["fe"], out)
            toks, argv, env, psaw = lex_doc(doc, self)
            events.append({"ev": "reply", "st": st, "mime": mime, "len": glen, "toks": toks, "argv": argv, "env": env,
                           "psaw": psaw})
            env_after = dict(os.environ)
            delta = sorted(k for k in set(env_before) | set(env_after) if env_before.get(k) != env_after.get(k))
            events.append({"ev": "after", "unreaped": unreaped, "running": running, "fdleft": max(0, fd_after - fd_before),
                           "envdelta": delta, "effects": sorted(self._canary() - can_before)})
            for n in self._canary() - can_before:
                os.unlink(os.path.join(self.canary, n))
            raw.append({"wire": _txt(wire(r["fe"], r["sel"], r["search"])), "out": _txt(out[:600]), "outlen": len(out),
                        "info": info, "log": log[-3:]})
        return {"senv0": senv0, "events": events}, raw


_SITE = None
_BASE = None


def _init_worker():
    global _SITE
    _SITE = Site(_BASE)


def _task(job):
    try:
        return [("ok",) + _SITE.run_history(senv, hist) + ((_SITE.spawns, _SITE.loads),) for senv, hist in job]
    except BaseException:      # noqa: never let a pool worker die silently
        return [("err", traceback.format_exc())]


def _pool(jobs):
    import multiprocessing as mp
    procs = int(os.environ.get("VERIF_PROCS") or 8)
    ctx = mp.get_context("fork")
    size = max(1, min(40, len(jobs) // (procs * 4) or 1))
    chunks = [jobs[i:i + size] for i in range(0, len(jobs), size)]
    with ctx.Pool(procs, initializer=_init_worker) as pool:
        res = pool.map_async(_task, chunks, chunksize=1).get(3000)
    out = []
    for part in res:
        for item in part:
            if item[0] == "err":
                raise core.MachineryError("worker failed:\n" + item[1])
            out.append(item[1:])
    return out


# ---- cases from TLC --------------------------------------------------------------------------------------
def _model(cfg, maxreq, timeout):
    res = tlc.check_model("MC_XEXEC", cfg, dump=True, timeout=timeout, extra_files={"GatewayTree.tla": tree_module()})
    cases = {}
    try:
        for s in iter_dump_states(res["dump"], {"pc", "hist", "senv"}):
            if s.get("pc") == "after" and len(s["hist"]) == maxreq:
                senv = sorted([list(x) for x in s["senv"]])
                hist = [dict(r) for r in s["hist"]]
                cases[json.dumps([senv, hist], sort_keys=True)] = (senv, hist)
    finally:
        tlc.cleanup(res)
    return res, [cases[k] for k in sorted(cases)]


def _witness(name, split, wap):
    """The model with a deviation AS CODED must break ServedWhenGated (vacuity witness of the switches)."""
    cfg = open(os.path.join(tlc.SPEC_DIR, "MC_XEXEC.cfg")).read()
    cfg = cfg.replace("SplitFirstMark = TRUE", "SplitFirstMark = %s" % split).replace("WapCaptures = TRUE", "WapCaptures = %s" % wap)
    res = tlc.run_tlc("MC_XEXEC", name, timeout=600, extra_files={name: cfg, "GatewayTree.tla": tree_module()})
    return sorted(set(res["inv_violations"]))


def _key(senv, hist):
    return " >> ".join("%s%s %s [%s]" % (r["fe"], "/tls" if r["tls"] else "", r["sel"], r["search"]) for r in hist) + \
        (" env+stale" if any(n == "SELECTOR" for n, _v in senv) else "")


def _case_fields(hist, at):
    """Syntactic description of the request an event index belongs to (for known-finding matchers)."""
    r = hist[-1]
    sel = r["sel"]
    marks = [i for i in (sel.find("?"), sel.find("|")) if i >= 0]
    first = sel[min(marks)] if marks else ""
    base = sel[:min(marks)] if marks else sel
    return {"fe": r["fe"], "tls": r["tls"], "sel": sel, "search": r["search"], "first_mark": first,
            "qmark_after_bar": bool(first == "|" and "?" in sel), "pyg_name": base.endswith(".pyg"), "requests": len(hist)}


def _validate(traces):
    from concurrent.futures import ThreadPoolExecutor
    n = int(os.environ.get("VERIF_TLC_WORKERS") or 8)
    size = max(200, min(2500, -(-len(traces) // n)))
    parts = [(i, traces[i:i + size]) for i in range(0, len(traces), size)]
    extra = {"GatewayTree.tla": tree_module()}
    with ThreadPoolExecutor(max_workers=n) as ex:
        res = list(ex.map(lambda p: (p[0], tlc.validate_traces("TraceXEXEC", "TraceXEXEC.cfg", p[1], timeout=3000,
                                                                extra_files=extra)), parts))
    tv = {"accepted": 0, "rejected": [], "drift": [], "states": 0, "generated": 0, "cmd": ""}
    for off, r in res:
        tv["accepted"] += r["accepted"]
        tv["states"] += r["states"]
        tv["generated"] += r["generated"]
        tv["cmd"] = r["cmd"]
        for rj in r["rejected"]:
            rj["index"] += off
            tv["rejected"].append(rj)
        for d in r["drift"]:
            d["index"] += off
            tv["drift"].append(d)
    return tv


def _run(chk, jobs):
    """jobs: list of (senv, hist).  Returns traces (TLC input), raws, counters."""
    global _BASE
    _BASE = tlc.new_scratch("xexec")
    try:
        out = _pool(jobs)
    finally:
        shutil.rmtree(_BASE, ignore_errors=True)
    traces, raws = [], []
    spawns = loads = 0
    for (senv, hist), (tr, raw, cnt) in zip(jobs, out):
        traces.append({"id": _key(senv, hist), "senv0": tr["senv0"], "events": tr["events"]})
        raws.append(raw)
    spawns = sum(1 for t in traces for e in t["events"] if e["ev"] == "spawn")
    loads = sum(1 for t in traces for e in t["events"] if e["ev"] == "pyg" and e["what"] == "load")
    return traces, raws, spawns, loads


def selftest(traces):
    """Binding self-test: corrupt one field / drop one event of recorded traces THAT TraceXEXEC ACCEPTED; it
    must reject each corrupted copy with the named clause."""
    import copy

    def pick(pred):
        for t in traces:
            if sum(1 for e in t["events"] if e["ev"] == "req") == 1 and pred(t):
                return copy.deepcopy(t)
        raise LookupError("no suitable accepted trace")

    def has(t, ev, **kw):
        return any(e["ev"] == ev and all(e.get(k) == v for k, v in kw.items()) for e in t["events"])

    def first(t, ev):
        return next(e for e in t["events"] if e["ev"] == ev)

    def argv_joined(t):
        first(t, "spawn")["argv"][1:3] = [" ".join(first(t, "spawn")["argv"][1:3])]

    def port_changed(t):
        [x for x in first(t, "spawn")["env"] if x[0] == "REMOTE_PORT"][0][1] = "1"

    def drop(ev):
        def f(t):
            t["events"] = [e for e in t["events"] if e["ev"] != ev]
        return f

    def after(fld, val):
        def f(t):
            first(t, "after")[fld] = val
        return f

    plan = [
        ("ArgvVerbatim", lambda t: has(t, "spawn") and len(first(t, "spawn")["argv"]) > 2, argv_joined),
        ("EnvDocumented", lambda t: has(t, "spawn"), port_changed),
        ("NoStale", lambda t: has(t, "spawn") and first(t, "req")["search"] == "",
         lambda t: first(t, "spawn")["env"].append(["SEARCHREQUEST", "old"])),
        ("ServedWhenGated", lambda t: has(t, "spawn"), drop("spawn")),
        ("GatedRun", lambda t: has(t, "reply", toks=["SRC:/plain.txt"]),
         lambda t: t["events"].insert(1, {"ev": "spawn", "argv": ["ROOT/plain.txt"], "env": [], "effects": []})),
        ("GatedLoad", lambda t: has(t, "reply", toks=["SRC:/n.pyg"]), lambda t: t["events"].insert(1, {"ev": "pyg", "what": "load"})),
        ("OutExact", lambda t: has(t, "spawn") and "E" in first(t, "reply")["toks"], lambda t: first(t, "reply")["toks"].remove("E")),
        ("StderrNotSent", lambda t: has(t, "spawn") and "DUMP" in first(t, "reply")["toks"], lambda t: first(t, "reply")["toks"].insert(0, "ERR")),
        ("ListedAsText", lambda t: has(t, "spawn") and first(t, "req")["fe"] == "http",
         lambda t: first(t, "reply").update(mime="application/octet-stream")),
        ("PygSeesRequest", lambda t: has(t, "pyg", what="write"), lambda t: first(t, "reply")["psaw"].__setitem__(3, "someone else's search")),
        ("Reaped", lambda t: has(t, "spawn"), after("unreaped", 1)),
        ("NoFdLeft", lambda t: has(t, "spawn"), after("fdleft", 2)),
        ("ServerEnvUntouched", lambda t: has(t, "spawn"), after("envdelta", ["SEARCHREQUEST"])),
        ("NoShell", lambda t: has(t, "spawn"), lambda t: first(t, "spawn").update(effects=["CANARY"])),
        ("incomplete", lambda t: has(t, "spawn"), lambda t: t["events"].pop()),
    ]
    want, skipped = [], []
    for clause, pred, corrupt in plan:
        try:
            t = pick(pred)
        except LookupError:
            skipped.append(clause)
            continue
        corrupt(t)
        want.append((t, clause))
    if not want:
        return {"skipped": skipped}
    tv = tlc.validate_traces("TraceXEXEC", "TraceXEXEC.cfg", [w[0] for w in want], timeout=900,
                             extra_files={"GatewayTree.tla": tree_module()})
    got = {rj["index"]: rj["clause"] for rj in tv["rejected"]}
    res = {}
    for i, (_t, clause) in enumerate(want):
        res[clause] = got.get(i, "ACCEPTED")
        if got.get(i) != clause:
            res.setdefault("mismatch", []).append("%s: TraceXEXEC said %s" % (clause, got.get(i, "ACCEPTED")))
    if skipped:
        res["skipped"] = skipped
    return res


def main(chk, replay=None):
    if replay:
        with open(replay) as fp:
            rp = json.load(fp)
        jobs = [(rp["case"]["senv"], rp["case"]["hist"])]
        traces, raws, _s, _l = _run(chk, jobs)
        tv = _validate(traces)
        for rj in tv["rejected"]:
            chk.violation(rp["key"], rj["clause"], dict(rp["case"]), {"at": rj["at"], "events": traces[0]["events"], "raw": raws[0]})
        return chk.finish({"states": tv["states"], "transitions": tv["generated"], "traces_validated_against_impl": tv["accepted"],
                           "evaluations": 1, "distinct_nontrivial": 1, "rule": "replay of one stored history", "samples": traces[:1],
                           "checker_cmd": tv["cmd"], "exhaustive": False}, ["replay"])
    thorough = chk.tier == "thorough"
    import time
    t0 = time.time()
    phase = {}
    single_cfg, pair_cfg = ("MC_XEXEC_thorough.cfg", "MC_XEXEC_seq_thorough.cfg") if thorough else ("MC_XEXEC.cfg", "MC_XEXEC_seq.cfg")
    from concurrent.futures import ThreadPoolExecutor
    with ThreadPoolExecutor(max_workers=5) as ex:          # independent TLC runs
        f1 = ex.submit(_model, single_cfg, 1, 1500)
        f2 = ex.submit(_model, pair_cfg, 2, 1500)
        f3 = ex.submit(_model, "MC_XEXEC_env.cfg", 1, 1500) if thorough else None
        w1 = ex.submit(_witness, "MC_XEXEC_w1.cfg", "FALSE", "TRUE")
        w2 = ex.submit(_witness, "MC_XEXEC_w2.cfg", "TRUE", "FALSE")
        (res1, singles), (res2, pairs) = f1.result(), f2.result()
        if f3:      # the quick case space again on a server whose own environment holds documented names
            res3, stale = f3.result()
            singles = singles + stale
            res1 = dict(res1, distinct=res1["distinct"] + res3["distinct"], generated=res1["generated"] + res3["generated"],
                        inv_violations=res1["inv_violations"] + res3["inv_violations"], rc=max(res1["rc"], res3["rc"]))
        wit = {"split-as-coded": w1.result(), "wap-as-coded": w2.result()}
    for res in (res1, res2):
        if res["inv_violations"] or res["rc"] == 13:
            chk.model_violation("MC_XEXEC/" + res["cfg"], sorted(set(res["inv_violations"])) or ["EnvUntouched"], res["out"][-2000:])
    if any("ServedWhenGated" not in v for v in wit.values()):
        raise core.MachineryError("XEXEC: the as-coded switches do not break ServedWhenGated in the model: %r" % wit)
    phase["model_s"] = round(time.time() - t0, 1)
    jobs = singles + pairs
    traces, raws, spawns, loads = _run(chk, jobs)
    phase["real_runs_s"] = round(time.time() - t0 - phase["model_s"], 1)
    if spawns == 0 or loads == 0:
        raise core.MachineryError("XEXEC: vacuous run: %d programs ran, %d PYG modules were loaded" % (spawns, loads))
    t1 = time.time()
    tv = _validate(traces)
    phase["trace_validation_s"] = round(time.time() - t1, 1)
    t1 = time.time()
    bad = {rj["index"] for rj in tv["rejected"]}
    st = selftest([t for i, t in enumerate(traces) if i not in bad])
    phase["selftest_s"] = round(time.time() - t1, 1)
    if (st.get("skipped") or st.get("mismatch")) and not tv["rejected"]:      # on a tree that violates nothing the binding must bite
        raise core.MachineryError("XEXEC: binding self-test failed: skipped %r mismatch %r" % (st.get("skipped"), st.get("mismatch")))
    rej_classes = {}
    for rj in tv["rejected"]:
        i = rj["index"]
        senv, hist = jobs[i]
        nreq = sum(1 for e in traces[i]["events"][:rj["at"]] if e["ev"] == "req") or 1
        case = _case_fields(hist[:nreq], rj["at"])
        case.update({"senv": senv, "hist": hist})
        cls = "%s|%s|%s" % (rj["clause"], case["fe"], "qmark-after-bar" if case["qmark_after_bar"] else "-")
        rej_classes[cls] = rej_classes.get(cls, 0) + 1
        chk.violation("%s:%s" % (traces[i]["id"], rj["clause"]), rj["clause"], case,
                      {"at": rj["at"], "events": traces[i]["events"], "raw": raws[i]})
    chk.note_drift([{"id": d["id"], "at": d["at"], "what": d["what"]} for d in tv["drift"]])
    clauses_reached = {
        "spawn events": spawns, "pyg loads": loads,
        "tls spawns": sum(1 for t in traces if t["events"][0]["tls"] and any(e["ev"] == "spawn" for e in t["events"])),
        "replies with payload": sum(1 for t in traces for e in t["events"] if e["ev"] == "reply" and ("bin" in e["toks"] or "big" in e["toks"])),
        "never-run look-alikes served": sum(1 for t in traces for e in t["events"] if e["ev"] == "reply" and any(x.startswith("SRC:") for x in e["toks"])),
    }
    if not all(clauses_reached.values()):
        raise core.MachineryError("XEXEC: vacuous run: %r" % clauses_reached)
    return chk.finish(
        {"states": res1["distinct"] + res2["distinct"], "transitions": res1["generated"] + res2["generated"], "exhaustive": True,
         "traces_validated_against_impl": tv["accepted"], "trace_states": tv["states"], "evaluations": sum(len(h) for _s, h in jobs),
         "histories": {"single": len(singles), "pairs": len(pairs)},
         "distinct_nontrivial": spawns + loads,
         "rule": "requests on which the real server started a program (side file written by the program itself) or executed a PYG module body",
         "reached": clauses_reached, "rejection_classes": rej_classes, "witness_as_coded_model_violates": wit, "selftest": st, "phase_s": phase,
         "samples": [traces[i] for i in range(0, len(traces), max(1, len(traces) // 3))][:3],
         "checker_cmd": res1["cmd"]},
        ["front-end decoding of the wire form into (selector, search) is taken as the identity (C05/C06): gamma percent-encodes / "
         "tab-separates so that the case's selector and search string arrive unchanged",
         "requests go over a socket pair to the unmodified GopherRequestHandler (World('full') supplies root, config and server object; "
         "World.request's in-memory wfile has no descriptor, which the plaintext branch needs); TLS families use a real TLS session",
         "the programs report argv and /proc/<pid>/environ themselves; payload bytes are compared by alpha as classes (bin, big)",
         "server environment without SEARCHREQUEST of its own; advertisedport unset"])
