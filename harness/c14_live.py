"""C14, binding B3: bursts of simultaneous mixed plaintext/TLS clients against REAL
ThreadingTCPServer and ForkingTCPServer instances on loopback.  Runs in its own process (the forking
server forks this process).  Prints one JSON line {"traces": [...], "info": {...}}.
Verdicts never depend on wall-clock: a client timeout is reported as an incomplete response only after
a generous limit, and the liveness probe is 'another connection is served', not 'within x ms'."""
from __future__ import annotations

import json
import os
import random
import re
import socket
import ssl
import sys
import threading
import time

from harness import core


def normalise(out: bytes) -> bytes:
    out = re.sub(rb"Last-Modified: [^\r\n]*\r\n", b"", out)
    out = re.sub(rb" Mod-Date: [^\r\n]*\r\n", b"", out)
    return out


REQS = [
    ("G", False, b"/d\r\n"), ("GP", False, b"/d\t+\r\n"), ("GP", False, b"/d\t$\r\n"), ("H", False, b"GET /d HTTP/1.0\r\n\r\n"),
    ("G", False, b"/d/a\r\n"), ("H", False, b"GET /d/page.html HTTP/1.0\r\n\r\n"), ("G", False, b"/nothere\r\n"),
    ("G", False, b"/e\r\n"), ("S", False, b"localhost /d 0\r\n"), ("W", False, b"GET /wap/d HTTP/1.0\r\n\r\n"),
    ("GEM", True, b"gemini://localhost/d\r\n"), ("G", True, b"/d\r\n"), ("H", True, b"GET /e HTTP/1.0\r\n\r\n"),
    ("G", False, b"/big.bin\r\n"),
    # a WAP browser recognised by its headers only, and header-less / header-bearing HTTP clients after it:
    # per-connection header state must never be visible to another connection
    ("WH", False, b"GET /d HTTP/1.0\r\nAccept: text/html, text/vnd.wap.wml\r\nX-Wap-Profile: http://example/p.xml\r\n\r\n"),
    ("H", False, b"GET /e HTTP/1.0\r\n\r\n"),
    ("H", False, b"GET /d/a HTTP/1.0\r\nUser-Agent: x\r\n\r\n"),
]


def client(port, tls, data, result, idx, start_evt, silent_first=0.0):
    try:
        start_evt.wait(10)
        s = socket.create_connection(("127.0.0.1", port), timeout=60)
        if tls:
            ctx = ssl.create_default_context()
            ctx.check_hostname = False
            ctx.verify_mode = ssl.CERT_NONE
            s = ctx.wrap_socket(s)
        s.sendall(data)
        chunks = []
        while True:
            b = s.recv(65536)
            if not b:
                break
            chunks.append(b)
        s.close()
        result[idx] = b"".join(chunks)
    except Exception as e:  # noqa
        result[idx] = ("ERR", repr(e))


def alone_fresh(data, tls):
    """The answer a client gets ALONE: from a process that has served nothing before (forked child, fresh
    module state), through the same real connection handler, in memory."""
    r, wfd = os.pipe()
    pid = os.fork()
    if pid == 0:
        try:
            os.close(r)
            from harness.world import World
            w = World()
            tree(w)
            out = w.request(data, tls=tls).out
            w.close()
            os.write(wfd, out)
        finally:
            os._exit(0)
    os.close(wfd)
    chunks = []
    while True:
        b = os.read(r, 1 << 16)
        if not b:
            break
        chunks.append(b)
    os.close(r)
    os.waitpid(pid, 0)
    return b"".join(chunks)


def build(servertype):
    from harness.world import World
    from pygopherd import initialization
    w = World(overrides={("pygopherd", "servertype"): servertype})
    cfg = w.config
    ctx = ssl.create_default_context(ssl.Purpose.CLIENT_AUTH)
    ctx.load_cert_chain(os.path.join(core.REPO, "testdata", "demo.crt"), os.path.join(core.REPO, "testdata", "demo.key"))
    cfg.set("pygopherd", "port", "0")
    server = initialization.get_server(cfg, context=ctx)
    server.server_port = 70            # advertised port fixed so that answers are comparable
    return w, server


def tree(w):
    w.clear()
    w.mkdir("d/s")
    w.write("d/a", b"content a\n" * 50)
    w.write("d/a.abstract", b"v1\n")
    w.write("d/page.html", b"<html><title>T</title></html>\n")
    w.write("d/pic.gif", b"GIF89a")
    # UMN link files: the listing depends on the merge-and-sort step that follows the directory walk
    w.write("d/.Links", b"Name=zz other server\nType=1\nPath=/elsewhere\nHost=other.example\nPort=7070\n")
    w.write("d/.names", b"Path=./pic.gif\nName=000 first picture\n")
    w.mkdir("e")
    w.write("e/b.txt", b"b\n")
    w.write("big.bin", bytes(range(256)) * 1200)


def main():
    bursts, nclients, seed = int(sys.argv[1]), int(sys.argv[2]), int(sys.argv[3])
    rnd = random.Random(seed)
    traces, info = [], {}
    for servertype in ("ThreadingTCPServer", "ForkingTCPServer"):
        from harness import world
        w, server = build(servertype)
        port = server.socket.getsockname()[1]
        th = threading.Thread(target=server.serve_forever, kwargs={"poll_interval": 0.05}, daemon=True)
        th.start()
        try:
            # the answer each client gets alone: fresh process, nothing served before
            alone = {}
            for (p, tls, data) in REQS:
                alone[(p, tls, data)] = alone_fresh(data, tls)
            # fixed sequences of connections, one after the other on the live server: state left behind by one
            # connection (headers, lazies, caches) must not show in the next one's answer
            ev = threading.Event()
            ev.set()
            seqs = [[REQS[3], REQS[14], REQS[15], REQS[16], REQS[3]], [REQS[9], REQS[3], REQS[0], REQS[2], REQS[3]]]
            for si, seq in enumerate(seqs):
                tree(w)
                events = []
                for (p, tls, data) in seq:
                    res = {}
                    client(port, tls, data, res, 0, ev)
                    out = res.get(0)
                    ok = isinstance(out, bytes) and len(out) > 0
                    same = ok and normalise(out) == normalise(alone[(p, tls, data)])
                    events.append({"ev": "resp", "w": 0, "p": p, "same": bool(same), "ok": bool(ok), "raw": "" if same else repr(out)[:300]})
                events.append({"ev": "end", "served": sum(1 for e in events if e["ok"]), "expected": len(seq), "alive": True, "zombies": 0})
                traces.append({"id": "live %s sequence %d" % (servertype, si), "events": events,
                               "case": {"kind": "live-seq", "server": servertype, "seq": si,
                                        "requests": [d.decode("latin-1") for (_p, _t, d) in seq]}})
            for b in range(bursts):
                tree(w)                      # cold cache, and (threading) lazies already set; first burst of a
                picks = [REQS[rnd.randrange(len(REQS))] for _ in range(nclients)]   # fresh server covers start-up
                res = {}
                ev = threading.Event()
                # one silent client connected first: it must not block the others
                silent = socket.create_connection(("127.0.0.1", port), timeout=60)
                ths = [threading.Thread(target=client, args=(port, tls, data, res, i, ev)) for i, (p, tls, data) in enumerate(picks)]
                for t in ths:
                    t.start()
                ev.set()
                for t in ths:
                    t.join(120)
                events = []
                for i, (p, tls, data) in enumerate(picks):
                    out = res.get(i)
                    al = alone[(p, tls, data)]
                    ok = isinstance(out, bytes) and len(out) > 0
                    same = ok and isinstance(al, bytes) and normalise(out) == normalise(al)
                    events.append({"ev": "resp", "w": 0, "p": p, "same": bool(same), "ok": bool(ok),
                                   "raw": "" if same else repr(out)[:300]})
                # liveness probe while the silent client is still connected and silent
                pres = {}
                client(port, False, b"/e\r\n", pres, 0, ev)
                alive = isinstance(pres.get(0), bytes) and normalise(pres[0]) == normalise(alone[("G", False, b"/e\r\n")])
                silent.sendall(b"/e\r\n")
                sdata = b""
                try:
                    while True:
                        bb = silent.recv(65536)
                        if not bb:
                            break
                        sdata += bb
                except OSError:
                    pass
                silent.close()
                events.append({"ev": "resp", "w": 0, "p": "G", "same": normalise(sdata) == normalise(alone[("G", False, b"/e\r\n")]),
                               "ok": len(sdata) > 0, "raw": ""})
                zombies = 0
                if servertype == "ForkingTCPServer":
                    # the accept loop reaps in service_actions(); give it a bounded number of polls
                    for _ in range(200):
                        ac = getattr(server, "active_children", None)
                        if not ac:
                            break
                        time.sleep(0.05)
                    zombies = len(getattr(server, "active_children", None) or ())
                served = sum(1 for e in events if e["ev"] == "resp" and e["ok"])
                events.append({"ev": "end", "served": served, "expected": len(picks) + 1, "alive": bool(alive), "zombies": zombies})
                traces.append({"id": "live %s burst %d" % (servertype, b), "events": events,
                               "case": {"kind": "live", "server": servertype, "burst": b, "seed": seed,
                                        "requests": [d.decode("latin-1") for (_p, _t, d) in picks]}})
            info[servertype] = {"bursts": bursts, "clients_per_burst": nclients}
        finally:
            server.shutdown()
            server.server_close()
            w.close()
    print(json.dumps({"traces": traces, "info": info}))


if __name__ == "__main__":
    main()
