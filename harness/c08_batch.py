"""Chunked trace validation with a retry, shared by harness/c08.py and harness/c09.py (no property logic).

tlc.validate_traces starts one JVM per chunk; on a machine shared with many other TLC runs a JVM is
occasionally killed or cannot get its heap.  A chunk whose TLC run fails as MACHINERY (tlc.TLCError) is
retried; a second failure is raised (exit 2).  Verdicts are never retried or altered."""
from __future__ import annotations

import os
import time

from harness import tlc

CHUNK = 3000


def validate(module, cfg_name, cfg_text, traces, timeout=3000, retries=2):
    os.environ.setdefault("VERIF_TLC_XMX", "4g")        # trace batches are small; leave memory to the neighbours
    out = {"accepted": 0, "rejected": [], "states": 0, "generated": 0, "wall_s": 0.0, "cmd": "", "drift": [], "retried": 0}
    for off in range(0, len(traces), CHUNK):
        part = traces[off:off + CHUNK]
        attempt = 0
        while True:
            try:
                tv = tlc.validate_traces(module, cfg_name, part, extra_files={cfg_name: cfg_text}, timeout=timeout,
                                         chunk=CHUNK)
                break
            except tlc.TLCError:
                attempt += 1
                if attempt > retries:
                    raise
                out["retried"] += 1
                time.sleep(5 * attempt)
        out["accepted"] += tv["accepted"]
        for rj in tv["rejected"]:
            rj["index"] += off
            out["rejected"].append(rj)
        for d in tv["drift"]:
            d["index"] += off
            out["drift"].append(d)
        out["states"] += tv["states"]
        out["generated"] += tv["generated"]
        out["wall_s"] += tv["wall_s"]
        out["cmd"] = tv["cmd"]
    return out
