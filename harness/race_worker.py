"""Worker process for race replays: python -m harness.race_worker <cases.json> <out.ndjson>.
Runs the cases one after the other on real handler threads (harness/race.py run) and appends one JSON line per case;
a line {"start": i} precedes each case, so that the parent can tell which case a worker died on (a request that kills
the serving process - e.g. SIGBUS on a truncated file mapping - is an observation, not a machinery failure)."""
import json
import sys


def main():
    cases = json.load(open(sys.argv[1]))
    from harness import race
    with open(sys.argv[2], "a") as out:
        for i, c in cases:
            out.write(json.dumps({"start": i}) + "\n")
            out.flush()
            tr = race.run(c)
            out.write(json.dumps({"done": i, "trace": tr}) + "\n")
            out.flush()
    race.close()


if __name__ == "__main__":
    main()
