"""Entry point: python -m harness.run <ID> [--tier quick|thorough] [--replay PATH]."""
import argparse
import importlib
import os
import sys
import traceback


def main():
    ap = argparse.ArgumentParser()
    ap.add_argument("pid")
    ap.add_argument("--tier", default=os.environ.get("VERIF_TIER") or "quick", choices=["quick", "thorough"])
    ap.add_argument("--replay", default=None)
    a = ap.parse_args()
    seed = int(os.environ.get("VERIF_SEED") or 0)
    import shutil
    import tempfile
    base = "/dev/shm" if os.path.isdir("/dev/shm") and os.access("/dev/shm", os.W_OK) else None
    scratch = tempfile.mkdtemp(prefix="verif-run-%s-" % a.pid.lower(), dir=base)
    os.environ["VERIF_SCRATCH"] = scratch          # every World root / TLC scratch of this run lives below it
    import atexit
    atexit.register(lambda: shutil.rmtree(scratch, ignore_errors=True))
    from harness import core, tlc
    try:
        mod = importlib.import_module("harness.%s" % a.pid.lower())
        chk = core.Check(a.pid.upper(), a.tier, seed)
        rc = mod.main(chk, replay=a.replay)
        sys.exit(rc)
    except (core.MachineryError, tlc.TLCError) as e:
        print("MACHINERY-FAILURE %s: %s" % (a.pid, e))
        sys.exit(2)
    except SystemExit:
        raise
    except BaseException:
        traceback.print_exc()
        print("MACHINERY-FAILURE %s: unexpected exception in harness" % a.pid)
        sys.exit(2)


if __name__ == "__main__":
    main()
