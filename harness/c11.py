"""C11 - a cache file cut off at any byte is harmless.

Design model: spec/Cache.tla via MC_C11 (Cut/Zero environment actions at any point between
requests; a reader may also observe a writer between truncate and final write: 2 workers).
B2: for real cache files written by real requests, EVERY byte prefix 0..size and a zero-filled
file of full length is put in place and the directory is requested again through each protocol.
B3: each such history is validated by TLC against TraceC10 (clauses Answered, Faithful, Harmless)."""
from __future__ import annotations

import json
import os

from harness import core, envsub, tlc

MC_CFG = """SPECIFICATION MSpec11
CONSTANTS
  Names = {%(names)s}
  Workers = {%(workers)s}
  Full = 2
  Lifetimes = {4}
  MaxClock = %(maxclock)d
  MaxHist = 2
  MaxLen = 0
VIEW NoH
CONSTRAINT Bound
INVARIANT Answers
INVARIANT OnlyCompleteLoads
INVARIANT NoLeak
INVARIANT CurrentWhenDamaged
CHECK_DEADLOCK FALSE
"""
TIERS = {
    "quick": dict(names='"a"', workers="1, 2", maxclock=1, dirs=["small"], protos=["G", "H"], stride=1, crash_stride=23,
                  race_files=["cut0", "cut1", "late"], race_protos=["G"]),
    "thorough": dict(names='"a", "b"', workers="1, 2", maxclock=1, dirs=["small", "both", "filler", "filler-dir"], protos=["G", "GP", "H"], stride=1, crash_stride=1,
                     race_files=["none", "full", "late", "cut0", "cut1", "zero"], race_protos=["G", "GP"]),
}
DIR_HANDLERS = "[url.HTMLURLHandler, dir.DirHandler, file.FileHandler]"
DIRS = {
    "small": ({"a": "v1", "b": "absent"}, 0, "default"),
    "both": ({"a": "v2", "b": "v1"}, 0, "default"),
    "filler": ({"a": "v1", "b": "v1"}, 12, "default"),
    "filler-dir": ({"a": "v1", "b": "absent"}, 6, "dir"),
}
_CW = {}


def _cw(handlers):
    from harness.cachelib import CacheWorld
    if handlers not in _CW:
        _CW[handlers] = CacheWorld(handlers="default" if handlers == "default" else DIR_HANDLERS)
    return _CW[handlers]


def _job(job):
    """One damaged-cache history on the real server: request (writes cache) ; damage ; request."""
    dname, p, kind, n = job
    d, filler, handlers = DIRS[dname]
    cw = _cw(handlers)
    init = {"T": 4, "dir": d}
    cw.reset(init, filler=filler)
    ev1, ex1 = cw.request("G")
    with envsub.REAL["open"](cw.cpath, "rb") as fp:
        full = fp.read()
    if kind == "cut":
        data = full[:n]
        keep = 0 if n == 0 else 1
        dmg = {"ev": "cut", "keep": keep}
    else:
        data = b"\0" * len(full)
        dmg = {"ev": "zero"}
    with envsub.REAL["open"](cw.cpath, "wb") as fp:
        fp.write(data)
    cw.stamp()
    ev2, ex2 = cw.request(p)
    return {"id": "%s/%s/%s@%d" % (dname, p, kind, n), "init": init, "events": [ev1, dmg, ev2],
            "case": {"dir": dname, "proto": p, "kind": kind, "n": n, "size": len(full)}, "extras": [ex1, None, ex2]}


_ZW = {}


def _zipworld():
    """World with the full handler list and one archive /arch.zip whose top level is the Cache universe
    (file a with abstract v1, directory s)."""
    import zipfile
    from harness.world import World
    if "w" not in _ZW:
        w = World(handlers="full")
        zp = w.path("arch.zip")
        with zipfile.ZipFile(zp, "w") as z:
            z.writestr("a", "content a\n")
            z.writestr("a.abstract", "v1\n")
            z.writestr("s/inner.txt", "inner\n")
        os.utime(zp, (1_000_000_000, 1_000_000_000))
        _ZW["w"] = w
    return _ZW["w"]


def _zip_cachefiles(w):
    return sorted(n for n in envsub.REAL["listdir"](w.root) if n.startswith(".cache.pygopherd.zip"))


def _zip_request(w):
    from harness.cachelib import lex_listing
    r = w.request(b"/arch.zip\r\n")
    view, ok = lex_listing("G", r.out)
    if r.escaped is not None:
        ok = False
    return {"ev": "request", "p": "G", "view": view, "listed": True, "rewritten": True, "touched": False, "ok": ok}, \
           {"raw": r.out[:300].decode("latin-1"), "log": r.log[-2:], "escaped": r.escaped}


def _zip_sizes():
    w = _zipworld()
    for n in _zip_cachefiles(w):
        os.unlink(os.path.join(w.root, n))
    _zip_request(w)
    return {n: os.path.getsize(os.path.join(w.root, n)) for n in _zip_cachefiles(w)}


def _zip_job(job):
    """ZIP index cache (shelve files next to the archive): request ; damage one file ; request."""
    fname, kind, n = job
    w = _zipworld()
    for x in _zip_cachefiles(w):
        os.unlink(os.path.join(w.root, x))
    ev1, ex1 = _zip_request(w)
    p = os.path.join(w.root, fname)
    with envsub.REAL["open"](p, "rb") as fp:
        full = fp.read()
    data = full[:n] if kind == "cut" else b"\0" * len(full)
    with envsub.REAL["open"](p, "wb") as fp:
        fp.write(data)
    dmg = {"ev": "cut", "keep": 0 if n == 0 else 1} if kind == "cut" else {"ev": "zero"}
    ev2, ex2 = _zip_request(w)
    init = {"T": 4, "dir": {"a": "v1", "b": "absent"}}
    return {"id": "zipindex/%s/%s@%d" % (fname, kind, n), "init": init, "events": [ev1, dmg, ev2],
            "case": {"dir": "zipindex:" + fname, "proto": "G", "kind": kind, "n": n, "size": len(full)},
            "extras": [ex1, None, ex2]}


class _CrashingFile:
    """Stand-in for the cache file opened for writing: the writer dies (ENOSPC) after `limit` bytes."""

    def __init__(self, real, limit):
        self.real, self.limit, self.done, self.raised = real, limit, 0, False

    def write(self, data):
        room = self.limit - self.done
        if len(data) > room:
            if room > 0:
                self.real.write(data[:room])
                self.done += room
            self.real.flush()
            import errno
            self.raised = True
            raise OSError(errno.ENOSPC, "injected: No space left on device")
        self.done += len(data)
        return self.real.write(data)

    def __getattr__(self, name):            # flush, seek, tell, truncate, fileno ...
        return getattr(self.real, name)

    def __enter__(self):
        return self

    def __exit__(self, *a):
        self.real.close()
        return False


def _crash_job(job):
    """A writer that dies after n bytes while REWRITING an existing, expired cache whose content differs from the
    current directory: request ; rename a->b ; tick past the lifetime ; request with the crash ; request."""
    dname, p, n = job
    d, filler, handlers = DIRS[dname]
    cw = _cw(handlers)
    init = {"T": 4, "dir": {"a": "v1", "b": "absent"}}
    cw.reset(init, filler=filler)
    ev1, ex1 = cw.request("G")
    size = os.path.getsize(cw.cpath)
    mv = {"a": "rename", "n": "a", "m": "b"}
    cw.apply(mv)
    cw.apply({"a": "tick", "d": 5})
    cpath = os.path.abspath(cw.cpath)

    made = []

    def hook(path, mode):
        if os.path.abspath(path) == cpath and any(c in mode for c in "wa+"):
            made.append(_CrashingFile(envsub.REAL["open"](path, mode), n))
            return made[-1]
        return None

    envsub.ENV.open_hook = hook
    try:
        ev2, ex2 = cw.request(p)
    finally:
        envsub.ENV.open_hook = None
    if os.path.exists(cw.cpath):
        cw.stamp()
    ev3, ex3 = cw.request(p)
    # the writer died only if the stand-in file actually refused a write (n beyond what was written: no crash happened)
    crashed = any(cf.raised for cf in made)
    events = [ev1, {"ev": "rename", "n": "a", "m": "b"}, {"ev": "tick", "d": 5}, ev2] + \
             ([{"ev": "cut", "keep": 0 if n == 0 else 1}] if crashed else []) + [ev3]
    return {"id": "writer-crash/%s/%s@%d" % (dname, p, n), "init": init, "events": events,
            "case": {"dir": "crash:" + dname, "proto": p, "kind": "crash", "n": n, "size": size, "crashed": crashed},
            "extras": [ex1, None, None, ex2] + ([None] if crashed else []) + [ex3]}


def _any_job(job):
    if job[0] == "zip":
        return _zip_job(job[1:])
    if job[0] == "crash":
        return _crash_job(job[1:])
    return _job(job)


def _size(dname):
    d, filler, handlers = DIRS[dname]
    cw = _cw(handlers)
    cw.reset({"T": 4, "dir": d}, filler=filler)
    cw.request("G")
    return os.path.getsize(cw.cpath)


def main(chk, replay=None):
    from harness import cachelib
    t = TIERS[chk.tier]
    res = tlc.check_model("MC_C11", "MC_C11_run.cfg", extra_files={"MC_C11_run.cfg": MC_CFG % t}, timeout=3000)
    if res["inv_violations"]:
        chk.model_violation("MC_C11", res["inv_violations"], res["out"][-3000:])
    jobs = []
    races, rres = [], None
    if replay:
        with open(replay) as fp:
            c = json.load(fp)["case"]
        if c.get("kind") == "race":
            races = [c]
        elif str(c["dir"]).startswith("zipindex:"):
            jobs = [("zip", c["dir"].split(":", 1)[1], c["kind"], c["n"])]
        elif str(c["dir"]).startswith("crash:"):
            jobs = [("crash", c["dir"].split(":", 1)[1], c["proto"], c["n"])]
        else:
            jobs = [(c["dir"], c["proto"], c["kind"], c["n"])]
    else:
        for dname in t["dirs"]:
            size = _size(dname)
            for p in t["protos"]:
                for n in range(0, size, t["stride"]):
                    jobs.append((dname, p, "cut", n))
                jobs.append((dname, p, "zero", size))
            # a writer killed after n bytes while rewriting an expired cache of different content
            for p in t["protos"][:2]:
                for n in range(0, size + 1, t["crash_stride"]):
                    jobs.append(("crash", dname, p, n))
        for cw in _CW.values():
            cw.close()
        _CW.clear()
        zs = _zip_sizes()
        if not zs:
            raise core.MachineryError("C11: the ZIP index cache files were not created")
        for fname, size in sorted(zs.items()):
            for n in range(0, size):
                jobs.append(("zip", fname, "cut", n))
            jobs.append(("zip", fname, "zero", size))
        _ZW.pop("w").close()
        # "every point at which a concurrent reader can observe a writer": every complete interleaving of two
        # requests that find the remains of a crashed writer (or nothing, or a complete file), from MC_Race
        from harness import race
        rres, races = race.exhaustive(t["race_files"], t["race_protos"])
        if rres["inv_violations"]:
            chk.model_violation("MC_Race", rres["inv_violations"], rres["out"][-3000:])
    traces = cachelib.pool_map(_any_job, jobs, None) if jobs else []
    rtraces = []
    if races:
        from harness import race
        rtraces = race.run_all(races)
        rtv = tlc.validate_traces("TraceC14", "TraceC14.cfg",
                                  [{"id": tr["id"], "events": [{k: v for k, v in e.items() if k != "raw"} for e in tr["events"]]}
                                   for tr in rtraces])
        for rj in rtv["rejected"]:
            tr = rtraces[rj["index"]]
            c = tr["case"]
            key = "%s|race|start=%s|protos=%s|order=%s" % (rj["clause"], c["f"], "".join(c["ps"]), "".join(str(w) for w, _s in c["h"]))
            chk.violation(key, rj["clause"], c, {"events": tr["events"]})
        chk.note_drift(rtv["drift"])
        if not any(e.get("op") == "load" for tr in rtraces for e in tr["events"]):
            raise core.MachineryError("C11: no scheduled request ever opened the cache file: scheduler hooks not exercised")
    tv = tlc.validate_traces("TraceC10", "TraceC10.cfg",
                             [{"id": tr["id"], "init": tr["init"], "events": tr["events"]} for tr in traces]) if traces else \
        {"rejected": [], "drift": [], "accepted": 0, "cmd": "", "states": 0}
    for rj in tv["rejected"]:
        tr = traces[rj["index"]]
        c = tr["case"]
        key = "%s|dir=%s|proto=%s|%s n=%d/%d" % (rj["clause"], c["dir"], c["proto"], c["kind"], c["n"], c["size"])
        chk.violation(key, rj["clause"], c, {"events": tr["events"], "extras": tr["extras"]})
    chk.note_drift(tv["drift"])
    cov = {
        "states": res["distinct"], "transitions": res["generated"], "exhaustive": True,
        "traces_validated_against_impl": tv["accepted"] + ((len(rtraces) - len(rtv["rejected"])) if rtraces else 0),
        "traces_rejected": len(tv["rejected"]) + (len(rtv["rejected"]) if rtraces else 0),
        "evaluations": len(traces), "distinct_nontrivial": len({(tr["case"]["dir"], tr["case"]["kind"], tr["case"]["n"]) for tr in traces}),
        "rule": "for each directory in %s a real request writes the cache file; then every byte prefix 0..size-1 "
                "(stride %d) and a zero-filled file of full length replaces it and the directory is requested through "
                "each of %s; distinct = (directory, damage kind, prefix length); all are non-trivial (the damaged file "
                "is fresh, so the loader is exercised)" % (t["dirs"], t["stride"], t["protos"]),
        "samples": [{"id": tr["id"], "events": tr["events"]} for tr in traces[:1] + traces[-1:]],
        "checker_cmd": res["cmd"] + " ; " + tv["cmd"], "trace_states": tv["states"],
        "race_model_states": rres["distinct"] if rres else 0,
        "race_interleavings_replayed": len(rtraces),
        "race_interleavings_with_real_interleaving": sum(
            1 for tr in rtraces if len({e["w"] for e in tr["events"] if e["ev"] == "step"}) > 1),
        "race_traces_accepted": (len(rtraces) - len([1 for _ in rtv["rejected"]])) if rtraces else 0,
        "bindings": ["B2 every byte prefix replayed on real cache files", "B3 TraceC10 (Answered/Faithful/Harmless)",
                     "B2 every complete interleaving of MC_Race (two requests meeting a damaged / absent / complete file) "
                     "replayed on real handler threads, judged by TraceC14"],
    }
    return chk.finish(cov, [
        "abstraction: every proper byte prefix is the abstract Cut to fewer than Full chunks (0 bytes = 0 chunks)",
        "the damaged file keeps a fresh virtual mtime so that the loader, not the freshness test, decides",
    ])
