"""C03 - every request is answered with one well-formed response, whatever came before.

Design model: spec/Server.tla (connection machine, exception flow) + spec/Grammar.tla (response
grammars), bounded by spec/MC_C03.tla (request space = frame x selector shape x argument shape x
handler list, as request LINES) and spec/MC_C03_hist.tla (self-composition over histories).
B1: protocol order, handler lists and the content tree are emitted as TLA+ constants from the conf
file / the tree actually built.  B2: every closed state of MC_C03 and every final state of
MC_C03_hist is replayed on the real server (harness/c03_lib.py: gamma + alpha).  B3: every replay
is validated by TLC against spec/trace/TraceC03.tla, which re-runs the machine on the recorded
request and judges the OBSERVED view with the clause operators of Server/Grammar.
No property logic here."""
from __future__ import annotations

import json
import os
import sys

from harness import core, tlc
from harness.tlaparse import iter_dump_states

# ---- the request space (names are defined in spec/MC_C03.tla LineOf) -----------------------------
FR_QUICK = ["g", "g_lf", "g_eof", "g_tab", "g_q", "g_q_tab", "g_4f", "gp_plus", "gp_view", "gp_info", "gp_dir",
            "gp_q", "h_get", "h_head", "h_noblank", "h_09", "h_q", "w_get", "w_hdr", "gem", "gem_q",
            "gem_bad1", "gem_bad2", "gem_noauth", "gem_query", "gem_query_q", "gem_plain", "s", "s_short", "s_2sp",
            "tg", "tg_tab", "th_get",
            # non-ASCII / Unicode-digit class in the numeric positions of the frames
            "s_len_nd", "s_len_ud", "gem_port_nd", "h_ver_nd"]
FR_MORE = ["g_sp", "h_hdrs_noblank", "s_host_na", "gp_view_na", "g_q_na", "h_hdrs", "h_11", "h_post", "w_head", "gem_ip6", "gem_bad3", "s_body", "s_tls", "tgp_plus"]
SELS = ["", "/", "/d", "/d/", "/gm", "/umn", "/about.txt", "/big.txt", "/page.html", "/t.txt.gz", "/run.sh", "/p.pyg",
        "/m.mbox", "/md", "/z.zip", "/z.zip/sub", "/z.zip/sub/inner.txt", "/z.zip/nope", "/nofile", "/a~b", "/a%00b",
        "/%zz", "/%2", "/x%0d%0ay", "/x\ry", "/../about.txt", "/d//a.txt", "/URL:http://x.org/", "/1/about.txt",
        "/about.txt/x", "/d/.cache.pygopherd.dir",
        # URL-syntax metacharacters in the request target (authority marker, scheme, unbalanced bracket)
        "//[", "http://[::1/x",
        # a long name of two-byte characters: the error text that echoes it exceeds every status-line limit counted in
        # characters before it does counted in bytes (Gemini <META>: 1024 bytes)
        "/" + "*" * 530]
SELS_MORE = ["/caf*.txt", "/about.txt~", "/x%0Ay", "/x%0dy", "/a%7Cb", "/d%2fa.txt", "/d/%2e%2e/about.txt", "/umn/f.txt", "/gm/x.txt",
             "/md/new", "/z.zip/top.txt", "/__pycache__", "/wapx",
             # ... the rest of the URL-syntax class: userinfo, fragment, parameters, port-like suffixes, brackets
             "/x@y", "//user@host/x", "/x#frag", "/x;p=1", "/x:80", "//host:80/x", "/]", "/[::1]/x", "[::1/x",
             "http://h/x"]
ARG_FRAMES = ["g", "gp_plus", "h_get", "gem", "s"]
ARG_FRAMES_MORE = ["gp_info", "h_head", "w_get", "tg"]
ARG_SELS = ["/m.mbox", "/md", "/nofile", "/about.txt", "/d"]
ARGS = ["|/MBOX-MESSAGE/0", "|/MBOX-MESSAGE/1", "|/MBOX-MESSAGE/2", "|/MBOX-MESSAGE/3", "|/MBOX-MESSAGE/1000000000",
        "|/MBOX-MESSAGE/-1", "|/MBOX-MESSAGE/x", "|/MAILDIR-MESSAGE/0", "|/MAILDIR-MESSAGE/1", "|/MAILDIR-MESSAGE/2",
        "|/MAILDIR-MESSAGE/3", "?/MBOX-MESSAGE/1", "|", "|/MBOX-MESSAGE/",
        # digit strings beyond the machine word (2^63 + 1) and with very many digits: never integers in the model
        "|/MBOX-MESSAGE/9223372036854775809", "|/MAILDIR-MESSAGE/1000000000000000000000000000000",
        # Unicode digits in the number: '^' = U+00B2 (isdigit, not decimal), '`' = U+0663 (decimal digit 3)
        "|/MBOX-MESSAGE/^", "|/MBOX-MESSAGE/`", "|/MAILDIR-MESSAGE/1^"]
ARGS_MORE = ["|/MBOX-MESSAGE/01", "|/MBOX-MESSAGE/99999999999999999999", "|/MAILDIR-MESSAGE/1000000000", "?", "|x",
             "|/MBOX-MESSAGE/18446744073709551616", "|/MAILDIR-MESSAGE/9223372036854775808"]
# about ten representative read-only requests for histories (frame, selector, argument)
REPS = [("g", "/", ""), ("gp_dir", "/", ""), ("h_get", "/", ""), ("g", "/d", ""), ("gp_dir", "/d", ""),
        ("g", "/d/.cache.pygopherd.dir", ""), ("g", "/p.pyg", ""), ("g", "/d//", ""), ("g", "/d/.", ""), ("g", "/z.zip", ""),
        # the script gateway with and without a search string (what one request hands a script must not reach the next one)
        ("g_q", "/run.sh", ""), ("g", "/run.sh", ""),
        # (quick = the first 12; trailing-slash spellings of directory selectors are both earlier and later requests)
        # and so are "/d/." and "/." (refused like "./" since fix 860656c; they used to poison the cache like "/d//")
        ("g", "/d/", ""), ("g", "/d///", ""), ("g", "//", ""), ("g", "/.", ""), ("gem", "/", ""),
        ("g", "/about.txt", ""), ("h_get", "/d", ""), ("gp_info", "/d/empty.txt", ""), ("g", "/nofile", "")]
# history runs: exhaustive up to maxhist over the first nreps representatives, or (sim) random longer ones

TIERS = {
    "quick": dict(frames=FR_QUICK, sels=SELS, arg_frames=ARG_FRAMES, arg_sels=ARG_SELS, args=ARGS,
                  hls=["default", "full"], hist=[dict(hl="full", nreps=12, maxhist=2)]),
    "thorough": dict(frames=FR_QUICK + FR_MORE, sels=SELS + SELS_MORE, arg_frames=ARG_FRAMES + ARG_FRAMES_MORE,
                     arg_sels=ARG_SELS, args=ARGS + ARGS_MORE, hls=["default", "full"],
                     hist=[dict(hl="full", nreps=21, maxhist=2), dict(hl="default", nreps=17, maxhist=2),
                           dict(hl="full", nreps=8, maxhist=3),
                           dict(hl="full", nreps=19, maxhist=8, sim=400, depth=150)]),
}
OPS_A, OPS_B = 60, 25            # Bounded: environment operations <= OPS_A + OPS_B * (nodes of the tree)

CFG = """SPECIFICATION %(spec)s
CONSTANTS
  ProtoOrder <- C_ProtoOrder
  HandlerLists <- C_HandlerLists
  Tree0 <- C_Tree
  MailCount <- C_MailCount
  Defects <- C_Defects
  Bytecode <- C_Bytecode
  Buffered <- C_Buffered
  OpsBound <- C_OpsBound
  Frames <- C_Frames
  Sels <- C_Sels
  ArgFrames <- C_ArgFrames
  ArgSels <- C_ArgSels
  Args <- C_Args
  HLs <- C_HLs
  Reps <- C_Reps
  MaxHist <- C_MaxHist
%(props)s
CHECK_DEADLOCK FALSE
"""
TRACE_CFG = """SPECIFICATION TSpec
CONSTANTS
  ProtoOrder <- C_ProtoOrder
  HandlerLists <- C_HandlerLists
  Tree0 <- C_Tree
  MailCount <- C_MailCount
  Defects <- C_Defects
  Bytecode <- C_Bytecode
  Buffered <- C_Buffered
  OpsBound <- C_OpsBound
CONSTRAINT Record
POSTCONDITION Post
CHECK_DEADLOCK FALSE
"""
REQ_PROPS = "INVARIANT OneResponse\nINVARIANT NoUnhandled\nINVARIANT Bounded\nINVARIANT Terminates\nINVARIANT DefectsBite"


def consts_module(L, lists, tier_cfg, defects, bytecode, hls, maxhist, reps=REPS, c20cases=()):
    """spec/MC_C03_consts.tla for this run (B1)."""
    v = L.tla_value
    trees = {hl: L.tree_kinds(hl) for hl in ("default", "full")}
    size = max(len(t) for t in trees.values())
    t = tier_cfg
    lines = [
        "---------------------------- MODULE MC_C03_consts ----------------------------",
        "EXTENDS TLC",
        "C_ProtoOrder == " + v(lists["protocols"]),
        "C_HandlerLists == " + v({hl: lists[hl] for hl in ("default", "full")}),
        "C_Tree == " + v(trees),
        "C_MailCount == " + v(L.MAILCOUNT),
        "C_Defects == " + v(set(defects)),
        "C_Bytecode == " + v(bool(bytecode)),
        "C_Buffered == " + v(bool(lists.get("wbufsize", 0))),
        "C_OpsBound == %d" % (OPS_A + OPS_B * size),
        "C_Frames == " + v(set(t["frames"])),
        "C_Sels == " + v(set(t["sels"])),
        "C_ArgFrames == " + v(set(t["arg_frames"])),
        "C_ArgSels == " + v(set(t["arg_sels"])),
        "C_Args == " + v(set(t["args"])),
        "C_HLs == " + v(set(hls)),
        "C_Reps == <<" + ", ".join("[f |-> %s, s |-> %s, a |-> %s]" % (v(f), v(s), v(a)) for f, s, a in reps) + ">>",
        "C_MaxHist == %d" % maxhist,
        "C_C20Cases == <<" + ", ".join(
            "[" + ", ".join("%s |-> %s" % (k, v(c[k])) for k in ("line", "tls", "wap", "hl", "tail", "fk", "fcls", "nw", "id")) + "]"
            for c in c20cases) + ">>",
        "=============================================================================", ""]
    return "\n".join(lines)


def read_conf_lists():
    """Protocol order and both handler lists, read from the configuration of the tree under test."""
    from harness import c03_lib as L
    from harness.world import World
    out = {}
    for hl in ("default", "full"):
        w = World(handlers=hl)
        protos, handlers = L.conf_lists(w)
        out["protocols"] = [p.split(".")[-1] for p in protos]
        import pygopherd.server
        out["wbufsize"] = int(pygopherd.server.GopherRequestHandler.wbufsize or 0)      # B1: buffering of the real class
        out[hl] = [h.split(".")[-1] for h in handlers]
        w.close()
    return out


# ---- workers: one real server per process ----------------------------------------------------------
_W = None
_KEEP = None
_HL = "default"
_BYTECODE = False


def _init_worker():
    global _W, _KEEP
    from harness import c03_lib as L
    from harness.world import World
    _W = World(handlers=_HL)
    L.build_tree(_W)
    _KEEP = L.manifest(_W.root)
    # warm-up: every lazy import of the code under test happens before bytecode writing may be enabled
    for f, s, a in REPS:
        rq = _req_record(f, s, a, _HL)
        try:
            # (a search string of its own: whatever the warm-up leaves behind in the process differs from what a history leaves)
            L.serve(_W, L.concretise(rq["line"].replace("\tquery", "\twarmup"), rq["tail"]), tls=rq["tls"])
        except Exception:      # noqa
            pass
    L.remove_artefacts(_W.root, _KEEP)


def _arts(L):
    """Artefacts now in the tree, as selectors (files inside __pycache__ and the suffixes of dbm
    files are folded away: only the fact that the artefact exists is observed)."""
    out = set()
    for rel in L.manifest(_W.root) - _KEEP:
        parts = rel.split("/")
        if "__pycache__" in parts:
            rel = "/".join(parts[:parts.index("__pycache__") + 1])
        elif ".cache.pygopherd.zip" in parts[-1]:
            rel = rel.rsplit(".", 1)[0] if rel.rsplit(".", 1)[-1] in ("bak", "dat", "dir", "db", "pag") else rel
        out.add("/" + rel)
    return sorted(out)


def observe(rq, role, count_fds=False, fail_exc=None):
    """gamma: rq -> bytes; the REAL connection handler; alpha: observation -> one conn event."""
    from harness import c03_lib as L
    data = L.concretise(rq["line"], rq["tail"])
    proto, raised = L.detect(_W, data, rq["tls"])
    kw = {}
    if rq["fk"]:
        kw = dict(fail_at=rq["fk"], fail_exc=fail_exc)
    if _BYTECODE:
        sys.dont_write_bytecode = False
    try:
        o = L.serve(_W, data, tls=rq["tls"], count_fds=count_fds, **kw)
    finally:
        sys.dont_write_bytecode = True
    recs = L.log_records(o.log)
    nlog_before = 0
    if o.fail_marks:                       # number of EXCEPTION records already logged when the failure was raised
        nlog_before = sum(1 for r in recs[:o.fail_marks[0][1]] if r["ev"] == "log")
    ev = {"ev": "conn", "role": role, "rq": rq, "proto": proto, "frames": L.lex(proto, o.out),
          "log": [{"addr": r["addr"], "proto": r["proto"], "cls": r["cls"], "fam": r["fam"]} for r in recs if r["ev"] == "log"],
          "esc": o.escaped or "none", "ops": o.ops, "mark": nlog_before if o.fail_marks else -1,
          "nfds": len(o.fds_leaked), "nproc": len(o.children_left), "digest": L.digest(o.out), "arts": _arts(L) if role != "single" else []}
    extra = {"bytes": data.decode("latin-1"), "out": o.out[:400].decode("latin-1"), "outlen": len(o.out), "log": o.log[:8],
             "handlers": [r["handler"] for r in recs if r["ev"] == "served"], "detect_raised": raised,
             "writes": o.writes, "leaked": o.fds_leaked, "children_left": o.children_left, "unread": o.reads_left}
    return ev, extra


def _run_req(rq):
    from harness import c03_lib as L
    ev, extra = observe(rq, "single")
    L.remove_artefacts(_W.root, _KEEP)
    return [ev], [extra]


def _run_hist(job):
    """One history in a process of its own (forked from this worker, which has served nothing but the warm-up): what a
    history leaves behind IN THE PROCESS never reaches the next history's `alone` answer."""
    import pickle
    rfd, wfd = os.pipe()
    pid = os.fork()
    if pid == 0:
        rc = 1
        try:
            os.close(rfd)
            data = pickle.dumps(_run_hist_here(job))
            with os.fdopen(wfd, "wb") as fp:
                fp.write(data)
            rc = 0
        finally:
            os._exit(rc)
    os.close(wfd)
    with os.fdopen(rfd, "rb") as fp:
        data = fp.read()
    os.waitpid(pid, 0)
    if not data:
        raise core.MachineryError("C03: the process serving history %r died" % (job,))
    return pickle.loads(data)


def _run_hist_here(job):
    from harness import c03_lib as L
    r0, hist = job
    evs, extras = [], []
    L.remove_artefacts(_W.root, _KEEP)
    seq = [("conn", r0, "alone"), ("reset", None, None)] + [("conn", h, "hist") for h in hist] + [("conn", r0, "final")]
    for kind, rq, role in seq:
        if kind == "reset":
            L.remove_artefacts(_W.root, _KEEP)
            evs.append({"ev": "reset"})
            extras.append(None)
        else:
            ev, extra = observe(rq, role)
            evs.append(ev)
            extras.append(extra)
    L.remove_artefacts(_W.root, _KEEP)
    return evs, extras


def _pool(fn, jobs, hl, bytecode=False):
    global _HL, _BYTECODE
    from harness import c03_lib as L
    _HL, _BYTECODE = hl, bytecode
    return L.pool_map(fn, jobs, _init_worker)


# ---- cases from TLC --------------------------------------------------------------------------------
def _rq(st_rq):
    return {k: st_rq[k] for k in ("line", "tls", "wap", "hl", "tail", "fk", "fcls", "nw", "id")}


def split_id(rid):
    f, s, hl = rid.split(" :: ")
    return f, s, hl


def main(chk, replay=None):
    import time
    from harness import c03_lib as L
    tm = {}
    t_0 = time.time()

    def lap(name):
        nonlocal t_0
        tm[name] = round(tm.get(name, 0) + time.time() - t_0, 1)
        t_0 = time.time()
    t = TIERS[chk.tier]
    defects = L.known_defects(chk)
    lists = read_conf_lists()
    extra = lambda hls, maxhist, bytecode: {                                   # noqa: E731
        "MC_C03_consts.tla": consts_module(L, lists, t, defects, bytecode, hls, maxhist)}
    evidence = {}
    traces = []          # {id, init, events, case, extras, key}

    if replay:
        with open(replay) as fp:
            rp = json.load(fp)
        c = rp["case"]
        if c.get("mode") == "hist":
            evs, extras = _pool(_run_hist, [(c["r0"], c["history"])], c["hl"], bytecode=(c["hl"] == "full"))[0]
            traces.append({"id": c.get("trace_id", rp["key"]), "init": {"prop": "C03", "hl": c["hl"]}, "events": evs,
                           "case": c, "extras": extras})
        else:
            evs, extras = _pool(_run_req, [c["rq"]], c["hl"])[0]
            traces.append({"id": c.get("trace_id", rp["key"]), "init": {"prop": "C03", "hl": c["hl"]}, "events": evs,
                           "case": c, "extras": extras})
        res = resh = {"distinct": 0, "generated": 0, "cmd": "(replay)", "coverage": {}}
        n_req = n_hist = 0
    else:
        # 1. design model, request space: exhaustive
        cfg = CFG % dict(spec="ReqSpec", props=REQ_PROPS)
        # (no -coverage: TLC's coverage instrumentation of the recursive string operators exhausts the heap;
        #  action coverage is measured from the dump instead: states per control location / per site)
        res = tlc.check_model("MC_C03", "MC_C03_run.cfg", dump=True, timeout=1500, continue_=True,
                              extra_files=dict(extra(t["hls"], 0, False), **{"MC_C03_run.cfg": cfg}))
        try:
            if res["inv_violations"]:
                chk.model_violation("MC_C03", sorted(set(res["inv_violations"])), res["out"][-3000:])
            cases = {}
            pcs, sites = {}, {}
            for st in iter_dump_states(res["dump"], wanted={"pc", "rq", "site", "proto", "kind"}):
                pcs[st["pc"]] = pcs.get(st["pc"], 0) + 1
                if st["pc"] == "closed":
                    sites[st["site"]] = sites.get(st["site"], 0) + 1
                if st["pc"] == "closed":
                    cases[st["rq"]["id"]] = (_rq(st["rq"]), st["site"], st["proto"], st["kind"])
        finally:
            tlc.cleanup(res)
        n_req = len(cases)
        lap("mc_req")
        evidence["model_states_per_pc"] = pcs
        evidence["model_closed_states_per_site"] = sites
        # (catchS / escape are reachable only through recorded defects: not required)
        missing = [x for x in ("select", "parse", "lookup", "entry", "write", "catchP", "finish", "closed") if not pcs.get(x)]
        if missing:
            raise core.MachineryError("C03: control locations never reached in MC_C03: %s" % missing)
        by_hl = {}
        for rid in sorted(cases):
            by_hl.setdefault(cases[rid][0]["hl"], []).append(rid)
        for hl in sorted(by_hl):
            results = _pool(_run_req, [cases[rid][0] for rid in by_hl[hl]], hl)
            for rid, (evs, extras) in zip(by_hl[hl], results):
                rq, site, mproto, mkind = cases[rid]
                f, s, _hl = split_id(rid)
                traces.append({"id": "req:" + rid, "init": {"prop": "C03", "hl": hl}, "events": evs, "extras": extras,
                               "case": {"trace_id": "req:" + rid, "mode": "req", "frame": f, "selarg": s, "hl": hl, "site": site, "rq": rq,
                                        "model_proto": mproto, "model_kind": mkind}})
        lap("replay_req")
        # 2. design model, histories: self-composition, exhaustive up to MaxHist
        n_hist = 0
        hist_stats = []
        seen_hist = set()
        for run in t["hist"]:
            hl = run["hl"]
            bytecode = hl == "full"
            xf = {"MC_C03_consts.tla": consts_module(L, lists, t, defects, bytecode, [hl], run["maxhist"], REPS[:run["nreps"]])}
            hcases = {}
            if not run.get("sim"):
                xf["MC_C03_hist_run.cfg"] = CFG % dict(spec="HistSpec", props="INVARIANT HistoryFree")
                resh = tlc.check_model("MC_C03_hist", "MC_C03_hist_run.cfg", dump=True, timeout=2400, continue_=True,
                                       extra_files=xf)
                try:
                    if resh["inv_violations"]:
                        chk.model_violation("MC_C03_hist", sorted(set(resh["inv_violations"])), resh["out"][-3000:])
                    for st in iter_dump_states(resh["dump"], wanted={"pc", "phase", "r0", "hdone", "site"}):
                        if st["pc"] == "closed" and st["phase"] == "final":
                            hcases[(st["r0"], tuple(st["hdone"]))] = st["site"]
                finally:
                    tlc.cleanup(resh)
            else:                                  # longer histories: random behaviours of the same model
                import glob
                import shutil
                from harness.tlaparse import last_sim_state
                xf["MC_C03_hist_run.cfg"] = CFG % dict(spec="HistSpec", props="")
                simdir = tlc.new_scratch("c03sim")
                try:
                    resh = tlc.run_tlc("MC_C03_hist", "MC_C03_hist_run.cfg", extra_files=xf, workers=4, seed=chk.seed + 3,
                                       simulate="file=%s/tr,num=%d" % (simdir, run["sim"] // 4), depth=run["depth"], timeout=1500)
                    if resh["tlc_error"]:
                        raise tlc.TLCError("history simulation failed:\n" + resh["out"][-2000:])
                    for fn in sorted(glob.glob(simdir + "/tr_*")):
                        st = last_sim_state(fn, wanted={"r0", "hdone", "site"})
                        if st and len(st.get("hdone", [])) > 2:
                            hcases[(st["r0"], tuple(st["hdone"]))] = "unknown"
                finally:
                    shutil.rmtree(simdir, ignore_errors=True)
            hcases = {k: v for k, v in hcases.items() if (hl, k) not in seen_hist}
            seen_hist.update((hl, k) for k in hcases)
            lap("mc_hist")
            hist_stats.append({"hl": hl, "mode": "simulate" if run.get("sim") else "exhaustive", "reps": run["nreps"],
                               "maxhist": run["maxhist"], "states": resh.get("distinct", 0),
                               "generated": resh.get("generated", 0), "histories": len(hcases)})
            reqs = [_rep_rq(L, i, hl) for i in range(1, len(REPS) + 1)]
            keys = sorted(hcases)
            results = _pool(_run_hist, [(reqs[r0 - 1], [reqs[h - 1] for h in hd]) for r0, hd in keys], hl, bytecode=bytecode)
            for (r0, hd), (evs, extras) in zip(keys, results):
                n_hist += 1
                hid = "%s <= [%s] @%s" % (reqs[r0 - 1]["id"], " ; ".join(reqs[h - 1]["id"] for h in hd), hl)
                traces.append({"id": "hist:" + hid, "init": {"prop": "C03", "hl": hl}, "events": evs, "extras": extras,
                               "case": {"trace_id": "hist:" + hid, "mode": "hist", "hl": hl, "site": hcases[(r0, hd)], "r0": reqs[r0 - 1],
                                        "r0_id": reqs[r0 - 1]["id"], "history": [reqs[h - 1] for h in hd],
                                        "history_ids": [reqs[h - 1]["id"] for h in hd], "bytecode": bytecode}})
            lap("replay_hist")
        evidence["history_models"] = hist_stats

    # 3. code -> spec: TLC judges every recorded connection
    by_cfg = {}
    for i, tr in enumerate(traces):
        by_cfg.setdefault(bool(tr["case"].get("bytecode")), []).append(i)
    accepted = rejected = tstates = 0
    tcmd = ""
    for bytecode, idxs in sorted(by_cfg.items()):
        tv = L.validate_parallel("TraceC03", "TraceC03_run.cfg",
                                 [{"id": traces[i]["id"], "init": traces[i]["init"], "events": traces[i]["events"]} for i in idxs],
                                 extra_files=dict(extra(["default"], 0, bytecode), **{"TraceC03_run.cfg": TRACE_CFG}))
        accepted += tv["accepted"]
        tstates += tv["states"]
        tcmd = tv["cmd"]
        for rj in tv["rejected"]:
            rejected += 1
            tr = traces[idxs[rj["index"]]]
            at = min(max(rj["at"] - 1, 0), len(tr["events"]) - 1)
            clause, _, site = rj["clause"].partition("@")
            key = "%s:%s" % (tr["id"], clause)
            tr["case"]["site"] = site or tr["case"].get("site", "none")     # the site the trace spec's machine reached
            chk.violation(key, clause, tr["case"],
                          {"rejected_at_event": rj["at"], "event": tr["events"][at], "extra": tr["extras"][at],
                           "events": tr["events"] if tr["case"]["mode"] == "hist" else None})
        dr = [dict(d, id=traces[idxs[d["index"]]]["id"]) for d in tv["drift"]]
        chk.note_drift(dr)
        for d in dr:
            k = "%s @ %s" % (d["what"], d["id"].split(" :: ")[0] if d["id"].startswith("req:") else "hist")
            evidence.setdefault("drift_summary", {}).setdefault(k, []).append(d["id"])

    lap("trace_validation")
    # 4. vacuity guards and measured coverage
    conns = [(tr, e, x) for tr in traces for e, x in zip(tr["events"], tr["extras"]) if e["ev"] == "conn"]
    if not replay and not chk.violations:       # (an observed violation is a verdict; vacuity guards only gate a PASS)
        if not any(e["log"] for _t, e, _x in conns) or not any(len(e["frames"]) > 1 for _t, e, _x in conns):
            raise core.MachineryError("C03: no error path / no structured reply was observed: harness not effective")
        if max(e["ops"] - x["writes"] for _t, e, x in conns) <= 1:
            raise core.MachineryError("C03: environment-operation counters never moved: envsub not effective")
        if n_hist and not any(e["arts"] for _t, e, _x in conns):
            raise core.MachineryError("C03: no artefact was ever observed in a history: snapshot diff not effective")
    nontrivial = len({(tr["case"].get("frame"), tr["case"].get("selarg"), tr["case"]["hl"]) for tr in traces
                      if tr["case"]["mode"] == "req" and (tr["events"][0]["log"] or tr["events"][0]["esc"] != "none"
                                                          or tr["case"]["site"] != "none")})
    nontrivial_h = len({tr["id"] for tr in traces if tr["case"]["mode"] == "hist" and
                        any(e.get("arts") for e in tr["events"] if e["ev"] == "conn")})
    protos = sorted({e["proto"] for _t, e, _x in conns})
    sample = [{"id": tr["id"], "bytes": tr["extras"][0]["bytes"], "proto": tr["events"][0]["proto"],
               "frames": tr["events"][0]["frames"][:3], "log": tr["events"][0]["log"]} for tr in traces[:400:97]]
    cov = {
        "states": res.get("distinct", 0) + sum(h["states"] for h in evidence.get("history_models", [])),
        "transitions": res.get("generated", 0) + sum(h["generated"] for h in evidence.get("history_models", [])),
        "exhaustive": True,
        "traces_validated_against_impl": accepted, "traces_rejected": rejected,
        "evaluations": len(conns), "distinct_nontrivial": nontrivial + nontrivial_h,
        "rule": "cases = every closed state of MC_C03 (frame x selector x argument x handler list: %d request lines) + "
                "every final state of MC_C03_hist (target request x history of length <= %d over %d representative "
                "requests: %d histories); non-trivial = distinct request whose connection reached a hazard site of the "
                "model, logged an EXCEPTION record or lost an exception (%d), plus distinct histories that left at least "
                "one artefact in the tree before the target request (%d)"
                % (n_req, max(r["maxhist"] for r in t["hist"]), max(r["nreps"] for r in t["hist"]), n_hist, nontrivial, nontrivial_h),
        "samples": sample, "checker_cmd": res.get("cmd", "") + " ; " + tcmd,
        "trace_states": tstates, "phase_seconds": tm,
        "max_environment_operations_observed": max([e["ops"] for _t, e, _x in conns] or [0]),
        "operations_bound": OPS_A + OPS_B * max(len(L.tree_kinds(h)) for h in ("default", "full")), "protocol_classes_observed": protos, "defects_in_model": sorted(defects),
        "history_models": evidence.get("history_models", []),
        "drift_summary": {k: {"n": len(v), "e.g.": v[:3]} for k, v in sorted(evidence.get("drift_summary", {}).items())},
        "model_states_per_pc": evidence.get("model_states_per_pc"),
        "model_closed_states_per_site": evidence.get("model_closed_states_per_site"),
        "bindings": ["B1 protocol order / handler lists / tree as TLC constants", "B2 TLC closed states replayed",
                     "B3 TraceC03"],
    }
    return chk.finish(cov, [
        "in-memory client connection whose write side is a memfd (real fileno for subprocess handlers); TLS is the "
        "mock SSL socket class of the harness (no handshake)",
        "content tree: harness/c03_lib.py tree_spec; an empty byte stream counts as no response, so the 0-byte file of the "
        "tree is only listed / asked for its Gopher+ info, never fetched as a document",
        "alpha = cutting lexers of harness/c03_lib.py; NUL is written '~' in the models; bytes outside printable ASCII "
        "in head lines are abstracted to '?'",
        "Bounded counts os.stat/lstat/listdir/open calls + write() calls + 1 (never wall-clock); bound = %d + %d * nodes"
        % (OPS_A, OPS_B),
        "histories are replayed with artefacts removed between the 'alone' run and the history (same process: module-"
        "level state of the server persists, as in a threading server); __pycache__ writing is enabled only while the "
        "full handler list serves a history",
        "percent escapes limited to the table HexVal of spec/Server.tla; message numbers beyond 9 digits count as 10^9",
    ])


def _rep_rq(L, i, hl):
    f, s, a = REPS[i - 1]
    return _req_record(f, s, a, hl)


# gamma, first half, mirrored from spec/MC_C03.tla LineOf for the representative requests only (the
# lines of the request-space cases come from the TLC dump itself)
_REP_LINES = {"g": "%s\r\n", "g_q": "%s\tquery\r\n", "gp_dir": "%s\t$\r\n", "gp_plus": "%s\t+\r\n", "gp_info": "%s\t!\r\n", "h_get": "GET %s HTTP/1.0\r\n",
              "gem": "gemini://localhost%s\r\n"}
_REP_TLS = {"gem"}
_REP_TAIL = {"h_get": "blank"}


def _req_record(f, s, a, hl):
    return {"line": _REP_LINES[f] % (s + a), "tls": f in _REP_TLS, "wap": False, "hl": hl, "tail": _REP_TAIL.get(f, "none"),
            "fk": 0, "fcls": "none", "nw": 0, "id": "%s :: %s%s :: %s" % (f, s, a, hl)}


def selftest():
    """Binding demonstration: a recorded trace is accepted; the same trace with one field corrupted /
    one event dropped is rejected, and the rejection names the clause."""
    global _HL
    from harness import c03_lib as L

    class _Chk:
        known = []
    lists = read_conf_lists()
    t = TIERS["quick"]
    ex = {"MC_C03_consts.tla": consts_module(L, lists, t, set(), False, ["default"], 0), "TraceC03_run.cfg": TRACE_CFG}
    rq = _req_record("h_get", "/about.txt", "", "default")
    r0 = _req_record("g", "/d", "", "default")
    (evs, _x), = _pool(_run_req, [rq], "default")
    (hevs, _hx), = _pool(_run_hist, [(r0, [rq])], "default")
    good = {"id": "good", "init": {"prop": "C03", "hl": "default"}, "events": evs}
    bad1 = json.loads(json.dumps(good)); bad1["id"] = "status-line-corrupted"
    bad1["events"][0]["frames"][0]["s"] = "HTTP/1.0 20 OK"
    bad2 = json.loads(json.dumps(good)); bad2["id"] = "unhandled-record-added"
    bad2["events"][0]["log"].append({"addr": "client", "proto": "HTTPProtocol", "cls": "KeyError", "fam": "other"})
    hgood = {"id": "hist-good", "init": {"prop": "C03", "hl": "default"}, "events": hevs}
    bad3 = json.loads(json.dumps(hgood)); bad3["id"] = "alone-event-dropped"
    bad3["events"] = bad3["events"][1:]
    bad4 = json.loads(json.dumps(hgood)); bad4["id"] = "final-digest-corrupted"
    bad4["events"][-1]["digest"] = "0" * 16
    tv = tlc.validate_traces("TraceC03", "TraceC03_run.cfg", [good, bad1, bad2, hgood, bad3, bad4], extra_files=ex)
    got = {r["trace"]["id"]: r["clause"].partition("@")[0] for r in tv["rejected"]}
    print("accepted:", tv["accepted"], "rejected:", got)
    return tv["accepted"] == 2 and set(got) == {"status-line-corrupted", "unhandled-record-added", "alone-event-dropped",
                                                "final-digest-corrupted"}


if __name__ == "__main__":
    sys.exit(0 if selftest() else 1)
