"""Shared gamma/alpha for C05 (link closure) and C06 (same site through every protocol).

gamma: abstract content trees / entries / search strings enumerated by TLC  ->  real files under a
       World root; abstract requests -> bytes pushed through the real server.
alpha: response bytes -> response class, object kind, MIME type; listings lexed with each protocol's
       own link syntax into abstract entries (type, name, target).
The per-protocol CLIENT (how a link is followed) lives here too; the trace specifications re-derive every
request from spec/Links.tla (Follow) and reject a trace whose client deviates (clause ClientMismatch), so
the client below is checked against the model rather than trusted.  No property logic in this file.

Abstract text: one character per byte class.  "^" = a byte >= 0x80 that is not valid UTF-8 (gamma picks
the representative, default 0xFF), "`" = U+FFFD.  Everything else is ASCII and stands for itself."""
from __future__ import annotations

import configparser
import html
import io
import json
import os
import re
import zipfile

from harness import core

HI, REPL = "^", "`"
BLK, ABLK = "{", "}"                      # length classes (Links!BLK, Links!ABLK): one character = one block of bytes
BLOCK_BYTES = 120
BLOCK = ("\u0416" * (BLOCK_BYTES // 2)).encode("utf-8")          # non-ASCII, valid UTF-8: percent-coded 3:1 in URLs
ABLOCK = b"q" * BLOCK_BYTES                                       # ASCII letters
_BLOCK_S, _ABLOCK_S = BLOCK.decode("utf-8"), ABLOCK.decode("ascii")
_QBLOCK_S = "%D0%96" * (BLOCK_BYTES // 2)
GOPHER_VIEWS = ("G", "GP", "GD", "SG", "SGP", "SGD")
URL_VIEWS = ("H", "HS", "W", "M", "S")
ALL_VIEWS = GOPHER_VIEWS + URL_VIEWS
TLS_VIEWS = ("SG", "SGP", "SGD", "HS", "M")
PLUS = {"GP": "+", "SGP": "+", "GD": "$", "SGD": "$"}
OWN_CLASS = {"G": "GopherProtocol", "GP": "GopherPlusProtocol", "GD": "GopherPlusProtocol",
             "SG": "SecureGopherProtocol", "SGP": "SecureGopherPlusProtocol", "SGD": "SecureGopherPlusProtocol",
             "H": "HTTPProtocol", "HS": "HTTPSProtocol", "W": "WAPProtocol", "M": "GeminiProtocol",
             "S": "SpartanProtocol"}


# ---------------------------------------------------------------------------------------------------
# B1: constants read from the working tree
class Consts:
    def __init__(self, hi_byte=0xFF, server_port=70):
        self.block_bytes = BLOCK_BYTES          # Links!BlockBytes
        self.deep_depth = 16                    # Links!DeepDepth: 16 x ~241 bytes stays below PATH_MAX with the root
        cp = configparser.ConfigParser()
        cp.read(os.path.join(core.REPO, "conf", "pygopherd.conf"))
        self.bound = True
        try:
            raw = cp.get("protocols.ProtocolMultiplexer", "protocols")
            self.proto_order = [x.strip().split(".")[-1] for x in raw.strip().strip("[]").split(",") if x.strip()]
            self.waptop = cp.get("protocols.wap.WAPProtocol", "waptop")
            from pygopherd.protocols import gemini
            self.query_prefix = gemini.GeminiProtocol.query_prefix
        except Exception:                      # refactored away: fall back to the shipped values, say so
            self.bound = False
            self.proto_order = ["WAPProtocol", "GeminiProtocol", "HTTPProtocol", "HTTPSProtocol", "SpartanProtocol",
                                "GopherPlusProtocol", "SecureGopherPlusProtocol", "GopherProtocol",
                                "SecureGopherProtocol"]
            self.waptop, self.query_prefix = "/wap", "/GEMINI-QUERY"
        self.footers = []
        for sec in ("protocols.gemini.GeminiProtocol", "protocols.gemini.SpartanProtocol"):
            if cp.has_option(sec, "footer"):
                self.footers.append(cp.get(sec, "footer"))
        self.server_name = "localhost"
        self.server_port = server_port
        self.hi_byte = hi_byte
        # which of the repairs proposed in findings/C05.proposed.json the tree under test carries (the model
        # follows repaired code): subset of {"wap", "gemini", "spartan"}; set when a fix: commit lands
        self.fixes = ["wap", "gemini", "mapfile", "spartan"]
        if os.environ.get("VERIF_C05_FIXES") is not None:        # development: try a proposed repair in a scratch copy
            self.fixes = [x for x in os.environ["VERIF_C05_FIXES"].split(",") if x]

    def tla_files(self, sets=None):
        """Generated constants module.  Sets of strings go here too: a TLC configuration file does not process
        string escapes (a cfg literal "\\"" is backslash + quote), a module does."""
        body = "K_ProtoOrder == <<%s>>\n" % ", ".join(json.dumps(x) for x in self.proto_order)
        for name, items in (sets or {}).items():
            body += "K_%s == {%s}\n" % (name, ", ".join(json.dumps(x) for x in items))
        return {"LinksConst.tla": "---- MODULE LinksConst ----\n\\* generated from %s (binding B1)\n%s====\n"
                                  % (core.REPO, body)}

    def cfg_block(self):
        return ("  ProtoOrder <- K_ProtoOrder\n  WapTop = %s\n  QueryPrefix = %s\n  ServerName = %s\n  ServerPort = %d\n"
                "  HiCode = \"%02X\"\n  BlockBytes = %d\n  DeepDepth = %d\n  Fixes = {%s}\n"
                % (json.dumps(self.waptop), json.dumps(self.query_prefix), json.dumps(self.server_name), self.server_port,
                   self.hi_byte, self.block_bytes, self.deep_depth, ", ".join(json.dumps(x) for x in self.fixes)))


# ---------------------------------------------------------------------------------------------------
# abstract text <-> bytes
def conc(s: str, hi_byte=0xFF) -> bytes:
    out = bytearray()
    if "%{{" in s:                   # the percent-coded block
        parts = s.split("%{{")
        return _QBLOCK_S.encode("ascii").join(conc(x, hi_byte) for x in parts)
    for ch in s:
        if ch == HI:
            out.append(hi_byte)
        elif ch == BLK:
            out += BLOCK
        elif ch == ABLK:
            out += ABLOCK
        elif ch == REPL:
            out += b"\xef\xbf\xbd"
        else:
            out += ch.encode("utf-8", "surrogateescape")
    return bytes(out)


def absx(b) -> str:
    """bytes (or a surrogate-escaped str) -> abstract text; total (unknown characters are spelled out)."""
    s = b.decode("utf-8", "surrogateescape") if isinstance(b, (bytes, bytearray)) else b
    if len(s) >= 60:                 # length classes: a whole block (raw or percent-coded) is one abstract character
        s = s.replace(_QBLOCK_S, "%\x01\x01").replace(_BLOCK_S, "\x01").replace(_ABLOCK_S, "\x02")
    out = []
    for ch in s:
        o = ord(ch)
        if 0xDC80 <= o <= 0xDCFF:
            out.append(HI)
        elif o == 0xFFFD:
            out.append(REPL)
        elif o == 1:
            out.append(BLK)
        elif o == 2:
            out.append(ABLK)
        elif ch in (HI, REPL, BLK, ABLK):
            out.append("(U+%04X)" % o)
        elif o < 0x80:
            out.append(ch)
        else:
            out.append("(U+%04X)" % o)
    return "".join(out)


def fsname(s: str, hi_byte=0xFF) -> str:
    return conc(s, hi_byte).decode("utf-8", "surrogateescape")


# ---------------------------------------------------------------------------------------------------
# gamma: content trees.  case = {"k","n","ik","m"} as enumerated by MC_C05 / MC_C06
DOC = b"DOC %s\n"
MBOX_MSG = (b"From alice@example.org Thu Jan  1 00:00:00 2004\nFrom: alice@example.org\nSubject: subject\n\n"
            b"DOC message\n")
MAIL_MSG = b"From: alice@example.org\nSubject: subject\n\nDOC message\n"


class _RawZipInfo(zipfile.ZipInfo):
    """Member names as raw bytes (what zip(1) on POSIX writes): stored undecorated, read back by Python as cp437."""

    def _encodeFilenameFlags(self):
        return self.filename.encode("cp437"), self.flag_bits & ~0x800


def _zip_bytes(members):
    buf = io.BytesIO()
    with zipfile.ZipFile(buf, "w") as z:
        for name, data in members:
            zi = _RawZipInfo(name.decode("cp437"), date_time=(2004, 1, 1, 0, 0, 0))
            zi.external_attr = 0o100644 << 16
            z.writestr(zi, data)
    return buf.getvalue()


def fs_name_of(case) -> str:
    return case["n"] + {"zip": ".zip", "mapfile": ".gophermap"}.get(case["k"], "")


def map_file(target: bytes) -> bytes:
    """A named gophermap file: info line, relative selector, description only, absolute selector (Links!MapLines)."""
    return b"a map file\n0relative\t" + target + b"\n0" + target + b"\t\n0absolute\t/zz\n"


def materialise(w, case, hi_byte=0xFF, extra=None):
    """Build the tree of `case` under World w (cleared first).  `extra(w)` may add further files."""
    w.clear()
    n = fsname(fs_name_of(case), hi_byte)
    m = fsname(case.get("m", "in"), hi_byte)
    k, ik = case["k"], case.get("ik", "none")
    w.write("zz", DOC % b"zz")
    if k == "file":
        w.write(n, DOC % b"subject")
    elif k == "mapfile":
        w.write(n, map_file(b"zz"))
    elif k == "mbox":
        w.write(n, MBOX_MSG)
    elif k == "deep":
        depth = int(case.get("depth", 16))
        w.write("/".join([n] * depth) + "/leaf", DOC % b"leaf")
    elif k == "maildir":
        for d in ("new", "cur", "tmp"):
            w.mkdir(n + "/" + d)
        w.write(n + "/new/msg1", MAIL_MSG)
    elif k in ("dir", "mapdir"):
        w.mkdir(n)
        if ik == "mapfile":
            w.write(n + "/" + m + ".gophermap", map_file(conc(case["m"], hi_byte)))
            w.write(n + "/" + m, DOC % b"linked")
        elif ik == "dir":
            w.write(n + "/" + m + "/leaf", DOC % b"leaf")
        else:
            w.write(n + "/" + m, DOC % b"inner")
        if k == "mapdir":
            gm = b"map of the directory\n" + (b"1" if ik == "dir" else b"0") + b"inner entry\t" + conc(case["m"], hi_byte) + b"\n"
            w.write(n + "/gophermap", gm)
    elif k == "zip":
        mb = conc(case["m"], hi_byte)
        members = [(mb + b"/leaf", DOC % b"leaf")] if ik == "dir" else [(mb, DOC % b"inner")]
        w.write(n, _zip_bytes(members))
    else:
        raise ValueError("unknown kind %r" % (k,))
    if k in ("dir", "mapdir"):                    # site map (Links!SiteTargets): absolute links to children and grandchildren
        base = "/" + fs_name_of(case) + "/"
        rows = [("1" if ik in ("dir", "mapfile") else "0", base + case["m"] + (".gophermap" if ik == "mapfile" else ""))]
        if ik == "dir":
            rows.append(("0", rows[0][1] + "/leaf"))
        if ik == "mapfile":
            rows.append(("0", base + case["m"]))
        lines = [b"site map"]
        for typ, sel in rows:
            if sel == sel.strip() and "\t" not in sel and "\n" not in sel and not any(
                    bad in sel for bad in ("./", "..", "//", ".\\", "\\\\")):      # Links!SiteOk (incl. Links!Secure)
                lines.append(typ.encode() + b"x\t" + conc(sel, hi_byte))
        w.write("zm.gophermap", b"\n".join(lines) + b"\n")
    if extra:
        extra(w)


# ---------------------------------------------------------------------------------------------------
# the per-protocol client (checked by TLC against Links!Follow)
def has_scheme(h: str) -> bool:
    i = h.find(":")
    return i > 0 and not any(c in h[:i] for c in "/?#")


def is_url_sel(sel: str) -> bool:
    return sel.startswith("URL:") or sel.startswith("/URL:")


def is_local(p, t, k: Consts) -> bool:
    if t["form"] == "tab":
        return t["host"] == k.server_name and t["port"] == k.server_port and not is_url_sel(t["sel"])
    if t["form"] == "url":
        return t["href"] != "" and not has_scheme(t["href"])
    return False


def ref_path(base: str, href: str) -> str:
    if href.startswith("/"):
        return href
    i = base.rfind("/")
    return (base[:i + 1] if i >= 0 else "/") + href


_SAFE = set("abcdefghijklmnopqrstuvwxyzABCDEFGHIJKLMNOPQRSTUVWXYZ0123456789_.-~")


def _pct(text: str, k: Consts, safe: str, plus_for_space: bool) -> str:
    """Percent-code abstract text, staying abstract: a block class is coded as a block ("%{{"), the ASCII block is safe."""
    out = []
    for ach in text:
        if ach == BLK:
            out.append("%{{")
        elif ach == ABLK:
            out.append(ABLK)
        else:
            for b in conc(ach, k.hi_byte):
                ch = chr(b)
                if ch in _SAFE or ch in safe:
                    out.append(ch)
                elif ch == " " and plus_for_space:
                    out.append("+")
                else:
                    out.append("%%%02X" % b)
    return "".join(out)


def client_encode(q: str, k: Consts, plus_for_space: bool) -> str:
    """How a client percent-codes what the user typed (form submission / Gemini query)."""
    return _pct(q, k, "", plus_for_space)


def client_encode_path(sel: str, k: Consts) -> str:
    """A selector as a URL path (what urllib.parse.quote(selector) yields): mirror of Links!PctQuote."""
    return _pct(sel, k, "/", False)


def root_ref(p, k: Consts) -> str:
    return "" if p in GOPHER_VIEWS else (k.waptop + "/" if p == "W" else "/")


def root_target(p, k: Consts) -> dict:
    if p in GOPHER_VIEWS:
        return {"form": "tab", "mark": "link", "sel": "", "host": k.server_name, "port": k.server_port, "href": ""}
    return {"form": "url", "mark": "link", "sel": "", "host": "", "port": 0, "href": root_ref(p, k)}


def ref_of(p, t, base):
    return t["sel"] if t["form"] == "tab" else ref_path(base, t["href"])


def follow(p, t, base, q, k: Consts) -> dict:
    tls = p in TLS_VIEWS
    if p in GOPHER_VIEWS:
        line = t["sel"] + ("\t" + q if q else "") + ("\t" + PLUS[p] if p in PLUS else "") + "\r\n"
        return {"line": line, "rest": "", "tls": tls}
    path = ref_path(base, t["href"])
    if p in ("H", "HS", "W"):
        line = "GET " + path + ("?searchrequest=" + client_encode(q, k, True) if q else "") + " HTTP/1.0\r\n"
        return {"line": line, "rest": "\r\n", "tls": tls}
    if p == "M":
        return {"line": "gemini://" + k.server_name + path + ("?" + client_encode(q, k, False).replace("%2B", "+") if q else "") + "\r\n",     # = Links!QueryEncode
                "rest": "", "tls": tls}
    if p == "S":
        return {"line": "%s %s %d\r\n" % (k.server_name, path, len(conc(q, k.hi_byte))), "rest": q, "tls": tls}
    raise ValueError(p)


BROWSER_HEADERS = ("Host: localhost\r\nAccept: text/html,application/xhtml+xml,*/*;q=0.8\r\n"
                   "Accept-Encoding: gzip, deflate\r\nUser-Agent: Mozilla/5.0 (verif)\r\n")      # = Links!BrowserHeaders


def with_headers(rq, hdr):
    return dict(rq, rest=BROWSER_HEADERS + rq["rest"]) if hdr else rq


def send(w, rq, k: Consts):
    return w.request(conc(rq["line"], k.hi_byte) + conc(rq["rest"], k.hi_byte), tls=rq["tls"])


# ---------------------------------------------------------------------------------------------------
# alpha: response classification and listing lexers
_ERRLINE = re.compile(rb"\A3[^\t\r\n]*\t\terror\.host\t1\r\n\Z")
_BSX = re.compile(r"\\x([0-9a-f]{2})")


def _menu_lines(text: str):
    """Gopher menu body -> list of field lists, or None if it is not a complete menu."""
    if text == "":
        return []
    if not text.endswith("\r\n"):
        return None
    rows = []
    for line in text[:-2].split("\r\n"):
        f = line.split("\t")
        if len(f) not in (4, 5) or not f[0] or not f[3].lstrip("-").isdigit() or (len(f) == 5 and f[4] != "+"):
            return None
        rows.append(f)
    return rows


def _gopher_entries(rows):
    out = []
    for f in rows:
        typ, name = f[0][0], f[0][1:]
        if typ == "i":
            out.append(_info(absx(name)))
        else:
            out.append({"type": typ, "name": absx(name), "mt": "",
                        "t": {"form": "tab", "mark": "search" if typ == "7" else "link", "sel": absx(f[1]),
                              "host": absx(f[2]), "port": int(f[3]), "href": ""}})
    return out


def _info(name):
    return {"type": "i", "name": name, "mt": "",
            "t": {"form": "none", "mark": "info", "sel": "", "host": "", "port": 0, "href": ""}}


def _url_entry(mark, name, href, mt=""):
    return {"type": "", "name": name, "mt": mt,
            "t": {"form": "url", "mark": mark, "sel": "", "host": "", "port": 0, "href": href}}


_HROW = re.compile(
    r'<TR><TD><IMG ALT=" \* " SRC="/PYGOPHERD-HTTPPROTO-ICONS/([^"]*)" WIDTH="20" HEIGHT="22" BORDER="0"></TD>\n'
    r'<TD>&nbsp;(?:<A HREF="(?P<href>[^"]*)">)?<TT>(?P<name>.*?)</TT>(?:</A>)?'
    r'(?:<BR><FORM METHOD="GET" ACTION="(?P<action>[^"]*)"><INPUT TYPE="text" NAME="searchrequest" SIZE="30">'
    r'<INPUT TYPE="submit" NAME="Submit" VALUE="Submit"></FORM>)?'
    r'</TD><TD><FONT SIZE="-2">(?P<mt>.*?)</FONT></TD></TR>\n', re.S)
_HTABLE = '<TABLE WIDTH="100%" CELLSPACING="1" CELLPADDING="0">'

_WITEM = re.compile(
    r'(?:(?:[0-9#*] <a accesskey="[0-9#*]" |<a )href="(?P<href>[^"]*)">(?P<name>.*?)</a><br/>\n)'
    r'|(?:(?P<sname>[^\n]*?)<br/>\n  <input name="sr\d+"/>\n<anchor>Go\n  <go method="get" href="(?P<shref>[^"]*)">\n'
    r'    <postfield name="searchrequest" value="\$\(sr\d+\)"/>\n  </go>\n</anchor>\n<br/>\n)'
    r'|(?:(?P<iname>[^\n]*?)<br/>\n)', re.S)


def classify(p, r, k: Consts) -> dict:
    """Wire-level class (see _classify_wire).  Plain Gopher has no status line (a Spartan-formatted error sent to
    a Gopher client reads as a document), so there a response only counts as success if the server log shows that
    a handler accepted the request; a response during which an exception escaped the connection handler never does."""
    res = _classify_wire(p, r, k)
    exc = r.exc_classes()
    res["exc"] = exc
    # the server logs "<addr> [<Protocol>/<Handler>]: <selector>" once a handler accepted the request
    handled = any(re.search(r"\[\w+/\w+\]: ", ln) and " EXCEPTION " not in ln for ln in r.log)
    if res["cls"] == "ok":
        if r.escaped is not None:
            res["cls"] = "error"
        elif p in ("G", "SG") and not handled:          # no status line in plain Gopher: the log decides
            res["cls"] = "notfound" if "FileNotFound" in exc else "error"
    m = re.search(r"\[(\w+)/(\w+)\]", " ".join(r.log))
    res["by"] = [m.group(1), m.group(2)] if m else ["", ""]
    return res


def _classify_wire(p, r, k: Consts) -> dict:
    """Response of protocol view p -> {cls, obj, mime, entries, meta}.
    cls: ok | notfound | prompt | redirect | error (malformed / other status) | noreply
    obj: menu | doc | na ; entries: lexed listing when obj == menu (None when the menu does not lex)."""
    out = r.out
    res = {"cls": "error", "obj": "na", "mime": "", "entries": None, "meta": ""}
    if r.escaped is not None and out == b"":
        res["cls"] = "noreply"
        return res
    try:
        if p in ("G", "SG"):
            if out == b"":
                if r.exc_classes():
                    res["cls"] = "noreply"
                    return res
                res.update(cls="ok", obj="menu", entries=[])
                return res
            if _ERRLINE.match(out):
                res["cls"] = "notfound"
                return res
            rows = _menu_lines(out.decode("utf-8", "surrogateescape"))
            if rows is not None:
                res.update(cls="ok", obj="menu", entries=_gopher_entries(rows))
            else:
                res.update(cls="ok", obj="doc")
            return res
        if p in ("GP", "SGP", "GD", "SGD"):
            head, sep, body = out.partition(b"\r\n")
            if not sep:
                res["cls"] = "noreply" if out == b"" else "error"
                return res
            if head == b"--2":
                res["cls"] = "notfound"
                return res
            if not re.match(rb"\A\+(-2|-1|\d+)\Z", head):
                return res
            text = body.decode("utf-8", "surrogateescape")
            if p in ("GD", "SGD"):
                if text == "" or text.startswith("+INFO: "):
                    rows = []
                    okk = True
                    for blk in re.split(r"(?m)^\+INFO: ", text)[1:]:
                        first = blk.split("\r\n", 1)[0]
                        mm = _menu_lines(first + "\r\n")
                        if mm is None or not blk.endswith("\r\n"):
                            okk = False
                            break
                        rows.append(mm[0])
                    if okk:
                        res.update(cls="ok", obj="menu", entries=_gopher_entries(rows))
                        return res
                res.update(cls="ok", obj="doc")
                return res
            rows = _menu_lines(text)
            if rows is not None:
                res.update(cls="ok", obj="menu", entries=_gopher_entries(rows))
            else:
                res.update(cls="ok", obj="doc")
            return res
        if p in ("H", "HS", "W"):
            head, sep, body = out.partition(b"\r\n\r\n")
            lines = head.split(b"\r\n")
            status = lines[0]
            if not sep or not status.startswith(b"HTTP/1.0 "):
                res["cls"] = "noreply" if out == b"" else "error"
                return res
            ctype = ""
            for ln in lines[1:]:
                if ln.lower().startswith(b"content-type:"):
                    ctype = ln.split(b":", 1)[1].strip().decode("latin-1")
            res["mime"] = ctype
            text = body.decode("utf-8", "surrogateescape")
            if status != b"HTTP/1.0 200 OK":
                res["cls"] = "notfound" if (b" 404 " in status + b" " or status == b"HTTP/1.0 200 Not Found") else "error"
                return res
            if p == "W":
                if 'title="404 Error"' in text.split("\n<p>", 1)[0]:
                    res["cls"] = "notfound"
                    return res
                m = re.search(r'<card id="index" title="[^"]*" newcontext="true">\n<p>\n<b>[^\n]*</b><br/>\n', text)
                if ctype == "text/vnd.wap.wml" and m and text.endswith("</p>\n</card>\n</wml>\n"):
                    inner = text[m.end():-len("</p>\n</card>\n</wml>\n")]
                    ents, pos = [], 0
                    while pos < len(inner):
                        mm = _WITEM.match(inner, pos)
                        if not mm:
                            ents = None
                            break
                        pos = mm.end()
                        if mm.group("href") is not None:
                            ents.append(_url_entry("link", absx(html.unescape(mm.group("name"))),
                                                   absx(html.unescape(mm.group("href")))))
                        elif mm.group("shref") is not None:
                            ents.append(_url_entry("search", absx(html.unescape(mm.group("sname"))),
                                                   absx(html.unescape(mm.group("shref")))))
                        else:
                            ents.append(_info(absx(html.unescape(mm.group("iname")))))
                    res.update(cls="ok", obj="menu", entries=ents)
                else:
                    res.update(cls="ok", obj="doc")
                return res
            if ctype == "text/html" and _HTABLE in text and "</TABLE><HR>" in text:
                tab = text.split(_HTABLE, 1)[1].rsplit("</TABLE><HR>", 1)[0]
                ents, pos = [], 0
                while pos < len(tab):
                    mm = _HROW.match(tab, pos)
                    if not mm:
                        ents = None
                        break
                    pos = mm.end()
                    name = absx(html.unescape(mm.group("name")))
                    mt = absx(html.unescape(mm.group("mt")))
                    if mm.group("action") is not None:
                        e = _url_entry("search", name, absx(html.unescape(mm.group("action"))), mt)
                    elif mm.group("href") is not None:
                        e = _url_entry("link", name, absx(html.unescape(mm.group("href"))), mt)
                    else:
                        e = _info(name)
                    e["icon"] = mm.group(1)
                    ents.append(e)
                res.update(cls="ok", obj="menu", entries=ents)
            else:
                res.update(cls="ok", obj="doc")
            return res
        if p in ("M", "S"):
            head, sep, body = out.partition(b"\r\n")
            if not sep:
                res["cls"] = "noreply" if out == b"" else "error"
                return res
            code, _, meta = head.decode("utf-8", "surrogateescape").partition(" ")
            res["meta"] = absx(meta)
            okc, nfc = ("20", "51") if p == "M" else ("2", "4")
            if code == nfc:
                res["cls"] = "notfound"
                return res
            if p == "M" and code == "10":
                res["cls"] = "prompt"
                return res
            if p == "M" and code == "30":
                res["cls"] = "redirect"
                return res
            if code != okc:
                return res
            res["mime"] = meta
            if meta != "text/gemini":
                res.update(cls="ok", obj="doc")
                return res
            text = body.decode("utf-8", "surrogateescape")
            for ft in k.footers:
                tail = "\n" + ft + "\n"
                if text.endswith(tail):
                    text = text[:-len(tail)]
                    break
            ents = []
            if text and not text.endswith("\n"):
                ents = None
            else:
                for line in (text[:-1].split("\n") if text else []):
                    mm = re.match(r"(=>|=:) (\S*) ?(.*)\Z", line, re.S)
                    if mm:
                        nm = _BSX.sub(lambda x: chr(0xDC00 + int(x.group(1), 16)) if int(x.group(1), 16) >= 0x80
                                      else x.group(0), mm.group(3))
                        # Gemini has no marker for search items (only the server-side prefix): every "=>" is a link
                        ents.append(_url_entry("search" if mm.group(1) == "=:" else "link", absx(nm), absx(mm.group(2))))
                    else:
                        nm = _BSX.sub(lambda x: chr(0xDC00 + int(x.group(1), 16)) if int(x.group(1), 16) >= 0x80
                                      else x.group(0), line)
                        ents.append(_info(absx(nm)))
            res.update(cls="ok", obj="menu", entries=ents)
            return res
    except Exception as e:          # a response the lexer cannot digest is an observation, not a harness crash
        res["cls"] = "error"
        res["meta"] = "lexer: %s" % type(e).__name__
        return res
    raise ValueError(p)


def redirect_target(r) -> str:
    head = r.out.partition(b"\r\n")[0].decode("utf-8", "surrogateescape")
    return absx(head.partition(" ")[2])


# ---------------------------------------------------------------------------------------------------
# the crawler: start at the root menu, lex with p's own syntax, re-request every local link with p's own
# request syntax; visit every listing reference once
def crawl(w, p, k: Consts, query="q", limit=60):
    events, concrete = [], []
    seen = set()
    queue = []

    t0 = root_target(p, k)
    rq = follow(p, t0, "", "", k)
    r = send(w, rq, k)
    c = classify(p, r, k)
    concrete.append({"rq": rq, "out": r.out[:400].decode("latin-1"), "log": r.log[-2:], "escaped": r.escaped})
    ref0 = root_ref(p, k)
    if c["cls"] == "ok" and c["obj"] == "menu" and c["entries"] is not None:
        events.append({"ev": "listing", "ref": ref0, "req": rq, "entries": c["entries"]})
        queue.append((ref0, c["entries"]))
        seen.add(ref0)
    else:
        events.append({"ev": "rootfail", "req": rq, "cls": c["cls"], "obj": c["obj"]})
    n = 0
    while queue and n < limit:
        base, entries = queue.pop(0)
        for i, e in enumerate(entries, start=1):
            t = e["t"]
            if not is_local(p, t, k):
                continue
            n += 1
            q = query if t["mark"] == "search" else ""
            chain = []
            rq = follow(p, t, base, q, k)
            rq0, nb0 = rq, len(conc(rq["line"], k.hi_byte)) + len(conc(rq["rest"], k.hi_byte))
            r = send(w, rq, k)
            c = classify(p, r, k)
            if p == "M" and c["cls"] == "prompt":
                # Gemini's own search mechanism: the link answered with a prompt (10); resubmit with the query
                # typed by the user, follow the redirect (30)
                q = query
                rq2 = follow(p, t, base, q, k)
                r = send(w, rq2, k)
                c = classify(p, r, k)
                chain.append({"line": rq2["line"], "cls": c["cls"],
                              "loc": (redirect_target(r) if c["cls"] == "redirect" else "")})
                if c["cls"] == "redirect":
                    here = ref_path(base, t["href"])
                    rq3 = {"line": "gemini://" + k.server_name + ref_path(here, redirect_target(r)) + "\r\n",
                           "rest": "", "tls": True}
                    r = send(w, rq3, k)
                    c = classify(p, r, k)
                    chain.append({"line": rq3["line"], "cls": c["cls"], "loc": ""})
            events.append({"ev": "follow", "base": base, "i": i, "q": q, "req": rq0, "nbytes": nb0, "chain": chain,
                           "cls": c["cls"], "obj": c["obj"], "by": c["by"][0],
                           "lexed": c["entries"] is not None or c["obj"] != "menu"})
            concrete.append({"rq": rq, "out": r.out[:400].decode("latin-1"), "log": r.log[-2:], "escaped": r.escaped})
            if c["cls"] == "ok" and c["obj"] == "menu" and c["entries"] is not None and not q:
                ref = ref_of(p, t, base)
                if ref not in seen:
                    seen.add(ref)
                    events.append({"ev": "listing", "ref": ref, "req": rq, "entries": c["entries"]})
                    queue.append((ref, c["entries"]))
    events.append({"ev": "end", "truncated": bool(queue) and n >= limit})
    return events, concrete


# ---------------------------------------------------------------------------------------------------
def pool_map(fn, items, init_fn, procs=None):
    import multiprocessing as mp
    procs = procs or int(os.environ.get("VERIF_PROCS") or 16)
    ctx = mp.get_context("fork")
    with ctx.Pool(procs, initializer=init_fn) as pool:
        return pool.map(fn, items, chunksize=max(1, len(items) // (procs * 8) or 1))
