"""XTALX (growth beyond the listed properties): the parts of the bundled simpleTAL no other check covers.

Part 1  simpleTALUtils.TemplateCache   spec/TALCache.tla, MC_XTALX_Cache, spec/trace/TraceXtalxCache.tla
        (harness/xtalx_cache.py): every behaviour of a bounded instance (tlc -dump, history variable h) and
        simulated longer behaviours (tlc -simulate) are executed on the real class with real files / os.utime.
Part 2  XML templates + ExpandMacros    spec/TALXml.tla, MC_XTALX, spec/trace/TraceXtalx.tla (extends TraceC17)
        (harness/xtalx_xml.py): exactly the cases MC_XTALX explored are rendered, compiled by the real
        compileXMLTemplate, expanded by the real XMLTemplate.expand / simpleTALUtils.ExpandMacros.
Part 3  simpleTALUtils.tagAsText        family "tt" of MC_XTALX, judged by TraceXtalx (kind "tt").
All judgement is done by TLC (invariants of the MC modules, clauses of the trace specs)."""
from __future__ import annotations

import hashlib
import json
import os
import shutil

from harness import core, tlc

if "-Xss" not in os.environ.get("JAVA_TOOL_OPTIONS", ""):
    os.environ["JAVA_TOOL_OPTIONS"] = (os.environ.get("JAVA_TOOL_OPTIONS", "") + " -Xss64m").strip()

TIERS = {
    "quick": dict(
        cache=[dict(files=["a.html"], contents=["h1", "x1", "d1", "t1"], maxclock=6, maxlen=4),
               dict(files=["a.html"], contents=["h1", "x1"], maxclock=6, maxlen=5),
               dict(files=["b.xml"], contents=["h1", "x1", "d1"], maxclock=6, maxlen=4),
               dict(files=["a.html", "b.xml"], contents=["h1", "x1"], maxclock=5, maxlen=3)],
        sim=dict(inst=dict(files=["a.html", "b.xml", "cxml"], contents=["h1", "h2", "x1", "d1", "t1"]), num=150, depth=12),
        thorough=False),
    "thorough": dict(
        cache=[dict(files=["a.html"], contents=["h1", "h2", "x1", "d1", "t1"], maxclock=7, maxlen=5),
               dict(files=["a.html"], contents=["h1", "x1"], maxclock=8, maxlen=6),
               dict(files=["b.xml"], contents=["h1", "x1", "d1"], maxclock=7, maxlen=5),
               dict(files=["a.html", "b.xml"], contents=["h1", "x1", "d1"], maxclock=6, maxlen=4)],
        sim=dict(inst=dict(files=["a.html", "b.xml", "cxml"], contents=["h1", "h2", "x1", "d1", "t1"]), num=1500, depth=20),
        thorough=True),
}

MC_CFG = """SPECIFICATION Spec
CONSTANTS
%(consts)s
  Thorough = %(thorough)s
  MaxSteps = 400
INVARIANTS WellFormed Terminates Completes Refines PreambleShape
POSTCONDITION WriteCases
CHECK_DEADLOCK FALSE
"""


def procs():
    return int(os.environ.get("VERIF_PROCS") or 16)


def xml_consts():
    from harness import c17_tal
    text, consts, bound = c17_tal.import_constants()
    lines = [ln for ln in text.split("\n") if not ln.strip().startswith("VoidTags")] + ["  VoidTags = {}"]
    return "\n".join(lines), dict(consts, VoidTags=[]), bound


# ---- part 1 -----------------------------------------------------------------------------------------------------
def _run_cache_chunk(hists):
    from harness import xtalx_cache
    return xtalx_cache.run_batch(hists)


def cache_part(chk, t, only=None):
    from harness import c17_tal, xtalx_cache as xc
    tot = dict(states=0, generated=0, runs=0, accepted=0, gets=0, hits=0, errs=0, samples=[], cmd="", nontrivial=0, trace_states=0)
    drift = []
    groups = []
    if only is not None:
        groups.append((only["inst"], [only["hist"]]))
    else:
        for inst in t["cache"]:
            res, hs = xc.exhaustive_histories(inst)
            if res["inv_violations"]:
                chk.model_violation("MC_XTALX_Cache%s" % inst["files"], res["inv_violations"], res["out"][-2000:])
            tot["states"] += res["distinct"]
            tot["generated"] += res["generated"]
            tot["cmd"] = res["cmd"]
            groups.append((inst, hs))
        s = t["sim"]
        res, hs = xc.simulated_histories(s["inst"], s["num"], s["depth"], chk.seed % 100000 + 1)
        if res["inv_violations"]:
            chk.model_violation("MC_XTALX_Cache[simulate]", res["inv_violations"], res["out"][-2000:])
        groups.append((dict(s["inst"], maxlen=s["depth"], maxclock=s["depth"] + 4), hs))
    for inst, hs in groups:
        if not hs:
            raise core.MachineryError("XTALX: TLC produced no TemplateCache behaviour for %s" % inst["files"])
        n = max(1, min(procs(), len(hs) // 200 or 1))
        chunks = [hs[i::n] for i in range(n)]
        runs_c = c17_tal.pool_map(_run_cache_chunk, chunks, None, procs=n) if n > 1 else [_run_cache_chunk(hs)]
        runs = [None] * len(hs)
        for i, rc in enumerate(runs_c):
            runs[i::n] = rc
        tv = xc.validate(inst, runs)
        tot["runs"] += len(runs)
        tot["accepted"] += tv["accepted"]
        tot["trace_states"] += tv["states"]
        tot["trace_cmd"] = tv["cmd"]
        for r in runs:
            g = [e for e in r if e["a"] in ("get", "getxml")]
            tot["gets"] += len(g)
            tot["errs"] += sum(1 for e in g if e["res"] != "tmpl")
            tot["hits"] = max(tot["hits"], max([e["hits"] for e in g] or [0]))
            if any(e["res"] == "tmpl" for e in g):
                tot["nontrivial"] += 1
        if len(tot["samples"]) < 3:
            tot["samples"].append({"history": hs[0], "events": runs[0]})
        for rj in tv["rejected"]:
            hist = hs[rj["index"]]
            key = "cache|%s|%s|%s" % (rj["clause"], ",".join(inst["files"]), json.dumps(hist, sort_keys=True))
            chk.violation(key, rj["clause"], {"part": "cache", "inst": inst, "hist": hist},
                          {"events": runs[rj["index"]], "rejected_at_event": rj["at"]})
        drift += [{"what": d["what"], "at": d["at"], "history": hs[d["index"]]} for d in tv["drift"][:20]]
    chk.note_drift(drift)
    return tot


# ---- part 2 -----------------------------------------------------------------------------------------------------
def _run_xml(args):
    from harness import xtalx_xml
    case, consts, kind = args
    return xtalx_xml.run_case(case, consts, kind)


def xml_cases(consts_text, thorough):
    sd = tlc.new_scratch("xtalxcases")
    cf = os.path.join(sd, "cases.json")
    try:
        cfg = MC_CFG % dict(consts=consts_text, thorough="TRUE" if thorough else "FALSE")
        res = tlc.check_model("MC_XTALX", "xx_run.cfg", extra_files={"xx_run.cfg": cfg}, workers=os.environ.get("VERIF_TLC_WORKERS") or 4,
                              env={"CASES_FILE": cf}, timeout=900, coverage=False)
        cases = []
        if os.path.exists(cf):
            with open(cf) as fp:
                cases = json.load(fp)["cases"]
        elif not res["inv_violations"]:
            raise tlc.TLCError("MC_XTALX wrote no cases:\n" + res["out"][-2000:])
        return res, cases
    finally:
        shutil.rmtree(sd, ignore_errors=True)


def case_key(kind, run):
    i = run["init"]
    return "%s|ns=%d|enc=%s|sup=%d|dt=%d|%s" % (kind, i["ns"], i["enc"], int(i["sup"]), int(bool(i["dt"])), run["text"])


def xml_part(chk, t, only=None):
    from harness import c17, c17_tal
    consts_text, consts, bound = xml_consts()
    tot = dict(states=0, generated=0, runs=0, accepted=0, events=0, nontrivial=0, samples=[], cmd="", bound=bound, mx=0, trace_states=0)
    if only is not None:
        jobs = [(only["case"], consts, only["kind"])]
    else:
        res, cases = xml_cases(consts_text, t["thorough"])
        if res["inv_violations"]:
            chk.model_violation("MC_XTALX", res["inv_violations"], res["out"][-2500:])
        tot.update(states=res["distinct"], generated=res["generated"], cmd=res["cmd"])
        cases.sort(key=lambda c: json.dumps(c, sort_keys=True))
        jobs = [(c, consts, "direct") for c in cases]
        jobs = [(c, consts, "tt" if c["fam"] == "tt" else "direct") for c in cases]
        jobs += [(c, consts, "mx") for c in cases if c["fam"] == "metal" and c["ns"] <= 1]
    runs = c17_tal.pool_map(_run_xml, jobs, None, procs=min(procs(), max(1, len(jobs) // 50))) if len(jobs) > 50 else [_run_xml(j) for j in jobs]
    tv = c17.validate("TraceXtalx", "XSpec", runs, {"A": []}, consts_text, chunk=1500, timeout=900)
    tot["runs"] = len(runs)
    tot["accepted"] = tv["accepted"]
    tot["trace_states"] = tv["states"]
    tot["trace_cmd"] = tv["cmd"]
    tot["events"] = sum(len(r["events"]) for r in runs)
    tot["mx"] = sum(1 for r in runs if r["init"]["kind"] == "mx")
    tot["nontrivial"] = len({hashlib.sha1(case_key(r["init"]["kind"], r).encode()).digest()[:8] for r in runs
                             if r["final"]["doc"] and (r["init"]["kind"] == "mx" or any(e[1] not in (0, consts["TAL_OUTPUT"]) for e in r["events"]))})
    tot["samples"] = [{"template": r["text"], "ns": r["init"]["ns"], "enc": r["init"]["enc"], "doc": r["final"]["doc2"] or r["final"]["doc"]} for r in runs[:2]]
    for rj in tv["rejected"]:
        r = runs[rj["index"]]
        i = r["init"]
        case = {"part": "xml", "kind": i["kind"], "fam": i["fam"], "ns": i["ns"], "enc": i["enc"], "sup": i["sup"], "dt": i["dt"], "template": r["text"],
                "case": jobs[rj["index"]][0]}
        chk.violation("%s|%s" % (rj["clause"], case_key(i["kind"], r)), rj["clause"], case,
                      {"final": {k: v for k, v in r["final"].items() if k != "toks"}, "events": r["events"][:100]})
    chk.note_drift([{"what": d["what"], "at": d["at"], "template": runs[d["index"]]["text"][:300]} for d in tv["drift"][:30]])
    tot["n_drift"] = len({d["index"] for d in tv["drift"]})
    return tot


# ---- part 3: tagAsText of simpleTALUtils -------------------------------------------------------------------------
def selftest():
    """binding demonstration: corrupt one recorded field / drop one event and show the trace specs reject it"""
    from harness import xtalx_cache as xc
    inst = dict(files=["a.html"], contents=["h1", "x1"], maxclock=6, maxlen=6)
    hist = [{"a": "write", "f": "a.html", "c": "h1"}, {"a": "get", "f": "a.html", "c": ""}, {"a": "get", "f": "a.html", "c": ""},
            {"a": "tick", "f": "", "c": ""}, {"a": "tick", "f": "", "c": ""}, {"a": "write", "f": "a.html", "c": "x1"}, {"a": "get", "f": "a.html", "c": ""}]
    good = xc.run_history(hist)
    stale = json.loads(json.dumps(good))
    stale[-1].update(c="h1", obj=1)                       # pretend the old template came back after the rewrite
    counters = json.loads(json.dumps(good))
    counters[2]["hits"] = 0
    dropped = json.loads(json.dumps(good))
    del dropped[5]                                        # the rewrite is missing: the recompilation is unexplained
    tv = xc.validate(inst, [good, stale, counters, dropped])
    rej = {r["index"]: r["clause"] for r in tv["rejected"]}
    ok = 0 not in rej and rej.get(1) == "Fresh" and rej.get(2) == "Counters" and 3 in rej
    return ok, rej


def main(chk, replay=None):
    t = TIERS[chk.tier]
    if replay:
        with open(replay) as fp:
            c = json.load(fp)["case"]
        if c.get("part") == "cache":
            ct = cache_part(chk, t, only=c)
            xt = dict(states=0, generated=0, runs=0, accepted=0, events=0, nontrivial=0, samples=[], cmd="", bound=True, mx=0, trace_states=0, n_drift=0)
        else:
            xt = xml_part(chk, t, only=c)
            ct = dict(states=0, generated=0, runs=0, accepted=0, gets=0, hits=0, errs=0, samples=[], cmd="", nontrivial=0, trace_states=0)
    else:
        ct = cache_part(chk, t)
        xt = xml_part(chk, t)
        # vacuity guards
        if ct["gets"] == 0 or ct["hits"] == 0 or ct["errs"] == 0:
            raise core.MachineryError("XTALX: TemplateCache never exercised (gets=%d max hits=%d errors=%d)" % (ct["gets"], ct["hits"], ct["errs"]))
        if xt["events"] == 0 or xt["mx"] == 0:
            raise core.MachineryError("XTALX: no opcode event logged for XML templates / ExpandMacros never run")
    cov = {
        "states": ct["states"] + xt["states"], "transitions": ct["generated"] + xt["generated"], "exhaustive": True,
        "traces_validated_against_impl": ct["accepted"] + xt["accepted"], "evaluations": ct["runs"] + xt["runs"],
        "distinct_nontrivial": ct["nontrivial"] + xt["nontrivial"],
        "rule": "cache: every maximal history of the bounded instances of MC_XTALX_Cache (dump) + simulated behaviours; non-trivial = "
                "histories in which at least one call returned a template.  xml: every case written by MC_XTALX's POSTCONDITION "
                "(+ the metal cases again through ExpandMacros); non-trivial = distinct (template text, ns, enc, sup, dt) whose run "
                "executed a TAL/METAL opcode other than OUTPUT and produced output",
        "samples": ct["samples"][:2] + xt["samples"][:2],
        "checker_cmd": "%s ; %s ; %s ; %s" % (ct["cmd"], ct.get("trace_cmd", ""), xt["cmd"], xt.get("trace_cmd", "")),
        "cache": {k: v for k, v in ct.items() if k not in ("samples", "cmd", "trace_cmd")},
        "xml": {k: v for k, v in xt.items() if k not in ("samples", "cmd", "trace_cmd")},
        "trace_states": ct["trace_states"] + xt["trace_states"],
        "constants_bound": xt["bound"],
    }
    return chk.finish(cov, [
        "file mtimes are set with os.utime on real files in a scratch directory (virtual clock in half seconds from a fixed epoch)",
        "the prefix binding of a case is gamma (xmlns declarations on the root / on the wrapper element); the model states that "
        "the document does not depend on it",
        "documents are compared after re-serialisation by the independent tokenizer of C17 with <a/> written <a></a>; exact text "
        "(singleton form) is design level (drift)",
        "not modelled: concurrency of TemplateCache (the lock is only observed to be free after every call), the template's own "
        "DOCTYPE and comments (dropped without PyXML's LexicalHandler)",
    ])
