"""C17 - simpleTAL executes templates according to TAL/TALES semantics.

Design model: spec/TALES + TALCompile + TALVM (one action per opcode) checked against the reference
semantics spec/TALSem by MC_C17 (invariants WellFormed, Terminates, Completes, Refines).
B1: opcode numbers and HTML_FORBIDDEN_ENDTAG are imported from the tree under test into the TLC cfg.
B2: exactly the cases TLC explored (written by the model's POSTCONDITION) are rendered to template text,
    compiled by the REAL compiler and expanded by the REAL interpreter under a tracing interpreter subclass.
B3: every run is validated by TLC against spec/trace/TraceC17.tla.

The case space is cut into independent PARTS (family group x context x slice of the product); each part
is a pipeline model-check -> real runs -> trace validation executed in its own worker process (TLC with
one worker: its string table is a global lock), so memory stays bounded and the parts run side by side."""
from __future__ import annotations

import hashlib
import json
import os
import random
import shutil

from harness import core, tlc

# TLC evaluates the (lazily nested) compile states of larger templates recursively: give its threads room
if "-Xss" not in os.environ.get("JAVA_TOOL_OPTIONS", ""):
    os.environ["JAVA_TOOL_OPTIONS"] = (os.environ.get("JAVA_TOOL_OPTIONS", "") + " -Xss64m").strip()
# many TLC processes run side by side (one worker each): keep each JVM small
os.environ.setdefault("VERIF_TLC_XMX", "3g")

MC_CFG = """SPECIFICATION Spec
CONSTANTS
%(consts)s
  Quick = %(quick)s
  Families = {%(fams)s}
  CtxIds = {"%(ctx)s"}
  EscLen = %(esclen)d
  NParts = %(nparts)d
  Part = %(part)d
  MaxSteps = 600
  KnownRawTextEscaped = %(known_rte)s
%(invs)s
POSTCONDITION WriteCases
CHECK_DEADLOCK FALSE
"""
INVS17 = ["WellFormed", "Terminates", "Completes", "Refines"]
TRACE_CFG = """SPECIFICATION %(spec)s
CONSTANTS
%(consts)s
CONSTRAINT Record
POSTCONDITION Post
CHECK_DEADLOCK FALSE
"""
# family groups and the number of slices each group is split into (product families only)
TIERS = {
    "quick": dict(parts=[(["expr", "void", "deep", "metalx"], 1), (["one"], 3), (["nest"], 3), (["metal"], 2)], ctxs=["A"]),
    "thorough": dict(parts=[(["expr", "void", "deep", "metalx"], 1), (["one"], 6), (["nest"], 24), (["metal"], 3)], ctxs=["A", "B"]),
}
OWN_CTX = ("esc", "doc", "py")          # families that bring their own context


def procs():
    return int(os.environ.get("VERIF_PROCS") or 16)


def known_flag(chk, clause):
    return any((f.get("match") or {}).get("clause") == clause for f in chk.known)


def _retry(fn, tries=3):
    """A TLC process that vanishes without an error message (killed from outside: the machine is shared) is
    machinery, not a verdict: run it again."""
    for k in range(tries):
        try:
            return fn()
        except tlc.TLCError as e:
            tail = str(e).split("Starting...")[-1]
            if k == tries - 1 or "rror" in tail or "timeout" in str(e):
                raise


def make_jobs(parts, ctxs, **common):
    jobs = []
    for fams, nparts in parts:
        for cx in (ctxs[:1] if all(f in OWN_CTX for f in fams) else ctxs):
            for part in range(nparts):
                jobs.append(dict(common, fams=list(fams), ctx=cx, nparts=nparts, part=part))
    return jobs


# ---- one part: model-check -> real runs -> trace validation (runs in a worker process) ----------------------------
def model_check_part(job):
    """-> (result of TLC, cases, contexts)"""
    cfg = MC_CFG % dict(consts=job["consts_text"], fams=", ".join('"%s"' % f for f in job["fams"]), ctx=job["ctx"],
                        esclen=job.get("esclen", 2), nparts=job["nparts"], part=job["part"],
                        quick="TRUE" if job["quick"] else "FALSE",
                        known_rte="TRUE" if job["known_rte"] else "FALSE",
                        invs="\n".join("INVARIANT " + x for x in job["invs"]))
    module = job["module"]
    sd = tlc.new_scratch("c17cases")
    cf = os.path.join(sd, "cases.json")
    try:
        res = _retry(lambda: tlc.check_model(module, module + "_run.cfg", extra_files={module + "_run.cfg": cfg}, workers=1,
                                             env={"CASES_FILE": cf}, timeout=job.get("timeout", 6000), coverage=False))
        data = {"cases": [], "contexts": {}}
        if os.path.exists(cf):
            with open(cf) as fp:
                data = json.load(fp)
        elif not res["inv_violations"]:
            raise tlc.TLCError("%s %s wrote no cases:\n%s" % (module, job["fams"], res["out"][-2000:]))
        return res, data["cases"], data["contexts"]
    finally:
        shutil.rmtree(sd, ignore_errors=True)


def case_key(run):
    i = run["init"]
    ents = json.dumps(i["ctx"]["ents"], sort_keys=True)
    return "ctx=%s%s|py=%d|%s" % (i["ctx"]["id"], "" if i["ctx"]["ents"] == [] else "+" + hashlib.sha1(ents.encode()).hexdigest()[:8],
                                  int(i["py"]), run["text"])


def validate(module, spec, runs, contexts, consts_text, chunk=1500, timeout=6000):
    """B3: TLC validates the recorded traces (chunk after chunk)."""
    traces = [{"id": n, "init": r["init"], "events": r["events"], "final": r["final"]} for n, r in enumerate(runs)]
    cfg = TRACE_CFG % dict(spec=spec, consts=consts_text)
    extra = {module + "_run.cfg": cfg, "c17_ctx.json": json.dumps(contexts)}
    out = {"accepted": 0, "rejected": [], "drift": [], "states": 0, "generated": 0, "cmd": "", "wall_s": 0.0}
    for off in range(0, len(traces), chunk):
        part = traces[off:off + chunk]
        tv = _retry(lambda: tlc.validate_traces(module, module + "_run.cfg", part, timeout=timeout, extra_files=extra, chunk=len(part) + 1))
        for rj in tv["rejected"]:
            rj["index"] += off
            rj.pop("trace", None)
        for d in tv["drift"]:
            d["index"] += off
        out["accepted"] += tv["accepted"]
        out["rejected"] += tv["rejected"]
        out["drift"] += tv["drift"]
        out["states"] += tv["states"]
        out["generated"] += tv["generated"]
        out["cmd"] = tv["cmd"]
        out["wall_s"] += tv["wall_s"]
    return out


def _slim(r):
    return {"text": r["text"], "init": {k: r["init"][k] for k in ("tree", "ctx", "py", "fam", "var", "kind")},
            "final": {k: v for k, v in r["final"].items() if k != "toks"}, "events": r["events"][:200]}


def pipeline(job):
    from harness import c17_tal
    res, cases, contexts = model_check_part(job)
    label = "%s[%s/%s %d/%d]" % (job["module"], "+".join(job["fams"]), job["ctx"], job["part"], job["nparts"])
    out = {"label": label, "states": res["distinct"], "generated": res["generated"], "mc_cmd": res["cmd"], "mc_wall": res["wall_s"],
           "inv": [(label, res["inv_violations"], res["out"][-3000:])] if res["inv_violations"] else []}
    random.Random(job["seed"]).shuffle(cases)
    consts = job["consts"]
    runs = [c17_tal.run_case(c, contexts, consts, want_tokens=job["want_tokens"], second=c.get("fam") == "doc") for c in cases]
    extra = job.get("extra_runs")
    if extra:
        runs += extra(cases, consts)
    tv = validate(job["trace_module"], job["trace_spec"], runs, contexts, job["consts_text"])
    out.update(
        n_cases=len(runs), n_events=sum(len(r["events"]) for r in runs), opcodes=sorted({e[1] for r in runs for e in r["events"]}),
        accepted=tv["accepted"], trace_states=tv["states"], trace_cmd=tv["cmd"], trace_wall=tv["wall_s"],
        rejected=[{"clause": rj["clause"], "at": rj["at"], "run": _slim(runs[rj["index"]])} for rj in tv["rejected"]],
        drift=[{"what": d["what"], "at": d["at"], "template": runs[d["index"]]["text"][:300]} for d in tv["drift"][:50]],
        n_drift=len({d["index"] for d in tv["drift"]}),
        samples=[{"template": r["text"], "ctx": r["init"]["ctx"]["id"], "doc": r["final"]["doc"],
                  "opcodes": [e[1] for e in r["events"]][:40]} for r in runs[:2]],
        families=sorted({c["fam"] for c in cases}), contexts=sorted(contexts.keys()),
        unobs=sorted({u for r in runs for u in r["final"].get("unobs", [])}))
    measure = job.get("measure")
    if measure:
        out["measure"] = measure(runs, consts)
    return out


def measure17(runs, consts):
    """distinct non-trivial cases of C17 (as hashes, united by the parent)"""
    out = set()
    for r in runs:
        if r["final"]["doc"] and any(e[1] not in (0, consts["TAL_OUTPUT"]) for e in r["events"]):
            out.add(hashlib.sha1((r["text"] + "|" + r["init"]["ctx"]["id"]).encode()).digest()[:8])
    return {"nontrivial": out}


def run_parts(jobs):
    """all parts, biggest first, in forked worker processes; results in job order"""
    import multiprocessing as mp
    order = sorted(range(len(jobs)), key=lambda i: -jobs[i]["nparts"])
    n = max(1, min(procs(), len(jobs)))
    if len(jobs) == 1:
        return [pipeline(jobs[0])]
    ctx = mp.get_context("fork")
    with ctx.Pool(n, maxtasksperchild=1) as pool:
        res = pool.map(pipeline, [jobs[i] for i in order], chunksize=1)
    out = [None] * len(jobs)
    for i, r in zip(order, res):
        out[i] = r
    return out


def collect(chk, results):
    """verdicts and totals from the part summaries"""
    tot = {"states": 0, "generated": 0, "cases": 0, "events": 0, "accepted": 0, "rejected": 0, "trace_states": 0,
           "unobs": set(), "opcodes": set(), "mc_cmd": "", "trace_cmd": "", "mc_wall": 0.0, "trace_wall": 0.0, "samples": [], "families": set(),
           "n_drift": 0}
    drift = []
    for r in results:
        for k, src in (("states", "states"), ("generated", "generated"), ("cases", "n_cases"), ("events", "n_events"),
                       ("accepted", "accepted"), ("trace_states", "trace_states"), ("n_drift", "n_drift")):
            tot[k] += r[src]
        tot["rejected"] += len(r["rejected"])
        tot["opcodes"] |= set(r["opcodes"])
        tot["unobs"] |= set(r.get("unobs", []))
        tot["families"] |= set(r["families"])
        tot["mc_cmd"], tot["trace_cmd"] = r["mc_cmd"], r["trace_cmd"] or tot["trace_cmd"]
        tot["mc_wall"] += r["mc_wall"]
        tot["trace_wall"] += r["trace_wall"]
        if len(tot["samples"]) < 4:
            tot["samples"] += r["samples"][:1]
        for label, names, tail in r["inv"]:
            chk.model_violation(label, names, tail)
        for rj in r["rejected"]:
            run = rj["run"]
            key = "%s|%s" % (rj["clause"], case_key(run))
            i = run["init"]
            case = {"tree": i["tree"], "ctx": i["ctx"], "py": i["py"], "fam": i["fam"], "var": i["var"], "kind": i["kind"],
                    "template": run["text"]}
            chk.violation(key, rj["clause"], case, {"final": run["final"], "events": run["events"], "rejected_at_event": rj["at"]})
        drift += r["drift"]
    if tot["unobs"]:          # internals the observation code could not read: design-level binding weakened, never a verdict
        drift.insert(0, {"what": "interpreter/Context internals not observable (logged as unknown): %s" % sorted(tot["unobs"]), "at": 0,
                         "template": ""})
    chk.note_drift(drift[:200])
    return tot


def load_replay(replay):
    with open(replay) as fp:
        c = json.load(fp)["case"]
    return {"fam": c.get("fam", ""), "tree": c["tree"], "ctx": c["ctx"], "py": c["py"], "var": c.get("var", 0), "kind": c.get("kind", "direct")}


def common_job(chk, consts_text, consts, **kw):
    job = dict(consts_text=consts_text, consts=consts, seed=chk.seed, quick=chk.tier == "quick",
               known_rte=known_flag(chk, "RawTextEscaped"),
               module="MC_C17", invs=INVS17, trace_module="TraceC17", trace_spec="TSpec", want_tokens=False, esclen=2)
    job.update(kw)
    return job


def replay_result(case, contexts_job, trace_module, trace_spec, want_tokens=False, runs=None):
    """re-run exactly one stored case (the small model run only supplies the named contexts) -> a part summary"""
    from harness import c17_tal
    res, _cases, contexts = model_check_part(contexts_job)
    if runs is None:
        runs = [c17_tal.run_case(case, contexts, contexts_job["consts"], want_tokens=want_tokens, second=case.get("fam") == "doc")]
    tv = validate(trace_module, trace_spec, runs, contexts, contexts_job["consts_text"])
    return {"label": "replay", "states": res["distinct"], "generated": res["generated"], "mc_cmd": res["cmd"], "mc_wall": res["wall_s"],
            "inv": [], "n_cases": 1, "n_events": len(runs[0]["events"]), "opcodes": sorted({e[1] for e in runs[0]["events"]}),
            "accepted": tv["accepted"], "trace_states": tv["states"], "trace_cmd": tv["cmd"], "trace_wall": tv["wall_s"],
            "rejected": [{"clause": rj["clause"], "at": rj["at"], "run": _slim(runs[0])} for rj in tv["rejected"]],
            "drift": [{"what": d["what"], "at": d["at"], "template": runs[0]["text"][:300]} for d in tv["drift"]],
            "n_drift": len(tv["drift"][:1]), "samples": [], "families": [case["fam"]], "contexts": [], "runs": runs,
            "unobs": sorted({u for r in runs for u in r["final"].get("unobs", [])})}


def selftest():
    """Binding demonstration: corrupt one recorded field / drop one event and show TraceC17 rejects or flags it."""
    from harness import c17_tal
    consts_text, consts, _ = c17_tal.import_constants()
    P = lambda s: {"k": "path", "s": s, "a": []}     # noqa: E731
    tree = [{"k": "el", "tag": "p", "text": "", "atts": [{"n": "id", "v": "i"}], "kids": [{"k": "text", "tag": "", "text": "t", "atts": [], "tal": [], "kids": []}],
             "tal": [{"c": "repeat", "name": "x", "e": P("xs"), "items": [], "flag": False},
                     {"c": "content", "name": "", "e": P("x"), "items": [], "flag": False}]}]
    V = c17_tal.V
    case = {"fam": "selftest", "tree": tree, "py": False, "var": 0,
            "ctx": {"id": "none", "ents": [V("ent", s="xs", q=[V("seq", q=[V("str", s="a<"), V("str", s="b")])])]}}
    good = c17_tal.run_case(case, {}, consts)
    bad_doc = json.loads(json.dumps(good))
    bad_doc["final"]["doc"] = bad_doc["final"]["doc"].replace("&lt;", "<")
    bad_doc["final"]["cdoc"] = bad_doc["final"]["cdoc"].replace("a&lt;", "a")
    dropped = json.loads(json.dumps(good))
    del dropped["events"][3]
    bad_sym = json.loads(json.dumps(good))
    bad_sym["init"]["symt"][0]["at"] -= 1
    tv = validate("TraceC17", "TSpec", [good, bad_doc, dropped, bad_sym], {}, consts_text)
    rej = {r["index"]: r["clause"] for r in tv["rejected"]}
    dr = {d["index"] for d in tv["drift"]}
    ok = (0 not in rej and 0 not in dr and rej.get(1) == "Refines" and 2 in dr and 2 not in rej and rej.get(3) == "WellFormedProg")
    return ok, {"rejected": rej, "drift": sorted(dr)}


def main(chk, replay=None):
    from harness import c17_tal
    t = TIERS[chk.tier]
    consts_text, consts, bound = c17_tal.import_constants()
    common = common_job(chk, consts_text, consts, measure=measure17)
    if replay:
        case = load_replay(replay)
        cjob = dict(common, fams=["void"], ctx=case["ctx"]["id"] if case["ctx"]["id"] != "none" else "A", nparts=1, part=0)
        r = replay_result(case, cjob, "TraceC17", "TSpec")
        r["measure"] = measure17(r.pop("runs"), consts)
        results = [r]
    else:
        results = run_parts(make_jobs(t["parts"], t["ctxs"], **common))
    tot = collect(chk, results)
    if not replay:
        if tot["events"] == 0:
            raise core.MachineryError("C17: the tracing interpreter logged no opcode at all: interpreter= binding not exercised")
        # every opcode handler must have been exercised (the trace spec replays each event as the TALVM action of that opcode)
        need = [consts[n] for n in c17_tal.OPNAMES if n not in ("TAL_REPLACE", "TAL_NOOP", "METAL_FILL_SLOT", "METAL_DEFINE_MACRO")] + [0]
        idle = [o for o in need if o not in tot["opcodes"]]
        if idle and not chk.violations:
            raise core.MachineryError("C17: opcode handlers never exercised: %s" % idle)
    nontrivial = set()
    for r in results:
        nontrivial |= r.get("measure", {}).get("nontrivial", set())
    cov = {
        "states": tot["states"], "transitions": tot["generated"], "exhaustive": True,
        "traces_validated_against_impl": tot["accepted"], "traces_rejected": tot["rejected"],
        "evaluations": tot["cases"], "distinct_nontrivial": len(nontrivial),
        "rule": "cases = every (template tree, context) TLC enumerated in MC_C17 for the family groups %s x contexts %s "
                "(the set written by the model's POSTCONDITION); non-trivial = distinct (template text, context) whose real "
                "run executed at least one TAL/METAL opcode other than OUTPUT and produced a non-empty document"
                % (t["parts"], t["ctxs"]),
        "samples": tot["samples"],
        "checker_cmd": tot["mc_cmd"] + " ; " + tot["trace_cmd"],
        "opcode_events": tot["events"], "opcodes_seen": sorted(tot["opcodes"]), "trace_states": tot["trace_states"],
        "model_drift": tot["n_drift"],
        "constants_bound": bound, "constants": {k: v for k, v in consts.items() if k != "VoidTags"},
        "families": sorted(tot["families"]), "parts": len(results),
        "model_cpu_s": round(tot["mc_wall"], 1), "trace_cpu_s": round(tot["trace_wall"], 1),
        "bindings": ["B1 opcode numbers + HTML_FORBIDDEN_ENDTAG imported into the TLC cfg", "B2 every TLC case compiled and expanded by the real simpleTAL",
                     "B3 TraceC17 (opcode trace vs TALVM = drift; document vs TALSem, program vs WellFormedProg = property)"],
    }
    return chk.finish(cov, [
        "reference semantics = DESIGN.md Appendix E.4 (spec/TALSem.tla); where E.4 is silent the grammar does not go "
        "(other commands on an element whose use-macro is nothing, alternation under exists:, prefixed non-final alternatives, "
        "the `length` of an iterator repeat)",
        "gamma renders trees to HTML template text (harness/c17_tal.py); sequences/mappings/iterables/callables of the context "
        "are Python objects with a fixed __str__ so that str() of every value is defined",
        "the document is compared raw and, alternatively, re-serialised from an independent tokenizer (escape style and "
        "whitespace inside tags are not constrained)",
    ])
