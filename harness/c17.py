"""C17 - simpleTAL executes templates according to TAL/TALES semantics.

Design model: spec/TALES + TALCompile + TALVM (one action per opcode) checked against the reference
semantics spec/TALSem by MC_C17 (invariants WellFormed, Terminates, Completes, Refines), one TLC process
per family part.  B1: opcode numbers and HTML_FORBIDDEN_ENDTAG are imported from the tree under test into
the TLC configuration.  B2: exactly the cases TLC explored (written by the model's POSTCONDITION) are
rendered to template text, compiled by the REAL compiler and expanded by the REAL interpreter under a
tracing interpreter subclass.  B3: every run is validated by TLC against spec/trace/TraceC17.tla."""
from __future__ import annotations

import hashlib
import json
import os
import random
from concurrent.futures import ThreadPoolExecutor

from harness import core, tlc

# TLC evaluates the (lazily nested) compile states of larger templates recursively: give its threads room
if "-Xss" not in os.environ.get("JAVA_TOOL_OPTIONS", ""):
    os.environ["JAVA_TOOL_OPTIONS"] = (os.environ.get("JAVA_TOOL_OPTIONS", "") + " -Xss64m").strip()

MC_CFG = """SPECIFICATION Spec
CONSTANTS
%(consts)s
  Quick = %(quick)s
  Families = {%(fams)s}
  CtxIds = {%(ctxs)s}
  EscLen = %(esclen)d
  NParts = %(nparts)d
  Part = %(part)d
  MaxSteps = 600
  KnownRepeatOverMapping = %(known)s
%(invs)s
POSTCONDITION WriteCases
CHECK_DEADLOCK FALSE
"""
INVS17 = ["WellFormed", "Terminates", "Completes", "Refines"]
TRACE_CFG = """SPECIFICATION %(spec)s
CONSTANTS
%(consts)s
CONSTRAINT Record
POSTCONDITION Post
CHECK_DEADLOCK FALSE
"""

# family groups and the number of TLC processes each group is split over (product families only)
TIERS = {
    "quick": dict(parts=[(["expr", "void", "deep", "metalx"], 1), (["one"], 3), (["nest"], 3), (["metal"], 2)], ctxs=["A"]),
    "thorough": dict(parts=[(["expr", "void", "deep", "metalx"], 1), (["one"], 4), (["nest"], 12), (["metal"], 2)], ctxs=["A", "B"]),
}


def procs():
    return int(os.environ.get("VERIF_PROCS") or 16)


def known_flag(chk, clause):
    return any((f.get("match") or {}).get("clause") == clause for f in chk.known)


def model_check(chk, parts, ctxs, invs, consts_text, esclen=2, timeout=3000, quick=None, module="MC_C17"):
    """One TLC process (1 worker: TLC's string table is a global lock) per family part, in parallel.
    -> (cases, contexts, totals)"""
    known = "TRUE" if known_flag(chk, "RepeatOverMapping") else "FALSE"
    quick = (chk.tier == "quick") if quick is None else quick
    jobs = []
    for fams, nparts in parts:
        own_ctx = all(f in ("esc", "doc", "py") for f in fams)      # families that bring their own context
        for cx in (ctxs[:1] if own_ctx else ctxs):
            for part in range(nparts):
                jobs.append((fams, cx, nparts, part))
    jobs.sort(key=lambda j: -j[2])          # the split (big) families first

    def one(job):
        fams, cx, nparts, part = job
        cfg = MC_CFG % dict(consts=consts_text, fams=", ".join('"%s"' % f for f in fams), ctxs='"%s"' % cx, esclen=esclen,
                            nparts=nparts, part=part,
                            quick="TRUE" if quick else "FALSE", known=known, invs="\n".join("INVARIANT " + x for x in invs))
        sd = tlc.new_scratch("c17cases")
        cf = os.path.join(sd, "cases.json")
        try:
            res = tlc.check_model(module, module + "_run.cfg", extra_files={module + "_run.cfg": cfg}, workers=1,
                                  env={"CASES_FILE": cf}, timeout=timeout, coverage=False)
            data = None
            if os.path.exists(cf):
                with open(cf) as fp:
                    data = json.load(fp)
            return fams + ["%d/%d" % (part, nparts)], cx, res, data
        finally:
            import shutil
            shutil.rmtree(sd, ignore_errors=True)

    with ThreadPoolExecutor(max_workers=max(1, min(procs(), len(jobs)))) as ex:
        results = list(ex.map(one, jobs))
    cases, contexts = [], {}
    tot = {"distinct": 0, "generated": 0, "cmd": "", "wall": 0.0, "inv": [], "actions": {}}
    for fams, cx, res, data in results:
        tot["distinct"] += res["distinct"]
        tot["generated"] += res["generated"]
        tot["cmd"] = res["cmd"]
        tot["wall"] = max(tot["wall"], res["wall_s"])
        for k, v in (res.get("coverage") or {}).items():
            name = k.split("@")[0]
            if name.startswith("Cmd") or name in ("SubReturn", "EndTagResume", "Load"):
                tot["actions"][name] = tot["actions"].get(name, 0) + v[0]
        if res["inv_violations"]:
            tot["inv"].append((fams, cx, res["inv_violations"], res["out"][-3000:]))
            chk.model_violation("%s[%s/%s]" % (module, "+".join(fams), cx), res["inv_violations"], res["out"][-3000:])
        elif data is None:
            raise tlc.TLCError("%s %s wrote no cases:\n%s" % (module, fams, res["out"][-2000:]))
        if data:
            cases.extend(data["cases"])
            contexts.update(data["contexts"])
    return cases, contexts, tot


# ---- spec -> code ----------------------------------------------------------------------------------------------
_W = {}


def _init_worker():
    from harness import c17_tal
    c17_tal.st_modules()


def _run(job):
    from harness import c17_tal
    case, contexts, consts, want_tokens = job
    return c17_tal.run_case(case, contexts, consts, want_tokens=want_tokens, second=case.get("fam") == "doc")


def run_cases(cases, contexts, consts, want_tokens=False):
    from harness.c17_tal import pool_map
    used = {c["ctx"]["id"] for c in cases}
    small = {k: v for k, v in contexts.items() if k in used}
    jobs = [(c, small, consts, want_tokens) for c in cases]
    if len(jobs) < 50:
        _init_worker()
        return [_run(j) for j in jobs]
    return pool_map(_run, jobs, _init_worker, procs=procs())


def case_key(run):
    i = run["init"]
    ents = json.dumps(i["ctx"]["ents"], sort_keys=True)
    return "ctx=%s%s|py=%d|%s" % (i["ctx"]["id"], "" if i["ctx"]["ents"] == [] else "+" + hashlib.sha1(ents.encode()).hexdigest()[:8],
                                  int(i["py"]), run["text"])


def validate(module, spec, runs, contexts, consts_text, chunk=1500, timeout=3000):
    """B3: TLC validates the recorded traces, several TLC processes side by side."""
    traces = [{"id": n, "init": r["init"], "events": r["events"], "final": r["final"]} for n, r in enumerate(runs)]
    cfg = TRACE_CFG % dict(spec=spec, consts=consts_text)
    extra = {module + "_run.cfg": cfg, "c17_ctx.json": json.dumps(contexts)}
    chunks = [(off, traces[off:off + chunk]) for off in range(0, len(traces), chunk)]

    def one(item):
        off, part = item
        tv = tlc.validate_traces(module, module + "_run.cfg", part, timeout=timeout, extra_files=extra, chunk=len(part) + 1)
        for rj in tv["rejected"]:
            rj["index"] += off
        for d in tv["drift"]:
            d["index"] += off
        return tv

    with ThreadPoolExecutor(max_workers=max(1, min(procs(), len(chunks)))) as ex:
        parts = list(ex.map(one, chunks))
    out = {"accepted": 0, "rejected": [], "drift": [], "states": 0, "generated": 0, "cmd": "", "wall_s": 0.0}
    for tv in parts:
        out["accepted"] += tv["accepted"]
        out["rejected"] += tv["rejected"]
        out["drift"] += tv["drift"]
        out["states"] += tv["states"]
        out["generated"] += tv["generated"]
        out["cmd"] = tv["cmd"]
        out["wall_s"] = max(out["wall_s"], tv["wall_s"])
    return out


def report(chk, runs, tv):
    for rj in tv["rejected"]:
        r = runs[rj["index"]]
        key = "%s|%s" % (rj["clause"], case_key(r))
        case = {"tree": r["init"]["tree"], "ctx": r["init"]["ctx"], "py": r["init"]["py"], "fam": r["init"].get("fam", ""),
                "var": r["init"].get("var", 0), "kind": r["init"].get("kind", "direct"), "template": r["text"]}
        chk.violation(key, rj["clause"], case, {"final": {k: v for k, v in r["final"].items() if k != "toks"},
                                                "events": r["events"][:200], "rejected_at_event": rj["at"]})
    seen = set()
    drift = []
    for d in tv["drift"]:
        if d["index"] in seen:
            continue
        seen.add(d["index"])
        drift.append({"what": d["what"], "at": d["at"], "template": runs[d["index"]]["text"][:300]})
    chk.note_drift(drift)


def load_replay(replay):
    with open(replay) as fp:
        rp = json.load(fp)
    c = rp["case"]
    return [{"fam": c.get("fam", ""), "tree": c["tree"], "ctx": c["ctx"], "py": c["py"], "var": c.get("var", 0)}]


def selftest():
    """Binding demonstration: corrupt one recorded field / drop one event and show TraceC17 rejects or flags it."""
    from harness import c17_tal
    consts_text, consts, _ = c17_tal.import_constants()
    P = lambda s: {"k": "path", "s": s, "a": []}     # noqa: E731
    tree = [{"k": "el", "tag": "p", "text": "", "atts": [{"n": "id", "v": "i"}], "kids": [{"k": "text", "tag": "", "text": "t", "atts": [], "tal": [], "kids": []}],
             "tal": [{"c": "repeat", "name": "x", "e": P("xs"), "items": [], "flag": False},
                     {"c": "content", "name": "", "e": P("x"), "items": [], "flag": False}]}]
    V = c17_tal.V
    case = {"fam": "selftest", "tree": tree, "py": False,
            "ctx": {"id": "none", "ents": [V("ent", s="xs", q=[V("seq", q=[V("str", s="a<"), V("str", s="b")])])]}}
    good = c17_tal.run_case(case, {}, consts)
    bad_doc = json.loads(json.dumps(good))
    bad_doc["final"]["doc"] = bad_doc["final"]["doc"].replace("&lt;", "<")
    bad_doc["final"]["cdoc"] = bad_doc["final"]["cdoc"].replace("a&lt;", "a")
    dropped = json.loads(json.dumps(good))
    del dropped["events"][3]
    bad_sym = json.loads(json.dumps(good))
    bad_sym["init"]["symt"][0]["at"] -= 1
    tv = validate("TraceC17", "TSpec", [good, bad_doc, dropped, bad_sym], {}, consts_text)
    rej = {r["index"]: r["clause"] for r in tv["rejected"]}
    dr = {d["index"] for d in tv["drift"]}
    ok = (0 not in rej and 0 not in dr and rej.get(1) == "Refines" and 2 in dr and 2 not in rej and rej.get(3) == "WellFormedProg")
    return ok, {"rejected": rej, "drift": sorted(dr)}


def main(chk, replay=None):
    from harness import c17_tal
    t = TIERS[chk.tier]
    consts_text, consts, bound = c17_tal.import_constants()
    if replay:
        cases, contexts = load_replay(replay), {}
        _c, contexts, tot = model_check(chk, [(["void"], 1)], t["ctxs"], INVS17, consts_text)
    else:
        cases, contexts, tot = model_check(chk, t["parts"], t["ctxs"], INVS17, consts_text)
    random.Random(chk.seed).shuffle(cases)
    runs = run_cases(cases, contexts, consts)
    nev = sum(len(r["events"]) for r in runs)
    if runs and nev == 0:
        raise core.MachineryError("C17: the tracing interpreter logged no opcode at all: interpreter= binding not exercised")
    # every opcode handler must have been exercised (the trace spec replays each event as the TALVM action of that opcode)
    need = [consts[n] for n in c17_tal.OPNAMES if n not in ("TAL_REPLACE", "TAL_NOOP", "METAL_FILL_SLOT", "METAL_DEFINE_MACRO")] + [0]
    seen_ops = {e[1] for r in runs for e in r["events"]}
    if not replay and [o for o in need if o not in seen_ops]:
        raise core.MachineryError("C17: opcode handlers never exercised: %s" % [o for o in need if o not in seen_ops])
    tv = validate("TraceC17", "TSpec", runs, contexts, consts_text)
    report(chk, runs, tv)
    nontrivial = len({r["text"] + "|" + r["init"]["ctx"]["id"] for r in runs
                      if any(e[1] not in (0, consts["TAL_OUTPUT"]) for e in r["events"]) and r["final"]["doc"]})
    opcodes = sorted({e[1] for r in runs for e in r["events"]})
    cov = {
        "states": tot["distinct"], "transitions": tot["generated"], "exhaustive": True,
        "traces_validated_against_impl": tv["accepted"], "traces_rejected": len(tv["rejected"]),
        "evaluations": len(runs), "distinct_nontrivial": nontrivial,
        "rule": "cases = every (template tree, context) TLC enumerated in MC_C17 for the family parts %s x contexts %s "
                "(the set written by the model's POSTCONDITION); non-trivial = distinct (template text, context) whose real "
                "run executed at least one TAL/METAL opcode other than OUTPUT and produced a non-empty document"
                % (t["parts"], t["ctxs"]),
        "samples": [{"template": r["text"], "ctx": r["init"]["ctx"]["id"], "doc": r["final"]["doc"], "opcodes": [e[1] for e in r["events"]][:40]}
                    for r in runs[:3]],
        "checker_cmd": tot["cmd"] + " ; " + tv["cmd"],
        "opcode_events": nev, "opcodes_seen": opcodes, "trace_states": tv["states"],
        "constants_bound": bound, "constants": {k: v for k, v in consts.items() if k != "VoidTags"},
        "families": sorted({c["fam"] for c in cases}),
        "model_wall_s": tot["wall"], "trace_wall_s": tv["wall_s"],
        "bindings": ["B1 opcode numbers + HTML_FORBIDDEN_ENDTAG imported into the TLC cfg", "B2 every TLC case compiled and expanded by the real simpleTAL",
                     "B3 TraceC17 (opcode trace vs TALVM = drift; document vs TALSem, program vs WellFormedProg = property)"],
    }
    return chk.finish(cov, [
        "reference semantics = DESIGN.md Appendix E.4 (spec/TALSem.tla); where E.4 is silent the grammar does not go "
        "(other commands on an element whose use-macro is nothing, alternation under exists:, prefixed non-final alternatives)",
        "gamma renders trees to HTML template text (harness/c17_tal.py); sequences/mappings/iterables/callables of the context "
        "are Python objects with a fixed __str__ so that str() of every value is defined",
        "the document is compared raw and, alternatively, re-serialised from an independent tokenizer (escape style and "
        "whitespace inside tags are not constrained)",
    ])
