"""XTALH - the server-side template handler (handlers/tal.py: TALFileHandler, TALLoader, RecursiveTALLoader).

Design model spec/TalHandler.tla, bounded instance spec/MC_XTALH.tla: TLC enumerates directory trees x template place x
file name/kind x template shape x loader walk x request form x configuration.  B2: every case TLC finished (pc = "done")
is built as a real document root and requested through the real server (World.request) under an audit hook for opens;
B3: spec/trace/TraceXTALH.tla judges every recorded run.  gamma (case -> files/bytes) and alpha (bytes -> lexed
observation) only; no property logic here."""
from __future__ import annotations

import ast
import html
import json
import os
import re
import shutil
import sys
import tempfile

from harness import core, tlaparse, tlc

HANDLERS = "[tal.TALFileHandler, html.HTMLFileTitleHandler, UMN.UMNDirHandler, file.FileHandler]"
SWITCHES = ("KeyChecked", "CompileInPrepare", "SizeUnknown", "InnerTypeOptional")
INVS = ["ModelClaimRule", "ModelContained", "ModelTerminates", "ModelOneReply", "ModelLengthHonest", "ModelListing",
        "ModelAgrees", "ModelNearestWins"]
# switch as coded -> the design invariant that must then FAIL (vacuity witness of the switch)
WITNESS = {"KeyChecked": "ModelContained", "CompileInPrepare": "ModelOneReply", "SizeUnknown": "ModelLengthHonest",
           "InnerTypeOptional": "ModelOneReply"}
UNTYPED = ("t.tal", "t.zz.tal")          # names of MC_XTALH whose inner name has no MIME type (tag for finding matchers)

VARS = [("selector", "selector"), ("talbasename", "talbasename"), ("mimetype", "entry/mimetype"), ("gtype", "entry/gettype"),
        ("allowpy", "allowpythonpath"), ("protocol", "protocol"), ("handler", "handler"), ("dirp", "dir/getpath"),
        ("rdirp", "rdir/getpath"), ("rootp", "root/getpath"), ("rrootp", "rroot/getpath"), ("parentp", "dir/getparent/getpath"),
        ("rootparent", "root/getparent/getpath"), ("kids", "dir/getchildrennames")]


# ---------------------------------------------------------------------------------------- gamma
def template_text(c):
    s = c["shape"]
    if s in ("vars", "raw"):
        mid = "".join('<i id="%s" tal:content="%s">x</i>' % kv for kv in VARS)
    elif s == "use":
        mid = '<div metal:use-macro="%s/macros/m">dflt</div>' % "/".join([c["ldr"]] + list(c["walk"]))
    elif s == "syntax":
        mid = '<p tal:content="selector">x</b></i>'
    elif s == "pyexc":
        mid = '<i id="py" tal:content="python:1/0">x</i>'
    elif s == "nomacro":
        mid = '<div metal:use-macro="rdir/zz/macros/m">dflt</div>'
    else:
        raise core.MachineryError("unknown shape %r" % (s,))
    return "<p>before</p>" + mid + "<p>after</p>"


def macro_text(ident):
    return '<b metal:define-macro="m">M@%s;</b>' % ident


def pathstr(p):
    return "/" + "/".join(p)


def build_tree(w, c):
    w.clear()
    w.mkdir("a/b")
    w.write("ok.txt", b"OKFILE\n")
    mdirs = [list(d) for d in c["macroAt"]]
    if c["dirm"]:
        w.mkdir("a/m")
        mdirs.append(["a", "m"])
    for d in mdirs:
        w.write("/".join(d + ["m.html.tal"]), macro_text("in:" + pathstr(d)))
    rel = "/".join(list(c["loc"]) + [c["name"]])
    if c["kind"] == "file":
        w.write(rel, template_text(c))
    elif c["kind"] == "dir":
        w.mkdir(rel)
        w.write(rel + "/inside.txt", b"x\n")


def request_bytes(c):
    sel = pathstr(list(c["loc"]) + [c["name"]])
    d = pathstr(list(c["loc"]))
    return {"g": b"%s\r\n", "gp": b"%s\t+\r\n", "gi": b"%s\t!\r\n", "http": b"GET %s HTTP/1.0\r\n\r\n",
            "ls": b"%s\r\n", "lsp": b"%s\t$\r\n"}[c["fe"]] % (d if c["fe"] in ("ls", "lsp") else sel).encode()


# ---------------------------------------------------------------------------------------- alpha
_GERR = re.compile(rb"^3[^\t\r\n]*\t[^\t\r\n]*\terror\.host\t1\r\n")


def lex_status(fe, out):
    """-> (status class, announced length or -1, body)"""
    if fe in ("g", "ls"):
        if not out:
            return "none", -1, b""
        return ("error" if _GERR.match(out) else "ok"), -1, out
    if fe in ("gp", "gi", "lsp"):
        m = re.match(rb"^([+-])(-?\d+)\r\n", out)
        if not m:
            return "none", -1, out
        body = out[m.end():]
        if m.group(1) == b"-":
            return "error", -1, body
        if re.search(rb"(^|\r\n)--\d\r\n", body):
            return "mixed", int(m.group(2)), body
        return "ok", int(m.group(2)), body
    m = re.match(rb"^HTTP/1\.\d (\d+) [^\r\n]*\r\n", out)
    if not m:
        return "none", -1, out
    head, sep, body = out.partition(b"\r\n\r\n")
    if not sep:
        return "none", -1, out
    if b"HTTP/1." in body:
        return "mixed", -1, body
    return ("ok" if m.group(1) == b"200" else "error" if m.group(1)[:1] in b"45" else "none"), -1, body


def lex_blocks(body):
    """Gopher+ attribute blocks -> list of (gtype, selector, mime)"""
    res = []
    for blk in body.decode("utf-8", "replace").split("+INFO: ")[1:]:
        line = blk.split("\r\n", 1)[0]
        name = line.split("\t")[0]
        m = re.search(r"\+VIEWS:\r\n ([^ :\r\n]+)", blk)
        res.append((name[:1], (line.split("\t") + [""])[1], m.group(1) if m else ""))
    return res


def lex_reply(c, out):
    fe = c["fe"]
    sel = pathstr(list(c["loc"]) + [c["name"]])          # a listed entry is identified by its selector (titles: XTYPE)
    status, ann, body = lex_status(fe, out)
    text = body.decode("utf-8", "replace")
    ev = {"ev": "reply", "status": status, "announce": ann, "blen": len(body), "mime": "", "gtype": "",
          "vars": {}, "kids": [], "macro": "", "before": "<p>before</p>" in text, "after": "<p>after</p>" in text,
          "raw": ("tal:content" in text or "metal:use-macro" in text), "entry": {"present": False, "gtype": "", "mime": ""}}
    if fe == "http":
        m = re.search(rb"\r\nContent-Type: ([^\r\n;]+)", out.partition(b"\r\n\r\n")[0])
        ev["mime"] = m.group(1).decode() if m else ""
    elif fe == "gi" and status == "ok":
        b = lex_blocks(body)
        if b:
            ev["gtype"], ev["mime"] = b[0][0], b[0][2]
    elif fe == "lsp" and status == "ok":
        for t, n, m in lex_blocks(body):
            if n == sel:
                ev["entry"] = {"present": True, "gtype": t, "mime": m}
                ev["gtype"], ev["mime"] = t, m
    elif fe == "ls" and status == "ok":
        for line in text.split("\r\n"):
            f = line.split("\t")
            if len(f) >= 2 and f[1] == sel:
                ev["entry"] = {"present": True, "gtype": f[0][:1], "mime": ""}
                ev["gtype"] = f[0][:1]
    got = {k: html.unescape(v) for k, v in re.findall(r'<i id="(\w+)">(.*?)</i>', text, re.S)}
    if c["shape"] == "vars" and not ev["raw"] and got:
        v = {}
        for k, _ in VARS:
            s = got.get(k, "?")
            if k in ("protocol", "handler"):
                m = re.match(r"<[\w.]*?(\w+) object at", s)
                s = m.group(1) if m else s
            if k == "allowpy":
                s = s in ("1", "True")
            if k == "kids":
                try:
                    ev["kids"] = sorted(str(x) for x in ast.literal_eval(s))
                except Exception:
                    ev["kids"] = ["?" + s]
                continue
            v[k] = s
        ev["vars"] = v
    m = re.search(r"M@([^;<]*);", text)
    ev["macro"] = m.group(1) if m else ""
    return ev


# ---------------------------------------------------------------------------------------- the real runs
_OPENS = None
_HOOKED = False


def _audit(event, args):
    if _OPENS is not None and event == "open":
        p = args[0]
        if isinstance(p, bytes):
            p = os.fsdecode(p)
        if isinstance(p, str):
            _OPENS.append(p)


def _init_worker():
    global _HOOKED
    if not _HOOKED:
        sys.addaudithook(_audit)
        _HOOKED = True


def file_id(base, root, p):
    rp = os.path.realpath(p)
    if rp == root or rp.startswith(root + "/"):
        return "in:" + (os.path.dirname(rp)[len(root):] or "/")
    return "out"


def run_job(job):
    """one forked worker job: cases sharing a configuration, run on ONE World (real server object)"""
    global _OPENS
    _init_worker()
    cfg, cases = job
    from harness.world import World
    base = tempfile.mkdtemp(prefix="verif-xtalh-", dir=tlc.scratch_root())
    root = os.path.join(base, "root")
    os.mkdir(root)
    with open(os.path.join(base, "m.html.tal"), "w") as fp:           # the bait one level above the document root
        fp.write(macro_text("out"))
    ov = {} if cfg == "absent" else {("handlers.tal.TALFileHandler", "allowpythonpath"): cfg}
    w = World(root=root, handlers=HANDLERS, overrides=ov)
    rroot = os.path.realpath(root)
    traces = []
    hook_seen = 0
    try:
        for c in cases:
            build_tree(w, c)
            own = os.path.realpath(w.path("/".join(list(c["loc"]) + [c["name"]])))
            _OPENS = []
            r = w.request(request_bytes(c))
            opened, _OPENS = _OPENS, None
            hook_seen += len(opened)
            tal = [p for p in opened if p.endswith(".tal") and os.path.realpath(p) != own]
            files = sorted({file_id(base, rroot, p) for p in tal})
            m = re.search(r"\[\w+/(\w+)\]:", r.log[0]) if r.log else None
            rep = lex_reply(c, r.out)
            n = w.request(b"/ok.txt\r\n")
            traces.append({
                "id": case_key(c), "init": {"c": c},
                "events": [{"ev": "req", "handler": m.group(1) if m else ""}, {"ev": "opens", "files": files}, rep,
                           {"ev": "next", "status": "ok" if n.out == b"OKFILE\n" else "bad"}],
                "detail": {"out": r.out[:300].decode("utf-8", "replace"), "log": [str(x)[:200] for x in r.log[-2:]],
                           "escaped": r.escaped or ""}})
    finally:
        _OPENS = None
        w.close()
        shutil.rmtree(base, ignore_errors=True)
    return traces, hook_seen


def case_key(c):
    return "%s|%s|%s|%s|%s|%s|m@%s|dirm=%d|%s/%s" % (
        pathstr(c["loc"]), c["name"], c["kind"], c["shape"], c["fe"], c["cfg"],
        ",".join(pathstr(d) for d in c["macroAt"]), int(c["dirm"]), c["ldr"], "/".join(c["walk"]))


def norm_case(c):
    """TLC value -> JSON-able case with a canonical order"""
    return {"loc": list(c["loc"]), "name": c["name"], "kind": c["kind"], "shape": c["shape"], "fe": c["fe"], "cfg": c["cfg"],
            "macroAt": sorted(list(d) for d in c["macroAt"]), "dirm": bool(c["dirm"]), "ldr": c["ldr"], "walk": list(c["walk"])}


def cases_from_model(chk, cfg):
    res = tlc.check_model("MC_XTALH", cfg, dump=True, timeout=600)
    try:
        if res["inv_violations"]:
            chk.model_violation("MC_XTALH", sorted(set(res["inv_violations"])), res["out"][-1500:])
        cases = {}
        for st in tlaparse.iter_dump_states(res["dump"], {"c", "pc"}):
            if st.get("pc") == "done":
                c = norm_case(st["c"])
                cases[case_key(c)] = c
    finally:
        tlc.cleanup(res)
    return [cases[k] for k in sorted(cases)], res


def witness_runs():
    """each switch set to the behaviour of the pinned code must make its design invariant fail (the switches are not vacuous)"""
    out = {}
    for sw, inv in WITNESS.items():
        cfg = "SPECIFICATION Spec\nCONSTANTS\n" + "".join("  %s = %s\n" % (s, "FALSE" if s == sw else "TRUE") for s in SWITCHES) \
              + '  Tier = "witness"\nINVARIANT %s\nCHECK_DEADLOCK FALSE\n' % inv
        res = tlc.run_tlc("MC_XTALH", "MC_XTALH_w.cfg", extra_files={"MC_XTALH_w.cfg": cfg}, timeout=300)
        if res["parse_error"]:
            raise core.MachineryError("witness run failed to parse: " + res["out"][-800:])
        out[sw] = inv in res["inv_violations"]
    return out


def validate(traces):
    slim = [{"id": t["id"], "init": t["init"], "events": t["events"]} for t in traces]
    return tlc.validate_traces("TraceXTALH", "TraceXTALH.cfg", slim, timeout=900, chunk=3000)


def abstract_case(t):
    c = dict(t["init"]["c"])
    c["key"] = t["id"]
    c["dotdot"] = ".." in c["walk"]
    c["inner"] = "untyped" if c["name"] in UNTYPED else "typed"
    c["macroAt"] = [pathstr(d) for d in c["macroAt"]]
    return c


def run_cases(cases):
    from harness import cachelib
    jobs = []
    for cfg in ("absent", "yes", "no"):
        cs = [c for c in cases if c["cfg"] == cfg]
        for i in range(0, len(cs), 150):
            jobs.append((cfg, cs[i:i + 150]))
    if len(jobs) == 1:
        results = [run_job(jobs[0])]
    else:
        results = cachelib.pool_map(run_job, jobs, _init_worker, procs=int(os.environ.get("VERIF_PROCS") or 8))
    traces = [t for r in results for t in r[0]]
    return traces, sum(r[1] for r in results)


def selftest():
    """Binding demonstration: corrupted observations of accepted runs are rejected with the right clause."""
    base = {"loc": ["a", "b"], "name": "t.html.tal", "kind": "file", "shape": "use", "fe": "g", "cfg": "absent",
            "macroAt": [[], ["a"]], "dirm": False, "ldr": "rdir", "walk": ["m"]}
    varc = dict(base, shape="vars", fe="http", walk=[], ldr="root")
    traces, _ = run_cases([base, varc])
    cp = lambda t: json.loads(json.dumps(t))      # noqa: E731
    good, goodv = traces[0], traces[1]
    far = cp(good); far["events"][2]["macro"] = "in:/"            # noqa: E702  as if the FARTHER ancestor had won
    out = cp(good); out["events"][1]["files"].append("out")       # noqa: E702
    drop = cp(good); del drop["events"][3]                        # noqa: E702
    mime = cp(goodv); mime["events"][2]["mime"] = "text/plain"    # noqa: E702
    var = cp(goodv); var["events"][2]["vars"]["talbasename"] = "/a/b/t.html.tal"      # noqa: E702
    claim = cp(goodv); claim["events"][0]["handler"] = "FileHandler"                  # noqa: E702
    tv = validate([good, goodv, far, out, drop, mime, var, claim])
    rej = {r["index"]: r["clause"] for r in tv["rejected"]}
    want = {2: "Resolves", 3: "Contained", 4: "incomplete", 5: "TypeOfInner", 6: "Bindings", 7: "ClaimRule"}
    return rej == want, rej


def main(chk, replay=None):
    if replay:
        with open(replay) as fp:
            rc = json.load(fp)["case"]
        cases = [norm_case(dict(rc, macroAt=[[x for x in d.split("/") if x] for d in rc["macroAt"]]))]
        mc = {"distinct": 0, "generated": 0, "cmd": "(replay)"}
        wit = {}
    else:
        cases, mc = cases_from_model(chk, "MC_XTALH.cfg" if chk.tier == "quick" else "MC_XTALH_thorough.cfg")
        wit = witness_runs()
        bad = [s for s, ok in wit.items() if not ok]
        if bad:
            raise core.MachineryError("XTALH: switch(es) %s set as coded do not violate their invariant: vacuous" % bad)
    traces, hook_seen = run_cases(cases)
    tv = validate(traces)
    for r in tv["rejected"]:
        t = traces[r["index"]]
        chk.violation(t["id"], r["clause"], abstract_case(t), {"events": t["events"], "real": t["detail"], "at": r["at"]})
    chk.note_drift([dict(d, id=traces[d["index"]]["id"]) for d in tv["drift"]])
    rep = [t["events"][2] for t in traces]
    nontriv = {
        "macro_resolved": sum(1 for e in rep if e["macro"].startswith("in:")),
        "recursive_found_at_ancestor": sum(1 for t in traces if t["init"]["c"]["ldr"] in ("rdir", "rroot") and t["events"][2]["macro"].startswith("in:")
                                           and t["events"][2]["macro"] != "in:" + pathstr(t["init"]["c"]["loc"])),
        "vars_bound": sum(1 for e in rep if e["vars"]),
        "listed": sum(1 for e in rep if e["entry"]["present"]),
        "error_replies": sum(1 for e in rep if e["status"] == "error"),
        "loader_opens": sum(1 for t in traces if t["events"][1]["files"]),
    }
    if not replay and not chk.violations:
        if hook_seen == 0 or nontriv["loader_opens"] == 0:
            raise core.MachineryError("XTALH: the audit hook saw no open / no loader opened a macro file")
        if not (nontriv["macro_resolved"] and nontriv["vars_bound"] and nontriv["listed"] and nontriv["recursive_found_at_ancestor"]):
            raise core.MachineryError("XTALH: vacuous run: %r" % (nontriv,))
        ok, rej = selftest()
        if not ok:
            raise core.MachineryError("XTALH: self-test of the trace binding failed: %r" % (rej,))
    cov = {
        "states": mc.get("distinct"), "transitions": mc.get("generated"), "exhaustive": True,
        "traces_validated_against_impl": tv["accepted"], "traces_rejected": len(tv["rejected"]),
        "evaluations": len(traces), "real_requests": 2 * len(traces), "opens_seen_by_audit_hook": hook_seen,
        "distinct_nontrivial": nontriv["macro_resolved"] + nontriv["vars_bound"] + nontriv["listed"] + nontriv["error_replies"],
        "rule": "one evaluation = one TLC case built as a real document root and requested through the real server; non-trivial = "
                "runs in which a macro was really resolved through a loader (%(macro_resolved)d; %(recursive_found_at_ancestor)d of them found at "
                "a proper ancestor by a recursive loader) + runs whose template printed its bound variables (%(vars_bound)d) + listings "
                "that show the .tal entry (%(listed)d) + error replies (%(error_replies)d)" % nontriv,
        "nontrivial_detail": nontriv, "witness_switch_as_coded_violates": wit,
        "samples": [t["id"] for t in traces[:: max(1, len(traces) // 6)]][:6],
        "checker_cmd": mc.get("cmd", "") + " ; " + tv["cmd"], "trace_states": tv["states"],
        "bindings": ["B2 every pc=done state of MC_XTALH replayed on the real server", "B3 TraceXTALH"],
    }
    return chk.finish(cov, [
        "alpha = lexers of this module: status class per front end, Gopher+ blocks, <i id=..> variables, M@<id>; marker of the macro file used",
        "files opened = audit-hook 'open' events on *.tal paths other than the requested template, mapped to in:<dir> / out by realpath",
        "the fixture names a, b, m do not exist beside or above the scratch directory (bait m.html.tal one level above the document root)",
    ])
