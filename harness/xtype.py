"""XTYPE (growth check): how an object gets its Gopher item type, MIME type, encoding and display name.

Model: spec/Typing.tla (decision procedure transcribed), spec/MC_XTYPE.tla (cases), spec/trace/TraceXTYPE.tla
(judgement of what the real server answered).  This module only (B1) imports the tables and lists of the tree
under test into the constants module, (gamma) builds the files of every case TLC enumerated and sends the
requests through World.request, (alpha) lexes the answers into records.  No property logic here.
"""
from __future__ import annotations

import bz2
import configparser
import gzip
import hashlib
import json
import lzma
import multiprocessing as mp
import os
import re
import traceback
import urllib.parse
from concurrent.futures import ThreadPoolExecutor

from harness import core, tlc
from harness.tlaparse import iter_dump_states

# ---------------------------------------------------------------------------------------------------
# configurations (K0 = everything as shipped; the others are alternatives documented in the conf comments)
SHIPPED = "shipped"
ALT_ENCODING = "[('.bz2', 'bzip2'), ('.gz', 'gzip')]"           # conf: "You can override the default entirely"
DOC_DECOMPRESSORS = "{'bzip2': 'bzcat', 'gzip' : 'zcat', 'compress' : 'zcat'}"      # conf, commented example
DOC_PATT = r"\.txt\.(bz2|gz|Z)$"                                 # conf: "You can be more restrictive"
ALT2_MAPPING = [["(text|message)/(html|rfc822)$", "h"], ["html", "X"], ["text/[a-z]+$", "T"], ["image/(gif|png)", "g"],
                ["image/x-?", "i"], ["audio/.*", "s"], ["application/(octet-stream|x-tar)", "9"], ["[^atx]", "o"],
                ["application/.{1,12}$", "5"]]

CONFIGS = {
    "K0": dict(handlers="default"),
    "K1": dict(dirh="UMN", chain=["html", "comp", "file"], decomp=DOC_DECOMPRESSORS),
    "K2": dict(dirh="UMN", chain=["html", "file"], strip="full", map="alt1", defmime="application/octet-stream"),
    "K3": dict(dirh="UMN", chain=["comp", "html", "file"], strip="none", map="alt2", decomp="{'gzip': 'zcat'}", patt="txt"),
    "K4": dict(dirh="Dir", chain=["html", "file"], strip="full", enc="alt"),
    # thorough only
    "K5": dict(dirh="UMN", chain=["comp", "file"], strip="full", decomp=DOC_DECOMPRESSORS, patt="txt", map="alt1"),
    "K6": dict(dirh="UMN", chain=["file"], strip="nonencoded", enc="alt", map="alt2"),
    "K7": dict(dirh="Dir", chain=["comp", "html", "file"], strip="none", decomp=DOC_DECOMPRESSORS, enc="alt"),
    "K8": dict(dirh="UMN", chain=["html", "comp", "file"], strip="none", decomp="{'bzip2': 'bzcat'}", map="alt1"),
    "K9": dict(dirh="UMN", chain=["html", "comp", "file"], strip="full", decomp=DOC_DECOMPRESSORS, defmime="application/octet-stream"),
}
HANDLER_NAME = {"html": "html.HTMLFileTitleHandler", "comp": "file.CompressedFileHandler", "file": "file.FileHandler",
                "UMN": "UMN.UMNDirHandler", "Dir": "dir.DirHandler"}
CLASS_OF = {"HTMLFileTitleHandler": "html", "CompressedFileHandler": "comp", "FileHandler": "file",
            "UMNDirHandler": "dir", "DirHandler": "dir"}

EXTRA_TYPES = """# site-local additions (the shipped `mimetypes` option lists several files): extensions for the types
# that the shipped mapping list names but no shipped extension has, and look-alikes of its literal rules
# (application/gopher-menu is left out: every protocol rewrites that type for menus)
text/htmlx			htmlx
image/gif2			gif2
application/gopher+-menu	gpm
multipart/mixed			mpm
multipart/mixedup		mpx
x-xtype/unknown			xun
"""
EXTRA_MIMES = ["application/gopher-menu", "application/gopher+-menu", "multipart/mixed", "text/", "x", ""]

BODY_TOKS_QUICK = ["w1", "w2", "sp", "tab", "lf", "crlf", "nbsp", "amp", "entnbsp", "badent", "cr9", "cr10", "cr13",
                   "rawff", "tagb", "comment", "long"]
ALL_TOKS = ["w1", "w2", "sp", "sp2", "tab", "lf", "crlf", "vt", "ff", "fs", "nbsp", "nel", "ls", "amp", "lt", "gt", "eacute",
            "entnbsp", "ampbare", "badent", "cr9", "cr10", "cr13", "cr65", "crx41", "cr0", "cr27", "cr128", "rawff", "rawutf",
            "rawc3", "tagb", "tagbr", "comment", "nul", "long"]
SMALL_WRAPS = ["upper", "attr", "late", "oneline", "none", "open", "noclose", "incomment", "inscript", "stray", "selfclosed",
               "two", "twolines", "bom"]

QUICK = dict(cfgs=["K0", "K1", "K2", "K3", "K4"], acfgs=["K0"], astride=8, double_cfgs=["K0", "K1", "K3"],
             title_full=["K3"], title_mid=["K4"], title_small=["K0", "K2"],
             maxbody=2, body_toks=BODY_TOKS_QUICK, body3_toks=[], html_names=["p.html", "q.HTM"], full_html_names=["p.html"], reps_per_rule=1, second=[".txt", ".gif"],
             enc_extra=[".GZ", ".z"], triple_first=[".txt"], triple_enc=[".gz", ".bz2"], tlc_timeout=600)
THOROUGH = dict(cfgs=["K0", "K1", "K2", "K3", "K4", "K5", "K6", "K7", "K8", "K9"], acfgs=["K0", "K4", "K9"], astride=1,
                double_cfgs=["K0", "K1", "K2", "K3", "K4", "K5", "K6", "K7", "K8", "K9"],
                body3_toks=["w1", "sp", "tab", "lf", "crlf", "amp", "nbsp", "cr10", "tagb", "rawff"], enc_extra=[".GZ", ".z", ".Bz2", ".TAL"],
                title_full=["K3", "K8"], title_mid=["K4"], title_small=["K0", "K1", "K2", "K9"], maxbody=2, body_toks=ALL_TOKS,
                html_names=["p.html", "q.HTM", "r.shtml"], full_html_names=["p.html"], reps_per_rule=2, second=[".txt", ".gif", ".html", ".tar"],
                triple_first=[".txt", ".tar"], triple_enc=[".gz", ".bz2", ".Z"], tlc_timeout=1500)
TIERS = {"quick": QUICK, "thorough": THOROUGH}

PLAIN = b"XTYPE plain payload\nline two\n"
MACHINERY = {"ClientMismatch", "unmatched", "Incomplete", "stuck"}


# ---------------------------------------------------------------------------------------------------
# TLA+ text
def tla_str(s):
    return '"' + s.replace("\\", "\\\\").replace('"', '\\"').replace("\t", "\\t").replace("\n", "\\n").replace("\r", "\\r") + '"'


def tla_set(xs):
    return "{" + ", ".join(tla_str(x) for x in xs) + "}"


def tla_seq(xs):
    return "<<" + ", ".join(tla_str(x) for x in xs) + ">>"


def tla_case(arg, pairs, other='"none"'):
    if not pairs:
        return other
    return "CASE " + "\n      [] ".join("%s = %s -> %s" % (arg, tla_str(k), v) for k, v in pairs) + "\n      [] OTHER -> " + other


def tla_bucketed(arg, table):
    """A big extension table as a two-level CASE (first on the character after the dot): TLC evaluates CASE arms
    one by one, 1,500 string comparisons per lookup made the model 30 times slower."""
    buckets = {}
    for k, v in sorted(table.items()):
        buckets.setdefault(k[1:2], []).append((k, tla_str(v)))
    arms = ["SubSeq(%s, 2, 2) = %s -> (%s)" % (arg, tla_str(ch), tla_case(arg, pairs).replace("\n      ", " ")) for ch, pairs in sorted(buckets.items())]
    if not arms:
        return '"none"'
    return 'IF Len(%s) < 2 THEN "none" ELSE CASE ' % arg + "\n      [] ".join(arms) + '\n      [] OTHER -> "none"'


def node(k, c="", a=(), lo=0, hi=0):
    return "[k |-> %s, c |-> %s, a |-> <<%s>>, lo |-> %d, hi |-> %d]" % (tla_str(k), tla_str(c), ", ".join(a), lo, hi)


def re_tree(pattern: str) -> str:
    """The configured regexp as the syntax tree of Python's own parser, written as a TLA+ value."""
    import re._constants as C
    import re._parser as P

    def chars(items):
        neg, out = False, []
        for op, av in items:
            if op is C.NEGATE:
                neg = True
            elif op is C.LITERAL:
                out.append(chr(av))
            elif op is C.RANGE:
                if av[1] > 127:
                    raise core.MachineryError("regexp range beyond ASCII in %r" % pattern)
                out.extend(chr(x) for x in range(av[0], av[1] + 1))
            else:
                raise core.MachineryError("unsupported class item %r in %r" % (op, pattern))
        return neg, "".join(out)

    def seq(sub):
        parts = [one(op, av) for op, av in sub]
        return parts[0] if len(parts) == 1 else node("cat", a=parts)

    def one(op, av):
        if op is C.LITERAL:
            return node("lit", chr(av))
        if op is C.NOT_LITERAL:
            return node("nset", chr(av))
        if op is C.ANY:
            return node("any")
        if op is C.IN:
            neg, cs = chars(av)
            return node("nset" if neg else "set", cs)
        if op in (C.MAX_REPEAT, C.MIN_REPEAT):
            lo, hi, sub = av
            return node("rep", a=[seq(sub)], lo=lo, hi=min(int(hi), 9999))
        if op is C.SUBPATTERN:
            return seq(av[3])
        if op is C.BRANCH:
            return node("alt", a=[seq(s) for s in av[1]])
        if op is C.AT:
            if av is C.AT_BEGINNING or av is C.AT_BEGINNING_STRING:
                return node("bol")
            if av is C.AT_END or av is C.AT_END_STRING:
                return node("eol")
        raise core.MachineryError("unsupported regexp construct %r in %r" % (op, pattern))

    parsed = P.parse(pattern)
    if not len(parsed):
        return node("cat")
    return seq(parsed)


# ---------------------------------------------------------------------------------------------------
# B1: configuration of the tree under test, tables as the server configures them
def shipped_conf():
    cp = configparser.ConfigParser()
    cp.read(os.path.join(core.REPO, "conf", "pygopherd.conf"))
    return cp


def resolve_configs(ids):
    """Every configuration spelled out: shipped values (read from the tree under test) unless overridden."""
    cp = shipped_conf()
    hl = re.findall(r"(\w+)\.(\w+)", cp.get("handlers.HandlerMultiplexer", "handlers"))
    names = ["%s.%s" % p for p in hl]
    inv = {v: k for k, v in HANDLER_NAME.items()}
    shipped_chain = [inv[n] for n in names if n in inv and inv[n] in ("html", "comp", "file")]
    shipped_dirh = next(inv[n] for n in names if n in inv and inv[n] in ("UMN", "Dir"))
    shipped_map = eval(cp.get("GopherEntry", "mapping"))                                    # noqa: S307 - as gopherentry.py reads it
    maps = {SHIPPED: shipped_map,
            "alt1": [r for r in reversed(shipped_map) if r[0] != ".*"] + [r for r in shipped_map if r[0] == ".*"],
            "alt2": ALT2_MAPPING}
    patts = {"all": cp.get("handlers.file.CompressedFileHandler", "decompresspatt"), "txt": DOC_PATT}
    encs = {SHIPPED: cp.get("pygopherd", "encoding"), "alt": ALT_ENCODING}
    out = {}
    for kid in ids:
        d = CONFIGS[kid]
        k = dict(id=kid, handlers=d.get("handlers"),
                 dirh=d.get("dirh", shipped_dirh), chain=d.get("chain", shipped_chain),
                 strip=d.get("strip", cp.get("handlers.UMN.UMNDirHandler", "extstrip")),
                 map=d.get("map", SHIPPED), enc=d.get("enc", SHIPPED), patt=d.get("patt", "all"),
                 decomp_text=d.get("decomp", cp.get("handlers.file.CompressedFileHandler", "decompressors")),
                 defmime=d.get("defmime", cp.get("GopherEntry", "defaultmimetype")))
        k["decomp"] = sorted(eval(k["decomp_text"]))                                        # noqa: S307 - as file.py reads it
        out[kid] = k
    return dict(cfgs=out, maps=maps, patts=patts, encs=encs, ignorepatt=cp.get("handlers.dir.DirHandler", "ignorepatt"))


def configured_encodings(expr):
    """The `encoding` option evaluated as initialization.py does, in a clean interpreter that never imports pygopherd."""
    import subprocess
    import sys
    code = "import mimetypes, json, sys; print(json.dumps(sorted(dict(eval(sys.argv[1])).items())))"
    out = subprocess.run([sys.executable, "-I", "-c", code, expr], capture_output=True, text=True, timeout=60)
    if out.returncode != 0:
        raise core.MachineryError("cannot evaluate the encoding option: %s" % out.stderr[-500:])
    return [tuple(p) for p in json.loads(out.stdout)]


def read_mime_file(path):
    """(extension, type) pairs of a mime.types file (the file format of Python's mimetypes.MimeTypes.readfp)."""
    pairs = {}
    with open(path, encoding="utf-8") as fp:
        for line in fp:
            words = line.split()
            for i, wd in enumerate(words):
                if wd[0] == "#":
                    del words[i:]
                    break
            for suff in words[1:]:
                pairs["." + suff] = words[0]
    return pairs


def world_for(k, b, extra_types):
    """The real server under configuration k (called inside a worker process only)."""
    from harness import world
    ov = {("pygopherd", "mimetypes"): os.path.join(core.REPO, "conf", "mime.types") + ":" + extra_types,
          ("handlers.dir.DirHandler", "cachetime"): "0"}
    if k["enc"] != SHIPPED:
        ov[("pygopherd", "encoding")] = b["encs"][k["enc"]]
    if k["handlers"] == "default":
        handlers = "default"
    else:
        handlers = "[" + ", ".join([HANDLER_NAME[k["dirh"]]] + [HANDLER_NAME[h] for h in k["chain"]]) + "]"
        ov[("handlers.UMN.UMNDirHandler", "extstrip")] = k["strip"]
        ov[("GopherEntry", "mapping")] = repr(b["maps"][k["map"]])
        ov[("GopherEntry", "defaultmimetype")] = k["defmime"]
        ov[("handlers.file.CompressedFileHandler", "decompressors")] = k["decomp_text"]
        ov[("handlers.file.CompressedFileHandler", "decompresspatt")] = b["patts"][k["patt"]].replace("%", "%%")
    return world.World(handlers=handlers, overrides=ov)


def live_tables():
    import mimetypes
    return dict(strict=dict(mimetypes.types_map), loose=dict(mimetypes.common_types),
                enc=dict(mimetypes.encodings_map), suf=dict(mimetypes.suffix_map))


def digest(obj):
    return hashlib.sha1(json.dumps(obj, sort_keys=True).encode()).hexdigest()[:16]


def _tables_task(args):
    k, b, extra_types = args
    try:
        import mimetypes
        if mimetypes.inited:
            return ("err", "mimetypes initialised before the server configured it")
        w = world_for(k, b, extra_types)
        try:
            return ("ok", live_tables())
        finally:
            w.close()
    except BaseException:
        return ("err", traceback.format_exc())


def run_pool(fn, items, procs=None):
    """Each item in a FRESH forked process (mimetypes is configured once per process by the server)."""
    procs = procs or int(os.environ.get("VERIF_PROCS") or 12)
    ctx = mp.get_context("fork")
    with ctx.Pool(min(procs, max(1, len(items))), maxtasksperchild=1) as pool:
        res = pool.map_async(fn, items, chunksize=1).get(timeout=1500)
    for r in res:
        if r[0] != "ok":
            raise core.MachineryError("worker failed:\n%s" % r[1])
    return [r[1] for r in res]


def b1(t, scratch):
    extra_types = os.path.join(scratch, "xtype-extra.types")
    with open(extra_types, "w") as fp:
        fp.write(EXTRA_TYPES)
    b = resolve_configs(t["cfgs"])
    b["extra_types"] = extra_types
    enc_ids = sorted({k["enc"] for k in b["cfgs"].values()})
    rep = {e: next(k for k in b["cfgs"].values() if k["enc"] == e) for e in enc_ids}
    got = run_pool(_tables_task, [(rep[e], b, extra_types) for e in enc_ids])
    b["tables"] = dict(zip(enc_ids, got))
    first = b["tables"][enc_ids[0]]
    for e in enc_ids[1:]:
        for part in ("strict", "loose", "suf"):
            if b["tables"][e][part] != first[part]:
                raise core.MachineryError("table %s differs between encoding configurations" % part)
    b["strict"], b["loose"], b["suf"] = first["strict"], first["loose"], first["suf"]
    b["enc_configured"] = {e: configured_encodings(b["encs"][e]) for e in enc_ids}
    conf_types = read_mime_file(os.path.join(core.REPO, "conf", "mime.types"))
    conf_types.update(read_mime_file(extra_types))
    b["conf_types"] = conf_types
    for ext in list(b["strict"]) + list(b["loose"]):
        if not re.fullmatch(r"\.[\x21-\x7e]+", ext) or "/" in ext or '"' in ext or "\\" in ext or "?" in ext or "#" in ext:
            raise core.MachineryError("extension %r of the configured tables cannot be written as a test name" % ext)
    return b


# ---------------------------------------------------------------------------------------------------
# alphabets (gamma's choice of representatives; MC_XTYPE's audit cases check them against the rules)
def choose_reps(b, t):
    types = dict(b["loose"])
    types.update(b["strict"])
    simple = sorted((e for e in types if re.fullmatch(r"\.[a-z0-9]{1,6}", e)), key=lambda e: (len(e), e))
    reps = []

    def add(e):
        if e is not None and e not in reps:
            reps.append(e)

    for mid in sorted({k["map"] for k in b["cfgs"].values()}):
        rules = b["maps"][mid]
        first = {}
        for e in simple:
            j = next((i for i, r in enumerate(rules) if re.match(r[0], types[e])), -1)
            first.setdefault(j, []).append(e)
        for j in sorted(first):
            for e in first[j][:t["reps_per_rule"]]:
                add(e)                                            # decided BY rule j (-1: by no rule)
        for i, r in enumerate(rules):
            lit = re.match(r"[A-Za-z0-9/\-]*", r[0]).group(0)
            later = [e for e in simple if re.match(r[0], types[e]) and e not in first.get(i, [])]
            add(later[0] if later else None)                      # matches rule i but an earlier rule takes it
            if len(lit) > 3:
                miss = [e for e in simple if not re.match(r[0], types[e])]
                miss.sort(key=lambda e: (-len(os.path.commonprefix([lit, types[e]])), len(e), e))
                add(miss[0] if miss else None)                    # near miss: longest common prefix with the rule's literal
    for e in (".txt", ".html", ".htm", ".tar", ".gif", ".hqx", ".pict", ".jpg", ".gz", ".json"):
        if e in types:
            add(e)
    for line in EXTRA_TYPES.splitlines():
        if line and not line.startswith("#"):
            add("." + line.split()[-1])
    type_reps = list(reps)
    enc_keys = sorted({e for tab in b["tables"].values() for e in tab["enc"]})
    return dict(type_reps=type_reps, reps=type_reps + enc_keys + sorted(b["suf"]) + [".zzz", ".q-q"],
                enc_variants=enc_keys + t["enc_extra"], enc_keys=enc_keys)


def consts_module(b, t, reps):
    types = b["strict"]
    allexts = sorted(set(b["strict"]) | set(b["loose"]))
    aexts = [e for e in allexts if not set(e) & set("%{}")][:: t["astride"]]      # display names travel percent-quoted
    lines = ["--------------------------- MODULE MC_XTYPE_consts ---------------------------",
             "(* generated by harness/xtype.py from the tree under test (binding B1); the committed copy shows the shipped values *)",
             "EXTENDS Naturals, Sequences",
             "K_StrictType(e) == " + tla_bucketed("e", types),
             "K_LooseType(e) == " + tla_case("e", [(k, tla_str(v)) for k, v in sorted(b["loose"].items())]),
             "K_SufOf(e) == " + tla_case("e", [(k, tla_str(v)) for k, v in sorted(b["suf"].items())]),
             "K_EncOf(tab, e) == " + tla_case("tab", [(tab, "(" + tla_case("e", [(k, tla_str(v)) for k, v in sorted(tb["enc"].items())]) + ")")
                                                      for tab, tb in sorted(b["tables"].items())]),
             "K_EncKeys(tab) == " + tla_case("tab", [(tab, tla_set(sorted(tb["enc"]))) for tab, tb in sorted(b["tables"].items())], "{}"),
             *["K_Map_%s == <<%s>>" % (mid, ",\n          ".join("[re |-> %s, t |-> %s]" % (re_tree(r[0]), tla_str(r[1])) for r in rules))
               for mid, rules in sorted(b["maps"].items())],
             "K_Mapping(id) == " + tla_case("id", [(mid, "K_Map_" + mid) for mid in sorted(b["maps"])], "<<>>"),
             *["K_Patt_%s == %s" % (pid, re_tree(p)) for pid, p in sorted(b["patts"].items())],
             "K_Patt(id) == " + tla_case("id", [(pid, "K_Patt_" + pid) for pid in sorted(b["patts"])], node("cat")),
             "K_IgnoreRe == " + re_tree(b["ignorepatt"]),
             *["K_Cfg_%s == [enc |-> %s, map |-> %s, strip |-> %s, dirh |-> %s, chain |-> %s, decomp |-> %s, patt |-> %s, defmime |-> %s]"
               % (kid, tla_str(k["enc"]), tla_str(k["map"]), tla_str(k["strip"]), tla_str(k["dirh"]), tla_seq(k["chain"]),
                  tla_set(k["decomp"]), tla_str(k["patt"]), tla_str(k["defmime"])) for kid, k in sorted(b["cfgs"].items())],
             "K_Cfg(id) == " + tla_case("id", [(kid, "K_Cfg_" + kid) for kid in sorted(b["cfgs"])], "[enc |-> \"\"]"),
             "K_Cfgs == " + tla_set(t["cfgs"]), "K_ACfgs == " + tla_set(t["acfgs"]),
             "K_DoubleCfgs == " + tla_set(t["double_cfgs"]),
             "K_TitleFull == " + tla_set(t["title_full"]), "K_TitleMid == " + tla_set(t["title_mid"]), "K_TitleSmall == " + tla_set(t["title_small"]),
             "K_BodyToks == " + tla_set(t["body_toks"]), "K_Body3Toks == " + tla_set(t["body3_toks"]), "K_HtmlNames == " + tla_set(t["html_names"]), "K_FullHtmlNames == " + tla_set(t["full_html_names"]),
             "K_SmallWraps == " + tla_set(SMALL_WRAPS),
             "K_AllExts == " + tla_set(allexts), "K_AExts == " + tla_set(aexts),
             "K_RepExts == " + tla_set(reps["reps"]), "K_RepTypeExts == " + tla_set(reps["type_reps"]),
             "K_EncVariants == " + tla_set(reps["enc_variants"]), "K_SecondExts == " + tla_set(t["second"]),
             "K_TripleFirst == " + tla_set(t["triple_first"]), "K_TripleEnc == " + tla_set(t["triple_enc"]),
             "K_DotFileExts == " + tla_set([".gif", ".html", ".tar.gz", ".txt"]),
             "K_Specials == " + tla_set(["README", "f.", "f.txt.", "Welcome.txt", "pygopherd.tar.gz", "a.b.txt", "f.tar.gz.txt"]),
             "K_DirNames == " + tla_set(["sub.txt", "arch.tar.gz", "page.html"]),
             "K_DottedDirs == " + tla_set(["/d.gif", "/v.tar.gz"]),
             "K_DeepNames == " + tla_set(["plain", "x.txt", "y.txt.gz", ".hid.html"]),
             "K_AuditMaps == " + tla_set(sorted({k["map"] for k in b["cfgs"].values()})),
             "K_ExtraMimes == " + tla_set(EXTRA_MIMES),
             "K_EncTabs == " + tla_set(sorted(b["tables"])),
             "K_EncConfigured(tab) == " + tla_case("tab", [(tab, "{" + ", ".join("<<%s, %s>>" % (tla_str(a), tla_str(c)) for a, c in pairs) + "}")
                                                             for tab, pairs in sorted(b["enc_configured"].items())], "{}"),
             "K_ConfTypes == {" + ", ".join("<<%s, %s>>" % (tla_str(a), tla_str(c)) for a, c in sorted(b["conf_types"].items())) + "}",
             "============================================================================="]
    return "\n".join(lines) + "\n"


CONST_NAMES = ["StrictType", "LooseType", "SufOf", "EncOf", "EncKeys", "Mapping", "Patt", "IgnoreRe", "Cfg"]
MC_CONST_NAMES = ["Cfgs", "ACfgs", "DoubleCfgs", "TitleFull", "TitleMid", "TitleSmall", "BodyToks", "Body3Toks", "HtmlNames", "FullHtmlNames", "SmallWraps", "AllExts", "AExts", "RepExts",
                  "RepTypeExts", "EncVariants", "SecondExts", "TripleFirst", "TripleEnc", "DotFileExts", "Specials", "DirNames",
                  "DottedDirs", "DeepNames", "AuditMaps", "ExtraMimes", "EncTabs", "EncConfigured", "ConfTypes"]
INVARIANTS = ["FirstMatchWinsInv", "ShippedYieldsInv", "TableTypedInv", "AnnouncedIsDeliveredInv", "HtmlOnlyNamesInv",
              "StripOnlyNameInv", "TitleCleanInv", "TitleShownInv", "NoTitleKeepsNameInv", "DeviationsNamedInv", "RepsCoverRulesInv", "TablesAsConfiguredInv"]


def cfg_text(t, trace):
    c = ["SPECIFICATION " + ("TSpec" if trace else "Spec"), "CONSTANTS"]
    c += ["  %s <- K_%s" % (n, n) for n in CONST_NAMES]
    if trace:
        c += ["CONSTRAINT Record", "POSTCONDITION Post"]
    else:
        c += ["  %s <- K_%s" % (n, n) for n in MC_CONST_NAMES] + ["  MaxBody = %d" % t["maxbody"]]
        c += ["INVARIANT " + i for i in INVARIANTS]
    c.append("CHECK_DEADLOCK FALSE")
    return "\n".join(c) + "\n"


# ---------------------------------------------------------------------------------------------------
# gamma / alpha helpers
def q(s) -> str:
    """Percent-quoted ASCII (what the trace carries): printable ASCII but % { } stays, every other byte is %XX;
    every run of 5000 letters x is written {x*5000}."""
    raw = s if isinstance(s, bytes) else s.encode("utf-8", "surrogateescape")
    out = "".join(chr(c) if 0x20 <= c <= 0x7E and c not in (0x25, 0x7B, 0x7D) else "%%%02X" % c for c in raw)
    return out.replace("x" * 5000, "{x*5000}")


def unq(src: str) -> bytes:
    """The bytes a model text stands for ({x*N} = N letters x, {p*N} = N short lines)."""
    src = re.sub(r"\{x\*(\d+)\}", lambda m: "x" * int(m.group(1)), src)
    src = re.sub(r"\{p\*(\d+)\}", lambda m: "<p>x</p>%0A" * int(m.group(1)), src)
    return urllib.parse.unquote_to_bytes(src)


def content_for(name: str) -> bytes:
    """Files of the name family: the payload, stored in the compression format the LAST extension names."""
    low = name.lower()
    if low.endswith((".gz", ".tgz", ".z", ".taz", ".tz", ".svgz")):
        return gzip.compress(PLAIN, mtime=0)
    if low.endswith((".bz2", ".tbz2")):
        return bz2.compress(PLAIN)
    if low.endswith((".xz", ".txz")):
        return lzma.compress(PLAIN)
    return PLAIN


_LOG = re.compile(r"\[(\w+)/(\w+)\]")
_VIEW = re.compile(r"^ (\S+?)(?: (\S+))?:(?: <(\d+)k>)?$")


def handler_of(r):
    for line in r.log:
        m = _LOG.search(line)
        if m:
            return CLASS_OF.get(m.group(2), m.group(2))
    return ""


def lex_menu(out: bytes):
    """Gopher0 menu -> (rows [{type,name,sel}], malformed line count)."""
    rows, bad = [], 0
    text = out.decode("utf-8", "surrogateescape")
    if text.endswith("\r\n"):
        text = text[:-2]
    for line in (text.split("\r\n") if text else []):
        f = line.split("\t")
        if len(f) not in (4, 5) or not f[0] or "\n" in line:
            bad += 1
            continue
        rows.append({"type": f[0][0], "name": q(f[0][1:]), "sel": f[1]})
    return rows, bad


def lex_blocks(out: bytes):
    """Gopher+ attribute answer (`!` or `$`) -> (status, items [{type,name,sel,mime,lang,views}], malformed count)."""
    text = out.decode("utf-8", "surrogateescape")
    head, _, rest = text.partition("\r\n")
    if not head.startswith("+"):
        return ("error" if head.startswith("-") else "malformed"), [], 0
    items, bad, block = [], 0, ""
    if rest.endswith("\r\n"):
        rest = rest[:-2]
    for line in (rest.split("\r\n") if rest else []):
        if line.startswith("+INFO: "):
            f = line[7:].split("\t")
            if len(f) not in (4, 5) or not f[0] or "\n" in line:
                bad += 1
                block = "BAD"
                continue
            items.append({"type": f[0][0], "name": q(f[0][1:]), "sel": f[1], "mime": "", "lang": "", "views": 0})
            block = "INFO"
        elif re.fullmatch(r"\+[A-Z0-9]+:", line) and items:
            block = line[1:-1]
        elif line.startswith(" ") and items and block not in ("", "BAD"):
            if block == "VIEWS":
                m = _VIEW.match(line)
                if m:
                    items[-1]["views"] += 1
                    items[-1]["mime"], items[-1]["lang"] = q(m.group(1)), q(m.group(2) or "")
                else:
                    bad += 1
        else:
            bad += 1
    return "ok", items, bad


def http_head(out: bytes):
    head = out.split(b"\r\n\r\n", 1)[0].decode("latin-1")
    lines = head.split("\r\n")
    m = re.match(r"HTTP/1\.\d (\d{3})", lines[0]) if lines else None
    ct = [ln.split(":", 1)[1].strip() for ln in lines[1:] if ln.lower().startswith("content-type:")]
    return {"status": int(m.group(1)) if m else 0, "ctype": q(ct[0]) if len(ct) == 1 else "", "nct": len(ct),
            "nbody": len(out.split(b"\r\n\r\n", 1)[1]) if b"\r\n\r\n" in out else -1}


def gem_head(out: bytes):
    line = out.split(b"\r\n", 1)[0].decode("latin-1")
    m = re.match(r"(\d\d) (.*)$", line)
    return {"status": int(m.group(1)) if m else 0, "meta": q(m.group(2)) if m else ""}


# ---------------------------------------------------------------------------------------------------
# one configuration = one fresh process: real server, real files, two passes of requests
def case_dir(case, idx):
    return case["c"]["d"] if case["c"]["fam"] == "name" else "/h/c%d" % idx


def _config_task(args):
    k, b, cases = args
    try:
        import mimetypes
        if mimetypes.inited:
            return ("err", "mimetypes initialised before the server configured it")
        w = world_for(k, b, b["extra_types"])
        try:
            tabs = live_tables()
            if digest(tabs) != digest(b["tables"][k["enc"]]):
                return ("err", "tables of this process differ from the imported constants")
            return ("ok", drive(w, k, cases))
        finally:
            w.close()
    except BaseException:
        return ("err", traceback.format_exc())


def drive(w, k, cases):
    """cases: [(index, case)] of this configuration.  Returns {index: {"d":.., "events": {(kind, pass): o}}}."""
    import pygopherd.handlers.UMN as umn
    dirs = {}
    for idx, case in cases:
        c = case["c"]
        d = case_dir(case, idx)
        sel = d + "/" + c["n"]
        dirs.setdefault(d, []).append((idx, sel))
        if c["kind"] == "dir":
            w.mkdir(sel)
            w.write(sel + "/inside.txt", PLAIN)
        elif c["fam"] == "title":
            w.write(sel, unq(case["x"]["src"]))
        else:
            w.write(sel, content_for(c["n"]))
    stored = {}
    out = {idx: {"d": case_dir(case, idx), "ev": {}} for idx, case in cases}
    requests = 0

    def listing(d, ps):
        nonlocal requests
        mine = dict((sel, idx) for idx, sel in dirs[d])
        r0 = w.request(d.encode() + b"\r\n")
        rows, bad = lex_menu(r0.out)
        r1 = w.request(d.encode() + b"\t$\r\n")
        st, items, bad1 = lex_blocks(r1.out)
        requests += 2
        orphans0 = sum(1 for r in rows if r["sel"] not in mine)
        orphans1 = sum(1 for r in items if r["sel"] not in mine)
        for sel, idx in mine.items():
            hit = [r for r in rows if r["sel"] == sel]
            o = {"n": len(hit), "bad": bad, "orphans": orphans0, "esc": r0.escaped or "",
                 "type": hit[0]["type"] if hit else "", "name": hit[0]["name"] if hit else ""}
            out[idx]["ev"]["row0", ps] = o
            hit = [r for r in items if r["sel"] == sel]
            h = hit[0] if hit else {"type": "", "name": "", "mime": "", "lang": "", "views": 0}
            out[idx]["ev"]["row", ps] = {"n": len(hit), "bad": bad1, "orphans": orphans1, "st": st, "esc": r1.escaped or "",
                                         "type": h["type"], "name": h["name"], "mime": h["mime"], "lang": h["lang"], "views": h["views"]}

    def item(idx, case, ps, order):
        nonlocal requests
        c = case["c"]
        sel = out[idx]["d"] + "/" + c["n"]
        bsel = sel.encode()
        for kind in order:
            if kind == "info":
                r = w.request(bsel + b"\t!\r\n")
                st, items, bad = lex_blocks(r.out)
                h = items[0] if items else {"type": "", "name": "", "sel": "", "mime": "", "lang": "", "views": 0}
                o = {"st": st, "n": len(items), "bad": bad, "esc": r.escaped or "", "by": handler_of(r), "type": h["type"], "name": h["name"],
                     "sel": h["sel"], "mime": h["mime"], "lang": h["lang"], "views": h["views"]}
            elif kind == "http":
                r = w.request(b"HEAD " + urllib.parse.quote(sel).encode() + b" HTTP/1.0\r\n\r\n")
                o = http_head(r.out)
                o["esc"] = r.escaped or ""
            elif kind == "gem":
                r = w.request(b"gemini://localhost" + urllib.parse.quote(sel).encode() + b"\r\n", tls=True)
                o = gem_head(r.out)
                o["esc"] = r.escaped or ""
            else:
                r = w.request(bsel + b"\r\n")
                if sel not in stored:
                    with open(w.path(sel), "rb") as fp:
                        stored[sel] = fp.read()
                cls = "raw" if r.out == stored[sel] else "plain" if r.out == PLAIN else "other"
                o = {"cls": cls, "by": handler_of(r), "esc": r.escaped or "", "len": len(r.out)}
            requests += 1
            out[idx]["ev"][kind, ps] = o

    def kinds(case):
        return ["info", "http", "gem", "get"] if case["c"]["fam"] == "name" and case["c"]["kind"] == "file" else ["info"]

    # pass 1: items in order, then the menus; pass 2: menus first, items backwards, requests per item backwards
    for idx, case in cases:
        item(idx, case, 1, kinds(case))
    for d in sorted(dirs):
        listing(d, 1)
    for d in sorted(dirs, reverse=True):
        listing(d, 2)
    for idx, case in reversed(cases):
        item(idx, case, 2, list(reversed(kinds(case))))
    return {"obs": {idx: {"d": v["d"], "ev": [[kk[0], kk[1], o] for kk, o in v["ev"].items()]} for idx, v in out.items()},
            "requests": requests, "extstrip": umn.extstrip}


def order_of(case):
    file_name = case["c"]["fam"] == "name" and case["c"]["kind"] == "file"
    per = ["info", "http", "gem", "get"] if file_name else ["info"]
    return [(kd, 1) for kd in per] + [(kd, 2) for kd in per] + [("row0", 1), ("row", 1), ("row0", 2), ("row", 2)]


def make_traces(b, cases, results):
    traces = []
    for idx, case in enumerate(cases):
        got = results[idx]
        ev = {(kd, ps): o for kd, ps, o in got["ev"]}
        events = [{"ev": kd, "pass": ps, "o": ev[kd, ps]} for kd, ps in order_of(case) if (kd, ps) in ev]
        traces.append({"id": case_key(case), "init": {"c": case["c"], "d": got["d"]}, "events": events})
    return traces


def case_key(case):
    return json.dumps(case["c"], sort_keys=True)


def flat_case(b, case):
    c = case["c"]
    k = b["cfgs"][c["cfg"]]
    d = {"fam": c["fam"], "cfg": c["cfg"], "n": c["n"], "kind": c["kind"], "dirh": k["dirh"], "extstrip": k["strip"],
         "chain": ",".join(k["chain"]), "mapping": k["map"], "encoding": k["enc"], "deviation": case["x"]["dev"]}
    if c["fam"] == "title":
        d.update(wrap=c["wrap"], body=",".join(c["body"]))
    return d


# ---------------------------------------------------------------------------------------------------
def plain(v):
    if isinstance(v, dict):
        return {str(a): plain(x) for a, x in v.items()}
    if isinstance(v, (list, tuple)):
        return [plain(x) for x in v]
    if isinstance(v, (bool, int)):
        return v
    return str(v)


def model_check(chk, b, t, reps):
    files = {"MC_XTYPE_consts.tla": consts_module(b, t, reps), "MC_XTYPE_run.cfg": cfg_text(t, False)}
    res = tlc.run_tlc("MC_XTYPE", "MC_XTYPE_run.cfg", extra_files=files, dump=True, timeout=t["tlc_timeout"])
    cases, audits = [], 0
    try:
        if res["inv_violations"]:
            chk.model_violation("MC_XTYPE", sorted(set(res["inv_violations"])), res["out"][-3000:])
            res.setdefault("distinct", 0)
            res.setdefault("generated", 0)
            return res, [], 0
        if res["tlc_error"] or "distinct" not in res:
            raise tlc.TLCError("TLC failed on MC_XTYPE:\n%s" % (res["tlc_error"] or res["out"])[-3000:])
        for st in iter_dump_states(res["dump"], wanted={"c", "res", "x"}):
            if st["res"] == "new":
                continue
            c = plain(st["c"])
            if c["fam"] == "audit":
                audits += 1
                continue
            cases.append({"c": c, "x": plain(st["x"]), "res": str(st["res"])})
    finally:
        tlc.cleanup(res)
    cases.sort(key=case_key)
    return res, cases, audits


def validate(b, t, reps, traces, slices=None):
    files = {"MC_XTYPE_consts.tla": consts_module(b, t, reps), "TraceXTYPE_run.cfg": cfg_text(t, True)}
    slices = slices or max(1, min(int(os.environ.get("VERIF_PROCS") or 8), (len(traces) + 399) // 400))
    size = (len(traces) + slices - 1) // slices or 1
    parts = [(off, traces[off:off + size]) for off in range(0, len(traces), size)]

    def one(part):
        off, trs = part
        tv = tlc.validate_traces("TraceXTYPE", "TraceXTYPE_run.cfg", trs, extra_files=files, timeout=t["tlc_timeout"], chunk=100000)
        for rj in tv["rejected"]:
            rj["index"] += off
        for dr in tv["drift"]:
            dr["index"] += off
        return tv
    with ThreadPoolExecutor(max_workers=len(parts) or 1) as ex:
        tvs = list(ex.map(one, parts))
    return {"accepted": sum(v["accepted"] for v in tvs), "rejected": [r for v in tvs for r in v["rejected"]],
            "drift": [d for v in tvs for d in v["drift"]], "states": sum(v["states"] for v in tvs),
            "wall_s": max([v["wall_s"] for v in tvs] or [0]), "cmd": tvs[0]["cmd"] if tvs else ""}


def replay_cases(b, cases):
    """Run every case on the real server, one fresh process per configuration."""
    by_cfg = {}
    for idx, case in enumerate(cases):
        by_cfg.setdefault(case["c"]["cfg"], []).append((idx, case))
    order = sorted(by_cfg, key=lambda kid: -len(by_cfg[kid]))
    got = run_pool(_config_task, [(b["cfgs"][kid], b, by_cfg[kid]) for kid in order])
    results, requests = {}, 0
    for kid, g in zip(order, got):
        if g["extstrip"] is not None and g["extstrip"] != b["cfgs"][kid]["strip"]:
            raise core.MachineryError("extstrip in force %r differs from configuration %s" % (g["extstrip"], kid))
        results.update({int(i): v for i, v in g["obs"].items()})
        requests += g["requests"]
    return results, requests


# ---------------------------------------------------------------------------------------------------
def selftest(b, t, reps, cases, traces, accepted_ids):
    """Binding demonstration: recorded traces that TraceXTYPE accepted are corrupted in one field / lose one event;
    TraceXTYPE must then name the clause."""
    def pick(pred):
        for case, tr in zip(cases, traces):
            if tr["id"] in accepted_ids and pred(case["c"], tr):
                return json.loads(json.dumps(tr))
        return None

    def ev(tr, kind, ps=1):
        return next(e for e in tr["events"] if e["ev"] == kind and e["pass"] == ps)
    muts = []
    tr = pick(lambda c, x: c["fam"] == "name" and c["kind"] == "file" and c["n"] == "f.gif" and c["cfg"] == "K0")
    if tr:
        a = json.loads(json.dumps(tr))
        ev(a, "info")["o"]["type"] = "I"
        muts.append(("FirstMatchWins", a))
        a = json.loads(json.dumps(tr))
        ev(a, "http")["o"]["ctype"] = "image/png"
        muts.append(("ViewsConsistent", a))
        a = json.loads(json.dumps(tr))
        del a["events"][-1]
        muts.append(("Incomplete", a))
        a = json.loads(json.dumps(tr))
        ev(a, "get", 2)["o"]["cls"] = "plain"
        muts.append(("HistoryFree", a))
        a = json.loads(json.dumps(tr))
        for e in a["events"]:
            if e["ev"] in ("info", "row"):
                e["o"]["mime"], e["o"]["type"] = "image/png", "I"
            if e["ev"] == "row0":
                e["o"]["type"] = "I"
            if e["ev"] == "http":
                e["o"]["ctype"] = "image/png"
            if e["ev"] == "gem":
                e["o"]["meta"] = "image/png"
        muts.append(("TableTyped", a))
    tr = pick(lambda c, x: c["fam"] == "name" and c["n"] == "Welcome.txt" and b["cfgs"][c["cfg"]]["strip"] != "none"
              and b["cfgs"][c["cfg"]]["dirh"] == "UMN")
    if tr:
        for e in tr["events"]:
            if e["ev"] in ("row0", "row"):
                e["o"]["name"] = "Welcome.txt"
        muts.append(("StripOnlyName", tr))
    tr = pick(lambda c, x: c["fam"] == "title" and c["wrap"] == "std" and c["body"] == ["w1", "tab", "w2"][:len(c["body"])] and len(c["body"]) == 2
              and x["events"][0]["o"]["name"] == "Ab ")
    if tr:
        for e in tr["events"]:
            if e["ev"] == "info":
                e["o"]["name"] = "Ab%09"
        muts.append(("TitleClean", tr))
    tr = pick(lambda c, x: c["fam"] == "title" and c["wrap"] == "std" and c["body"] == ["w1"] and b["cfgs"][c["cfg"]]["strip"] == "none")
    if tr:
        for e in tr["events"]:
            if e["ev"] in ("row0", "row"):
                e["o"]["name"] = "p.html"
        muts.append(("TitleShown", tr))
    if len(muts) < 6:
        raise core.MachineryError("selftest: only %d recorded traces could be corrupted" % len(muts))
    tv = validate(b, t, reps, [m[1] for m in muts], slices=1)
    got = {rj["index"]: rj["clause"] for rj in tv["rejected"]}
    bad = [(i, want, got.get(i, "accepted")) for i, (want, _tr) in enumerate(muts) if got.get(i) != want]
    return len(muts), bad


def main(chk, replay=None):
    t = TIERS[chk.tier]
    scratch = tlc.new_scratch("xtype")
    cov = {"states": 0, "transitions": 0, "traces_validated_against_impl": 0, "evaluations": 0, "exhaustive": True, "samples": [],
           "checker_cmd": ""}
    try:
        b = b1(t, scratch)
        reps = choose_reps(b, t)
        if replay:
            with open(replay) as fp:
                rp = json.load(fp)
            if "case" not in rp.get("detail", {}):            # a violated invariant of the bounded model: check the model again
                res, cases, _a = model_check(chk, b, t, reps)
                cov.update(states=res.get("distinct", 0), transitions=res.get("generated", 0), exhaustive=False)
                return chk.finish(cov, ["replay of a model-level violation: the bounded model re-checked with the constants of this tree"])
            case = rp["detail"]["case"]
            results, _n = replay_cases(b, [case])
            traces = make_traces(b, [case], results)
            tv = validate(b, t, reps, traces, slices=1)
            for rj in tv["rejected"]:
                chk.violation(rp["key"], rj["clause"], flat_case(b, case), {"case": case, "trace": traces[0]})
            cov.update(traces_validated_against_impl=tv["accepted"], evaluations=1, exhaustive=False)
            return chk.finish(cov, ["replay of one stored case"])
        res, cases, audits = model_check(chk, b, t, reps)
        if not cases and chk.violations:
            cov["exhaustive"] = False
            return chk.finish(cov, ["the bounded model violates an invariant with the constants of this tree; no replay"])
        cov.update(states=res["distinct"], transitions=res["generated"], checker_cmd=res["cmd"], tlc_wall_s=res["wall_s"], audits=audits)
        if audits < 3 or not cases:
            raise core.MachineryError("vacuous model run: %d audit states, %d cases" % (audits, len(cases)))
        results, nreq = replay_cases(b, cases)
        traces = make_traces(b, cases, results)
        for case, tr in zip(cases, traces):
            if len(tr["events"]) != len(order_of(case)):
                raise core.MachineryError("case %s: %d events recorded, %d expected" % (tr["id"], len(tr["events"]), len(order_of(case))))
        tv = validate(b, t, reps, traces)
        cov.update(traces_validated_against_impl=tv["accepted"], evaluations=len(traces), requests_to_real_server=nreq,
                   trace_wall_s=tv["wall_s"], trace_states=tv["states"])
        rejected_ids = set()
        for rj in tv["rejected"]:
            case, tr = cases[rj["index"]], traces[rj["index"]]
            rejected_ids.add(tr["id"])
            if rj["clause"] in MACHINERY:
                raise core.MachineryError("trace %s: %s at event %s\n%s" % (tr["id"], rj["clause"], rj["at"], json.dumps(tr)[:1500]))
            chk.violation(case_key(case) + "|" + rj["clause"], rj["clause"], flat_case(b, case),
                          {"case": case, "at": rj["at"], "trace": tr})
        chk.note_drift([{"id": d["id"], "at": d["at"], "what": d["what"]} for d in tv["drift"]])
        # ---- what was actually exercised (counted from the lexed answers) --------------------------------------
        nt = {"types_seen": set(), "mimes_seen": set(), "decompressed": 0, "encoded_as_octet": 0, "stripped": 0, "titles_shown": 0,
              "names_kept": 0, "handlers": set()}
        for case, tr in zip(cases, traces):
            c = case["c"]
            info = tr["events"][0]["o"]
            nt["types_seen"].add(info["type"])
            nt["mimes_seen"].add(info["mime"])
            nt["handlers"].add(info["by"])
            for e in tr["events"]:
                if e["pass"] != 1:
                    continue
                if e["ev"] == "get" and e["o"]["cls"] == "plain":
                    nt["decompressed"] += 1
                if e["ev"] == "get" and e["o"]["cls"] == "raw" and info["mime"] == "application/octet-stream":
                    nt["encoded_as_octet"] += 1
                if e["ev"] == "row0" and e["o"]["n"] == 1:
                    if c["fam"] == "name" and e["o"]["name"] != q(c["n"]):
                        nt["stripped"] += 1
                    if c["fam"] == "name" and e["o"]["name"] == q(c["n"]):
                        nt["names_kept"] += 1
                    if c["fam"] == "title" and e["o"]["name"] != q(c["n"]) and e["o"]["name"] == info["name"]:
                        nt["titles_shown"] += 1
        counts = {k: (len(v) if isinstance(v, set) else v) for k, v in nt.items()}
        need = ["types_seen", "mimes_seen", "encoded_as_octet", "stripped", "titles_shown", "names_kept"]
        if any(counts[k] == 0 for k in need) or counts["types_seen"] < 5 or not {"html", "file"} <= nt["handlers"]:
            raise core.MachineryError("vacuous run: %r" % counts)
        if any(k["decomp"] for k in b["cfgs"].values()) and counts["decompressed"] == 0:
            raise core.MachineryError("vacuous run: a decompressor is configured but nothing was delivered decompressed")
        accepted_ids = {tr["id"] for tr in traces} - rejected_ids
        nmut, bad = selftest(b, t, reps, cases, traces, accepted_ids)
        if bad and not chk.violations:
            raise core.MachineryError("selftest: corrupted traces not rejected as expected: %r" % bad)
        cov["selftest_corrupted_traces_rejected"] = nmut - len(bad)
        cov["distinct_nontrivial"] = counts["mimes_seen"] + counts["decompressed"] + counts["stripped"] + counts["titles_shown"]
        cov["nontrivial"] = counts
        cov["rule"] = ("counted from the lexed answers: distinct MIME types announced, files delivered decompressed, listing names "
                       "that differ from the file name by extension stripping, listing names that are the HTML title")
        per = {}
        for case in cases:
            key = "%s/%s" % (case["c"]["fam"], case["c"]["cfg"])
            per[key] = per.get(key, 0) + 1
        cov["per_family_cfg"] = per
        cov["configurations"] = {kid: {x: k[x] for x in ("dirh", "chain", "strip", "map", "enc", "patt", "decomp", "defmime")}
                                 for kid, k in b["cfgs"].items()}
        cov["tables"] = {"strict": len(b["strict"]), "loose": len(b["loose"]), "suffix_map": len(b["suf"]),
                         "encodings": {e: sorted(tb["enc"]) for e, tb in b["tables"].items()}}
        cov["samples"] = [{"id": x["id"], "events": x["events"][:1]} for x in traces[:: max(1, len(traces) // 5)][:5]]
        return chk.finish(cov, [
            "not one of the listed properties; clauses and their documentation sources are in the header of spec/Typing.tla",
            "requests go through World.request (real GopherRequestHandler, in-memory socket), one fresh process per configuration",
            "mimetypes tables are imported AFTER the server configured them (conf/mime.types + Python defaults + the machine's "
            "/etc/mime.types as Python reads it + a small site-local file for the types the shipped mapping names)",
            "regular expressions are imported as syntax trees of Python's re parser; the matcher is in the model",
            "directory cache switched off (cachetime 0): caching is C10/C11/C14",
            "the shipped handler list is modelled by its file handlers (html, file) and UMN; url/gophermap/mbox handlers never "
            "claim the generated files (checked at design level through the handler class in the log)"])
    finally:
        import shutil
        shutil.rmtree(scratch, ignore_errors=True)
